#!/bin/sh
# Run once after a fresh restore (offline): build the conformance harness against /repo and
# parse every TLA+ module.
set -e
cd "$(dirname "$0")"
export CARGO_NET_OFFLINE=true
(cd harness && cargo build --offline 2>&1 | tail -3)
cd spec
for f in *.tla; do
  tla-sany "$f" > /tmp/sany.$$ 2>&1 || { echo "SANY failed on $f"; tail -20 /tmp/sany.$$; rm -f /tmp/sany.$$; exit 1; }
done
rm -f /tmp/sany.$$
echo "setup ok"
