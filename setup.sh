#!/bin/sh
# Run once after a fresh restore (offline): build the conformance harness against /repo and
# parse every TLA+ module.
set -e
cd "$(dirname "$0")"
export CARGO_NET_OFFLINE=true
(cd harness && cargo build --offline 2>&1 | tail -3)
for f in spec/*.tla; do
  tla-sany "$f" > /dev/null 2>&1 || { echo "SANY failed on $f"; tla-sany "$f" | tail -20; exit 1; }
done
echo "setup ok"
