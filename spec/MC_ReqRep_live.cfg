\* liveness group: 1 requestor x 1 request, 2 repliers, channel close, fairness
SPECIFICATION FairSpec
CONSTANTS
  Cls = {1}
  Rps = {1, 2}
  MaxReqs = 1
  MaxBlocks = 1
  MaxBreaks = 0
  MaxErrs = 0
  MaxBad = 0
  MaxJunk = 0
  MaxBig = 0
  AllowClose = TRUE
  MaxAhead = 2
  FixD3 = TRUE
  FixD4 = TRUE
  FixD5 = TRUE
  FixD6 = TRUE
  FixD9 = TRUE
  FixD16 = TRUE
INVARIANTS
  Inv_NoPanic
  Inv_OneReplier
  Inv_AtMostOnce
  Inv_RequestOrder
  Inv_ReplyRouting
  Inv_RejectedProtocol
  Inv_NoLostRequest
  Inv_ServerMatchesBound
  Inv_QuiescentComplete
  Inv_ShutdownFlushed
PROPERTIES
  Prop_NoReplyOverwrite
  Prop_RefinesIface
  Live_PollTerminates
  Live_ShutdownTerminates
  Live_ReplierDecided
CHECK_DEADLOCK FALSE
