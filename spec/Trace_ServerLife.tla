--------------------------- MODULE Trace_ServerLife ---------------------------
(* Trace validation of the real server's graceful shutdown against ServerLife: *)
(* the steps of shutdown() come in the specification's order (SAcq1/2, SClose, *)
(* SJoin), no registration runs its critical section and no router is spawned  *)
(* while shutdown holds the locks (Inv_ShutdownExclusive), and listen()        *)
(* returns (Live_ShutdownEnds) unless a subscriber refuses to read.            *)
EXTENDS Naturals, Sequences, FiniteSets, TLC, Json, IOUtils
Rec == ndJsonDeserialize(IOEnv.TRACE)
VARIABLES l, skip, run, nviol,
          spc,      \* "run" | "signalled" | "locked" | "closed" | "joined" | "idle" | "returned"
          stalled
tvars == <<l, skip, run, nviol, spc, stalled>>
TraceInit == l = 1 /\ skip = TRUE /\ run = 0 /\ nviol = 0 /\ spc = "run" /\ stalled = FALSE
Flag(props, kind) == /\ PrintT(<<"VIOL", run, l, props, kind>>)
                     /\ skip' = TRUE /\ nviol' = nviol + 1 /\ UNCHANGED <<run, spc, stalled>>
Note(what) == /\ PrintT(<<"NOTE", run, l, what>>) /\ skip' = TRUE /\ UNCHANGED <<run, nviol, spc, stalled>>
Stutter == UNCHANGED <<skip, run, nviol, spc, stalled>>
To(s) == spc' = s /\ UNCHANGED <<skip, run, nviol, stalled>>
Order(from, to) == IF spc = from THEN To(to) ELSE Flag({"C16"}, "shutdown_step_out_of_order_" \o to \o "_after_" \o spc)
Step(e) ==
    CASE e.ev = "sigint" -> spc' = "signalled" /\ stalled' = e.stalled /\ UNCHANGED <<skip, run, nviol>>
      [] e.ev = "sd_locks_acquired" -> Order("signalled", "locked")
      [] e.ev = "sd_channels_closed" -> Order("locked", "closed")
      [] e.ev = "sd_joined" -> Order("closed", "joined")
      [] e.ev = "sd_idle" -> Order("joined", "idle")
      [] e.ev \in {"hs_lock_acquired", "hs_lock_released", "hs_topic_created"} ->
            IF spc \in {"locked", "closed"}
            THEN Flag({"C16"}, IF e.ev = "hs_topic_created" THEN "router_spawned_while_shutdown_holds_the_locks"
                               ELSE "registration_critical_section_while_shutdown_holds_the_locks")
            ELSE Stutter
      [] e.ev = "listen_returned" ->
            IF e.res # "ok" THEN Flag({"C16"}, "listen_returned_an_error")
            ELSE IF spc # "idle" THEN Flag({"C16"}, "listen_returned_before_shutdown_finished_at_" \o spc)
            ELSE To("returned")
      [] e.ev = "listen_hung" ->
            \* C16's proviso: a topic whose subscriber does not accept data may keep its router
            IF stalled THEN Stutter ELSE Flag({"C16"}, "shutdown_did_not_finish_stuck_at_" \o spc)
      [] e.ev = "late_reg" ->
            IF e.res = "hung" /\ ~stalled THEN Flag({"C16", "C11"}, "registration_during_shutdown_neither_answered_nor_closed") ELSE Stutter
      [] e.ev = "sub_summary" ->
            IF ~e.contiguous THEN Flag({"C01", "C16"}, "subscriber_run_not_contiguous_at_shutdown")
            ELSE IF e.last > e.published THEN Flag({"C01"}, "item_never_published")
            ELSE Stutter
      [] e.ev = "requests" -> IF e.wrong # 0 THEN Flag({"C02", "C04"}, "wrong_reply_during_shutdown") ELSE Stutter
      [] e.ev = "harness_error" -> Note("harness_error")
      [] OTHER -> Stutter
NewCase(e) == skip' = FALSE /\ run' = e.run /\ nviol' = nviol /\ spc' = "run" /\ stalled' = FALSE
TraceNext == /\ l <= Len(Rec) /\ l' = l + 1
             /\ LET e == Rec[l] IN IF e.ev = "case" THEN NewCase(e) ELSE IF skip THEN Stutter ELSE Step(e)
TraceSpec == TraceInit /\ [][TraceNext]_tvars
TraceAccepted == LET d == TLCGet("stats").diameter IN
                 IF d - 1 = Len(Rec) THEN TRUE ELSE Print(<<"TRACE NOT CONSUMED", d, Len(Rec)>>, FALSE)
=============================================================================
