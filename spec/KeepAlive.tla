------------------------------ MODULE KeepAlive ------------------------------
(***************************************************************************)
(* Re-establishment of a stream after connection loss                      *)
(* (client/src/keep_alive/pubsub.rs, reqrep.rs, helpers.rs).               *)
(* A stream lives through a sequence of outages.  In every outage it makes *)
(* reconnect attempts drawn from a budget iterator; an attempt succeeds,   *)
(* fails recoverably, or fails with an unrecoverable error.                *)
(* Stream kinds differ in where the budget iterator is created:            *)
(*   publisher / subscriber : a fresh iterator in on_disconnect (per outage)*)
(*   requestor              : per request() call                            *)
(*   replier                : FixD17 FALSE (as written): once per listen()  *)
(*                            call, i.e. one budget for the stream's life   *)
(* FixD11 FALSE (as written): a requestor's reply reader still owns the     *)
(* old read half after a reconnect, so nothing is ever answered again.      *)
(***************************************************************************)
EXTENDS Naturals, Sequences, FiniteSets, TLC, Json

CONSTANTS Kinds, MaxAttemptsSet, MaxOutages, FixD11, FixD17

Outcomes == {"ok", "fail", "fatal"}

VARIABLES kind, max,
          status,      \* "connected" | "reconnecting" | "too_many_retries" | "fatal_error"
          left,        \* attempts left in the budget iterator in use
          outages,     \* history: per outage the sequence of attempt outcomes
          works,       \* does an exchange issued now complete
          readerOk     \* requestor: the reply reader reads the current stream
kvars == <<kind, max, status, left, outages, works, readerOk>>

PerOutageBudget(k) == k \in {"publisher", "subscriber", "requestor"} \/ FixD17

KInit == /\ kind \in Kinds /\ max \in MaxAttemptsSet
         /\ status = "connected" /\ left = max /\ outages = <<>> /\ works = TRUE /\ readerOk = TRUE

\* the connection is cut while the server stays reachable
Cut == /\ status = "connected" /\ Len(outages) < MaxOutages
       /\ status' = "reconnecting" /\ works' = FALSE
       /\ left' = IF PerOutageBudget(kind) THEN max ELSE left
       /\ outages' = Append(outages, <<>>)
       /\ UNCHANGED <<kind, max, readerOk>>

Attempt(o) ==
    /\ status = "reconnecting" /\ left > 0
    /\ left' = left - 1
    /\ outages' = [outages EXCEPT ![Len(outages)] = Append(@, o)]
    /\ CASE o = "ok" -> /\ status' = "connected"
                        /\ readerOk' = (IF kind = "requestor" THEN FixD11 ELSE readerOk)
                        /\ works' = (IF kind = "requestor" THEN FixD11 ELSE TRUE)
         [] o = "fail" -> UNCHANGED <<status, works, readerOk>>
         [] o = "fatal" -> status' = "fatal_error" /\ UNCHANGED <<works, readerOk>>
    /\ UNCHANGED <<kind, max>>

Exhaust == /\ status = "reconnecting" /\ left = 0
           /\ status' = "too_many_retries"
           /\ UNCHANGED <<kind, max, left, outages, works, readerOk>>

KNext == Cut \/ (\E o \in Outcomes : Attempt(o)) \/ Exhaust
KSpec == KInit /\ [][KNext]_kvars
KFair == KSpec /\ WF_kvars(Exhaust)

AttemptsIn(i) == Len(outages[i])
\* C12: every outage gets the full configured number of attempts
Inv_FullBudgetPerOutage ==
    (status = "too_many_retries") => AttemptsIn(Len(outages)) = max
\* C12: an unrecoverable error is reported at once; exhaustion only after max failures
Inv_ExhaustionOnlyAfterMaxFailures ==
    (status = "too_many_retries") => \A j \in 1..AttemptsIn(Len(outages)) : outages[Len(outages)][j] = "fail"
\* C12: after a successful re-establishment the stream works again
Inv_WorksAfterRecovery == (status = "connected") => works
\* C12: exhaustion is reported instead of hanging
Live_ExhaustionReported == (status = "reconnecting" /\ left = 0) ~> (status = "too_many_retries")

Done == status \in {"too_many_retries", "fatal_error"} \/ (status = "connected" /\ Len(outages) = MaxOutages)
EmitCase == Done => PrintT(<<"CASE", ToJson([kind |-> kind, max |-> max, outages |-> outages, final |-> status])>>)
=============================================================================
