------------------------------ MODULE Handshake ------------------------------
(***************************************************************************)
(* Mutual TLS between client and server (server/src/quic.rs,               *)
(* client/src/connection.rs): a connection carries topic traffic only if   *)
(* the client verified the server's certificate against its configured CA  *)
(* and the server verified the client's certificate against its own.       *)
(* TLS itself is not modelled: the checks are atomic trust decisions.      *)
(***************************************************************************)
EXTENDS Naturals, FiniteSets, TLC, Json

\* "borrowed_chain": an untrusted certificate with its own key, followed in the presented chain by
\* somebody else's trusted (public) certificate for which the peer has no key.
\* "chain_X_with_caY": an identity *file* (PEM, expressible with the client builder) holding the peer's own
\* certificate of set X followed by the CA certificate of set Y: extra certificates in one's own identity
\* never widen what one trusts.
\* "stolen_cert_X": a copy of somebody else's certificate of set X, presented with a key of one's own
\* (no proof of possession: the CA never certified this peer)
ClientIds == {"trusted", "other_ca", "self_signed", "none", "borrowed_chain_self", "borrowed_chain_other",
              "chain_T_with_caO", "chain_O_with_caT", "stolen_cert_T", "stolen_cert_O"}
\* a server has a certificate of one set and accepts clients certified by one set (the bundled generator
\* makes them the same set; an operator need not)
ServerIds == {"trusted", "other_ca", "cert_O_accepts_T", "cert_T_accepts_O"}

VARIABLES cid, sid,        \* identities presented
          ctrust,          \* the CA the client was configured with: "T" (the one "trusted" refers to) or "O"
          state,           \* "start" | "server_verified" | "mutually_verified" | "refused" | "registered"
          via              \* "library" (client builder) | "raw" (plain QUIC peer)
hvars == <<cid, sid, ctrust, state, via>>

HInit == cid \in ClientIds /\ sid \in ServerIds /\ ctrust \in {"T", "O"} /\ state = "start" /\ via \in {"library", "raw"}
             /\ (cid \in {"none", "borrowed_chain_self", "borrowed_chain_other"} => via = "raw")   \* (the builder wants an identity and the matching key)

\* which CA an identity chains to ("-" = none that anybody trusts)
ServerChainsTo(s_) == IF s_ \in {"trusted", "cert_T_accepts_O"} THEN "T" ELSE "O"
ServerAccepts(s_) == IF s_ \in {"trusted", "cert_O_accepts_T"} THEN "T" ELSE "O"
\* (the end-entity certificate decides: "borrowed_chain_other" leads with a certificate of set O)
ClientChainsTo(c_) == IF c_ \in {"trusted", "chain_T_with_caO"} THEN "T"
                      ELSE IF c_ \in {"other_ca", "borrowed_chain_other", "chain_O_with_caT"} THEN "O" ELSE "-"

\* the client checks the server's chain against the CA it was configured with
ServerCertCheck == /\ state = "start"
                   /\ state' = IF ServerChainsTo(sid) = ctrust THEN "server_verified" ELSE "refused"
                   /\ UNCHANGED <<cid, sid, ctrust, via>>
\* the server checks the client's chain against the CA it was started with
ClientCertCheck == /\ state = "server_verified"
                   /\ state' = IF ClientChainsTo(cid) = ServerAccepts(sid) THEN "mutually_verified" ELSE "refused"
                   /\ UNCHANGED <<cid, sid, ctrust, via>>
Register == /\ state = "mutually_verified" /\ state' = "registered" /\ UNCHANGED <<cid, sid, ctrust, via>>

HNext == ServerCertCheck \/ ClientCertCheck \/ Register
HSpec == HInit /\ [][HNext]_hvars

MayRegister(c, s_, t) == ServerChainsTo(s_) = t /\ ClientChainsTo(c) = ServerAccepts(s_)
Inv_NoTrafficUnlessMutuallyVerified == state = "registered" => MayRegister(cid, sid, ctrust)
EmitCase == state = "start" => PrintT(<<"CASE", ToJson([client |-> cid, server |-> sid, trust |-> ctrust, via |-> via])>>)
=============================================================================
