------------------------------ MODULE Handshake ------------------------------
(***************************************************************************)
(* Mutual TLS between client and server (server/src/quic.rs,               *)
(* client/src/connection.rs): a connection carries topic traffic only if   *)
(* the client verified the server's certificate against its configured CA  *)
(* and the server verified the client's certificate against its own.       *)
(* TLS itself is not modelled: the checks are atomic trust decisions.      *)
(***************************************************************************)
EXTENDS Naturals, FiniteSets, TLC, Json

\* "borrowed_chain": an untrusted certificate with its own key, followed in the presented chain by
\* somebody else's trusted (public) certificate for which the peer has no key
ClientIds == {"trusted", "other_ca", "self_signed", "none", "borrowed_chain_self", "borrowed_chain_other"}
ServerIds == {"trusted", "other_ca"}

VARIABLES cid, sid,        \* identities presented
          state,           \* "start" | "server_verified" | "mutually_verified" | "refused" | "registered"
          via              \* "library" (client builder) | "raw" (plain QUIC peer)
hvars == <<cid, sid, state, via>>

HInit == cid \in ClientIds /\ sid \in ServerIds /\ state = "start" /\ via \in {"library", "raw"}
             /\ (cid \in {"none", "borrowed_chain_self", "borrowed_chain_other"} => via = "raw")   \* not expressible with the client builder

\* the client checks the server's chain against the CA it was configured with
ServerCertCheck == /\ state = "start"
                   /\ state' = IF sid = "trusted" THEN "server_verified" ELSE "refused"
                   /\ UNCHANGED <<cid, sid, via>>
\* the server checks the client's chain against the CA it was started with
ClientCertCheck == /\ state = "server_verified"
                   /\ state' = IF cid = "trusted" THEN "mutually_verified" ELSE "refused"
                   /\ UNCHANGED <<cid, sid, via>>
Register == /\ state = "mutually_verified" /\ state' = "registered" /\ UNCHANGED <<cid, sid, via>>

HNext == ServerCertCheck \/ ClientCertCheck \/ Register
HSpec == HInit /\ [][HNext]_hvars

MayRegister(c, s) == c = "trusted" /\ s = "trusted"
Inv_NoTrafficUnlessMutuallyVerified == state = "registered" => MayRegister(cid, sid)
EmitCase == state = "start" => PrintT(<<"CASE", ToJson([client |-> cid, server |-> sid, via |-> via])>>)
=============================================================================
