\* routing group: 2 requestors x 1 request, 1 replier, 1 block (safety + refinement)
SPECIFICATION Spec
CONSTANTS
  Cls = {1, 2}
  Rps = {1}
  MaxReqs = 1
  MaxBlocks = 1
  MaxBreaks = 0
  MaxErrs = 0
  MaxBad = 0
  MaxJunk = 0
  MaxBig = 0
  AllowClose = FALSE
  MaxAhead = 2
  FixD3 = TRUE
  FixD4 = TRUE
  FixD5 = TRUE
  FixD6 = TRUE
  FixD9 = TRUE
  FixD16 = TRUE
INVARIANTS
  Inv_NoPanic
  Inv_OneReplier
  Inv_AtMostOnce
  Inv_RequestOrder
  Inv_ReplyRouting
  Inv_RejectedProtocol
  Inv_NoLostRequest
  Inv_ServerMatchesBound
  Inv_QuiescentComplete
  Inv_ShutdownFlushed
PROPERTIES
  Prop_NoReplyOverwrite
  Prop_RefinesIface

CHECK_DEADLOCK FALSE
