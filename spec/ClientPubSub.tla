---------------------------- MODULE ClientPubSub ----------------------------
(***************************************************************************)
(* End-to-end pub/sub path of the client library:                          *)
(*   Publisher (client/src/streams/pubsub/publisher.rs): optional batching *)
(*   (MessageBatch, checked only in poll_ready), the framed writer's       *)
(*   buffer (start_send without flush), finish();                          *)
(*   broker: FIFO per publisher (PubSubIface);                             *)
(*   Subscriber (subscriber.rs): current decoded batch handed out one      *)
(*   message per poll.                                                      *)
(* Items are 1..n in send order.  Deviations of the code as written:       *)
(*   FixD7 FALSE: batch members are handed out from the tail (Vec::pop)    *)
(*   FixD8 FALSE: finish() finishes the QUIC stream without flushing the   *)
(*                framed writer, losing what was only start_send'ed        *)
(***************************************************************************)
EXTENDS Naturals, Sequences, FiniteSets, SequencesExt, TLC, Json

CONSTANTS BatchSizes,     \* 0 = batching off
          MaxItems,
          FixD7, FixD8

VARIABLES cfg,       \* [size, elapses]: batch size; does the batch interval elapse between any two operations
          ops,       \* history: operations performed ("send" / "feed" / "flush" / "finish")
          sent,      \* items accepted by the publisher so far (Seq)
          batch,     \* MessageBatch.batch
          wbuf,      \* frames accepted by the framed writer, not yet handed to QUIC
          wire,      \* frames handed to QUIC = frames the broker forwards, in order
          fin,       \* publisher finished
          taken,     \* number of wire frames the subscriber has consumed
          cur,       \* subscriber's current decoded batch
          out        \* items yielded by the subscriber

cvars == <<cfg, ops, sent, batch, wbuf, wire, fin, taken, cur, out>>

Msg(x) == <<"msg", <<x>>>>
Bat(xs) == <<"batch", xs>>

CInit == /\ cfg \in [size : BatchSizes, elapses : BOOLEAN]
         /\ (cfg.size = 0 => ~cfg.elapses)
         /\ ops = <<>> /\ sent = <<>> /\ batch = <<>> /\ wbuf = <<>> /\ wire = <<>>
         /\ fin = FALSE /\ taken = 0 /\ cur = <<>> /\ out = <<>>

Batching == cfg.size > 0
BatchReady == cfg.elapses \/ Len(batch) >= cfg.size

\* Publisher::poll_ready followed by start_send(x)
ReadyAndStart(x, b0, w0) ==
    IF Batching
    THEN IF BatchReady /\ TRUE
         THEN \* send_batch: drain (even an empty batch is framed), then push
              <<<<x>>, Append(w0, Bat(b0))>>
         ELSE <<Append(b0, x), w0>>
    ELSE <<b0, Append(w0, Msg(x))>>

Next_x == Len(sent) + 1

\* SinkExt::send = poll_ready, start_send, poll_flush
Send ==
    /\ ~fin /\ Len(sent) < MaxItems
    /\ LET r == ReadyAndStart(Next_x, batch, wbuf) IN
       /\ batch' = r[1]
       /\ wire' = wire \o r[2] /\ wbuf' = <<>>
    /\ sent' = Append(sent, Next_x) /\ ops' = Append(ops, "send")
    /\ UNCHANGED <<cfg, fin, taken, cur, out>>

\* SinkExt::feed = poll_ready, start_send (no flush)
Feed ==
    /\ ~fin /\ Len(sent) < MaxItems
    /\ LET r == ReadyAndStart(Next_x, batch, wbuf) IN
       /\ batch' = r[1] /\ wbuf' = r[2]
    /\ sent' = Append(sent, Next_x) /\ ops' = Append(ops, "feed")
    /\ UNCHANGED <<cfg, wire, fin, taken, cur, out>>

\* finish(): flush_batch, then finish the stream
Finish ==
    /\ ~fin
    /\ LET w1 == IF Batching /\ batch # <<>> THEN Append(wbuf, Bat(batch)) ELSE wbuf IN
       /\ wire' = IF FixD8 THEN wire \o w1 ELSE wire
       /\ wbuf' = IF FixD8 THEN <<>> ELSE w1          \* dropped with the stream
    /\ batch' = <<>> /\ fin' = TRUE /\ ops' = Append(ops, "finish")
    /\ UNCHANGED <<cfg, sent, taken, cur, out>>

\* Subscriber::poll_next
SubNext ==
    \/ /\ cur # <<>>
       /\ IF FixD7 THEN out' = Append(out, Head(cur)) /\ cur' = Tail(cur)
                   ELSE out' = Append(out, Last(cur)) /\ cur' = Front(cur)
       /\ UNCHANGED <<cfg, ops, sent, batch, wbuf, wire, fin, taken>>
    \/ /\ cur = <<>> /\ taken < Len(wire)
       /\ LET f == wire[taken + 1] IN
          IF f[1] = "msg" THEN out' = Append(out, f[2][1]) /\ cur' = cur
                          ELSE cur' = f[2] /\ out' = out
       /\ taken' = taken + 1
       /\ UNCHANGED <<cfg, ops, sent, batch, wbuf, wire, fin>>

CNext == Send \/ Feed \/ Finish \/ SubNext
CSpec == CInit /\ [][CNext]_cvars

\* C03: the subscriber yields exactly the items the publisher accepted, in order, each once
Inv_OutPrefixOfSent == IsPrefix(out, sent)
Drained == fin /\ taken = Len(wire) /\ cur = <<>>
\* C03: finish() returns only after everything accepted has been handed to the transport
Inv_FinishDelivers == Drained => out = sent

EmitCase == Drained => PrintT(<<"CASE", ToJson([size |-> cfg.size, elapses |-> cfg.elapses, ops |-> ops])>>)
=============================================================================
