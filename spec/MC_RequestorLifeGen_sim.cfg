SPECIFICATION GenSpec
CONSTANTS
  Families = {1, 2}
  Clones = {"a", "b", "c"}
  MaxCalls = 6
  MaxCuts = 2
  CidNeverReused = TRUE
  ReconnectKeepsPending = TRUE
  MaxSteps = 14
INVARIANT GenEmit
CHECK_DEADLOCK FALSE
