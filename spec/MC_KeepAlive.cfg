SPECIFICATION KFair
CONSTANTS
  Kinds = {"publisher", "subscriber", "requestor", "replier"}
  MaxAttemptsSet = {0, 1, 2}
  MaxOutages = 3
  FixD11 = TRUE
  FixD17 = TRUE
INVARIANTS Inv_FullBudgetPerOutage Inv_ExhaustionOnlyAfterMaxFailures Inv_WorksAfterRecovery EmitCase
PROPERTIES Live_ExhaustionReported
CHECK_DEADLOCK FALSE
