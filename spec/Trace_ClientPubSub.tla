------------------------ MODULE Trace_ClientPubSub ------------------------
(* Trace validation of real Publisher / Subscriber runs over loopback QUIC *)
(* (harness: e2e pubsub) against the interface-level obligations of        *)
(* ClientPubSub.tla: the subscriber yields exactly the accepted items, in  *)
(* order, each once, with equal values; after finish() everything arrives. *)
EXTENDS Naturals, Sequences, TLC, Json, IOUtils

Rec == ndJsonDeserialize(IOEnv.TRACE)
VARIABLES l, skip, run, nviol, nsent, out, finished,
          poisoned,   \* a payload that is invalid for the subscriber's codec was injected and its error is awaited
          hadPoison
tvars == <<l, skip, run, nviol, nsent, out, finished, poisoned, hadPoison>>

TraceInit == l = 1 /\ skip = TRUE /\ run = 0 /\ nviol = 0 /\ nsent = 0 /\ out = <<>> /\ finished = FALSE /\ poisoned = FALSE /\ hadPoison = FALSE

\* after an injected invalid payload the run also speaks about C14 (an error, never a wrong value -- and
\* nothing that follows is disturbed)
Flag(kind) == /\ PrintT(<<"VIOL", run, l, IF hadPoison THEN {"C03", "C14"} ELSE {"C03"}, kind>>)
              /\ skip' = TRUE /\ nviol' = nviol + 1 /\ UNCHANGED <<run, nsent, out, finished, poisoned, hadPoison>>
Stutter == UNCHANGED <<skip, run, nviol, nsent, out, finished, poisoned, hadPoison>>

Step(e) ==
    CASE e.ev = "pub_op" ->
            IF e.res # "ok" THEN Flag("publisher_" \o e.op \o "_failed")
            ELSE IF e.i # nsent + 1 THEN Flag("harness_numbering")
            ELSE nsent' = nsent + 1 /\ UNCHANGED <<skip, run, nviol, out, finished, poisoned, hadPoison>>
      [] e.ev = "pub_oversize" ->
            \* an item beyond the frame limit: refused (nothing accepted), or accepted because it compresses
            IF e.res = "ok" THEN nsent' = nsent + 1 /\ UNCHANGED <<skip, run, nviol, out, finished, poisoned, hadPoison>>
            ELSE Stutter
      [] e.ev = "pub_finish_ret" ->
            IF e.res # "ok" THEN Flag("finish_failed")
            ELSE finished' = TRUE /\ UNCHANGED <<skip, run, nviol, nsent, out, poisoned, hadPoison>>
      [] e.ev = "sub_item" ->
            IF e.i = Len(out) + 1 /\ e.i <= nsent
            THEN IF e.eq THEN out' = Append(out, e.i) /\ UNCHANGED <<skip, run, nviol, nsent, finished, poisoned, hadPoison>>
                 ELSE Flag("item_value_differs")
            ELSE Flag(IF e.i <= Len(out) THEN "item_duplicated"
                      ELSE IF e.i <= nsent THEN "items_reordered_or_skipped"
                      ELSE "item_never_sent")
      [] e.ev = "poison" -> poisoned' = TRUE /\ hadPoison' = TRUE /\ UNCHANGED <<skip, run, nviol, nsent, out, finished>>
      [] e.ev = "poison_unreported" -> Flag("invalid_payload_not_reported_as_an_error")
      [] e.ev = "sub_err" ->
            IF poisoned THEN poisoned' = FALSE /\ UNCHANGED <<skip, run, nviol, nsent, out, finished, hadPoison>>
            ELSE Flag("subscriber_yielded_error")
      [] e.ev = "sub_end" -> Flag("subscriber_stream_ended")
      [] e.ev = "harness_error" -> Flag("no_delivery_at_all")
      [] e.ev = "hung" -> Flag("case_did_not_finish_within_120s")
      [] e.ev = "done" ->
            IF Len(out) # nsent THEN Flag(IF finished THEN "items_lost_although_finish_returned" ELSE "items_lost")
            ELSE IF e.extra # 0 THEN Flag("extra_items")
            ELSE Stutter
      [] OTHER -> Stutter

NewCase(e) == skip' = FALSE /\ run' = e.run /\ nviol' = nviol /\ nsent' = 0 /\ out' = <<>> /\ finished' = FALSE /\ poisoned' = FALSE /\ hadPoison' = FALSE

TraceNext == /\ l <= Len(Rec) /\ l' = l + 1
             /\ LET e == Rec[l] IN IF e.ev = "case" THEN NewCase(e) ELSE IF skip THEN Stutter ELSE Step(e)
TraceSpec == TraceInit /\ [][TraceNext]_tvars
TraceAccepted == LET d == TLCGet("stats").diameter IN
                 IF d - 1 = Len(Rec) THEN TRUE ELSE Print(<<"TRACE NOT CONSUMED", d, Len(Rec)>>, FALSE)
=============================================================================
