SPECIFICATION LSpec
CONSTANTS
  Pubs = {1, 2}
  Origins = 1
  Subs = {1, 2}
  MaxItems = 2
  MaxCuts = 2
  ResubscribeAfterLoss = TRUE
INVARIANTS Inv_Increasing Inv_SubscriberSurvives
CHECK_DEADLOCK FALSE
