SPECIFICATION RSpec
CONSTANTS
  Streams = {1, 2}
  MaxCalls = 3
  Modes = {"now", "late", "never", "dup"}
  RouteByCid = TRUE
INVARIANTS Inv_OwnReplyOnly Inv_Outcome EmitCase
CHECK_DEADLOCK FALSE
