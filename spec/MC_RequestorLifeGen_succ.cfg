\* successors: one clone per family, longer schedules (a late reply to a dropped family meets its successor)
SPECIFICATION GenSpec
CONSTANTS
  Families = {1, 2}
  Clones = {"a"}
  MaxCalls = 3
  MaxCuts = 1
  CidNeverReused = TRUE
  ReconnectKeepsPending = TRUE
  MaxSteps = 8
INVARIANT GenEmit
CHECK_DEADLOCK FALSE
