------------------------------ MODULE Framing ------------------------------
(***************************************************************************)
(* The wire framing  u64 length | u8 type | payload  (protocol/src/codec.rs*)
(* MessageCodec) as a decoder automaton over a byte stream that arrives in *)
(* arbitrary chunks.  Lengths are abstract byte counts; the frame size     *)
(* limit is the constant MaxLen (2^20 in the code), the header is H = 9    *)
(* bytes.  The conformance run maps abstract body lengths and cut points   *)
(* onto real ones (MaxLen -> 1 MiB) and validates the real decoder's       *)
(* answers against DecodeStep below.                                       *)
(***************************************************************************)
EXTENDS Naturals, Sequences, FiniteSets, TLC, Json

CONSTANTS MaxLen, MaxFrames, MaxChunks
H == 9

\* a frame on the wire: declared length, body bytes actually present, and
\* whether type byte / body are well-formed
FrameKinds ==
    {[decl |-> n, body |-> n, ok |-> "ok"] : n \in 0..MaxLen}
    \cup {[decl |-> n, body |-> n, ok |-> k] : n \in 1..MaxLen, k \in {"badtype", "badbody"}}
    \cup {[decl |-> MaxLen + 1, body |-> b, ok |-> "ok"] : b \in 0..1}      \* adversarial prefix

VARIABLES frames, fed, consumed, out, feeds, dead, phase
fvars == <<frames, fed, consumed, out, feeds, dead, phase>>

RECURSIVE Total(_)
Total(fs) == IF fs = <<>> THEN 0 ELSE H + Head(fs).body + Total(Tail(fs))

\* index of the frame that starts at byte offset `off` (frames are consumed whole)
RECURSIVE FrameAt(_, _, _)
FrameAt(fs, off, k) == IF off = 0 THEN k ELSE FrameAt(Tail(fs), off - (H + Head(fs).decl), k + 1)

R(t, k, kind) == [t |-> t, k |-> k, kind |-> kind]

\* what one call of decode() must answer, given the bytes available
\* returns <<result, bytes consumed>>; result: [t: "none" | "toolarge" | "frame" | "err", k: frame index, kind]
DecodeStep(fs, fedBytes, cons) ==
    LET avail == fedBytes - cons IN
    IF avail < H THEN <<R("none", 0, ""), 0>>
    ELSE LET k == FrameAt(fs, cons, 1)
             f == fs[k] IN
         IF f.decl > MaxLen THEN <<R("toolarge", k, ""), 0>>  \* refused before any payload is awaited
         ELSE IF avail - H < f.decl THEN <<R("none", 0, ""), 0>>
         ELSE IF f.ok = "ok" THEN <<R("frame", k, ""), H + f.decl>>
         ELSE <<R("err", k, f.ok), H + f.decl>>

\* well-formed streams: anything after an adversarial / malformed frame is never reached
WellFormedSeq(fs) == \A i \in 1..(Len(fs) - 1) : fs[i].ok = "ok" /\ fs[i].decl <= MaxLen

RECURSIVE Seqs(_)
Seqs(n) == IF n = 0 THEN {<<>>} ELSE LET S == Seqs(n - 1) IN S \cup {Append(q, f) : q \in {q \in S : Len(q) = n - 1}, f \in FrameKinds}

FInit == /\ frames \in {fs \in Seqs(MaxFrames) : fs # <<>> /\ WellFormedSeq(fs)}
         /\ fed = 0 /\ consumed = 0 /\ out = <<>> /\ feeds = <<>> /\ dead = FALSE /\ phase = "feed"

Feed(n) ==
    /\ phase = "feed" /\ ~dead /\ fed < Total(frames)
    /\ n \in 1..(Total(frames) - fed)
    /\ Len(feeds) < MaxChunks
    /\ (Len(feeds) = MaxChunks - 1 => n = Total(frames) - fed)
    /\ fed' = fed + n /\ feeds' = Append(feeds, n) /\ phase' = "decode"
    /\ UNCHANGED <<frames, consumed, out, dead>>

\* the framed reader calls decode() until it answers None
Decode ==
    /\ phase = "decode" /\ ~dead
    /\ LET r == DecodeStep(frames, fed, consumed) IN
       /\ out' = Append(out, r[1])
       /\ consumed' = consumed + r[2]
       /\ dead' = (r[1].t \in {"toolarge", "err"})
       /\ phase' = IF r[1].t = "none" THEN "feed" ELSE "decode"
    /\ UNCHANGED <<frames, fed, feeds>>

FNext == (\E n \in 1..(MaxFrames * (H + MaxLen + 1)) : Feed(n)) \/ Decode
FSpec == FInit /\ [][FNext]_fvars

Yielded == SelectSeq(out, LAMBDA r : r.t # "none")
Done == (phase = "feed" /\ fed = Total(frames)) \/ dead

\* C05: whatever the chunking, the frames come out in order, each once, and all of them
Inv_Reassembly ==
    /\ \A i \in 1..Len(Yielded) :
          \/ Yielded[i].t = "frame" /\ Yielded[i].k = i /\ frames[i].ok = "ok" /\ frames[i].decl <= MaxLen
          \/ i = Len(Yielded) /\ dead
    /\ (Done /\ ~dead) => Len(Yielded) = Len(frames)
\* C05: an over-limit prefix is refused as soon as the 9-byte header is there
Inv_LimitBeforeBuffering ==
    (phase = "feed" /\ ~dead /\ fed - consumed >= H) => frames[FrameAt(frames, consumed, 1)].decl <= MaxLen
\* never more than one frame's worth of bytes is kept waiting
Inv_BoundedBuffer == ~dead => fed - consumed <= (IF phase = "feed" THEN H + MaxLen ELSE Total(frames))

EmitCase == Done => PrintT(<<"CASE", ToJson([frames |-> frames, feeds |-> feeds])>>)
=============================================================================
