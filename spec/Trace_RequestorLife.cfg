SPECIFICATION TraceSpec
CONSTANTS
  Families = {1, 2}
  Clones = {"a", "b", "c"}
  MaxCalls = 40
  MaxCuts = 20
  CidNeverReused = TRUE
  ReconnectKeepsPending = TRUE
POSTCONDITION TraceAccepted
CHECK_DEADLOCK FALSE
