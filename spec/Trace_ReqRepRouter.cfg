SPECIFICATION TraceSpec
CONSTANTS
  Cls <- TCls
  Rps <- TRps
  MaxReqs = 100000
  MaxBlocks = 100000
  MaxBreaks = 100000
  MaxErrs = 100000
  MaxBad = 100000
  MaxJunk = 100000
  MaxBig = 100000
  AllowClose = TRUE
  MaxAhead = 100000
  FixD3 = TRUE
  FixD4 = TRUE
  FixD5 = TRUE
  FixD6 = TRUE
  FixD9 = TRUE
  FixD16 = TRUE
POSTCONDITION TraceAccepted
CHECK_DEADLOCK FALSE
