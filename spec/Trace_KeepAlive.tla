--------------------------- MODULE Trace_KeepAlive ---------------------------
(* Trace validation of real keep-alive behaviour (harness: e2e keepalive; the   *)
(* client's own tracing output is the source of attempt events) against        *)
(* KeepAlive.tla: per-outage budget, exhaustion reported only after the full    *)
(* budget failed, unrecoverable errors reported at once, works after recovery.  *)
EXTENDS Naturals, Sequences, TLC, Json, IOUtils
Rec == ndJsonDeserialize(IOEnv.TRACE)
VARIABLES l, skip, run, nviol, c, fails, inconclusive
tvars == <<l, skip, run, nviol, c, fails, inconclusive>>
NoCase == [kind |-> "", max |-> 0, outages |-> <<>>, final |-> ""]
TraceInit == l = 1 /\ skip = TRUE /\ run = 0 /\ nviol = 0 /\ c = NoCase /\ fails = 0 /\ inconclusive = FALSE
Flag(kind) == /\ PrintT(<<"VIOL", run, l, {"C12"}, c.kind \o "_" \o kind>>)
              /\ skip' = TRUE /\ nviol' = nviol + 1 /\ UNCHANGED <<run, c, fails, inconclusive>>
Stutter == UNCHANGED <<skip, run, nviol, c, fails, inconclusive>>
Script(i) == IF i <= Len(c.outages) THEN c.outages[i] ELSE <<>>
Swapped(i) == \E j \in 1..Len(Script(i)) : Script(i)[j] # "ok"

Step(e) ==
    CASE e.ev = "cut" -> fails' = 0 /\ UNCHANGED <<skip, run, nviol, c, inconclusive>>
      [] e.ev = "attempt" ->
            IF e.max # c.max THEN Flag("max_attempts_misreported")
            ELSE IF e.num # e.nth_in_outage THEN Flag("retry_budget_not_per_outage")
            ELSE IF e.nth_in_outage > c.max THEN Flag("more_attempts_than_configured")
            ELSE Stutter
      [] e.ev = "attempt_result" ->
            LET want == IF fails + 1 <= Len(Script(e.outage)) THEN Script(e.outage)[fails + 1] ELSE "none" IN
            IF e.res = want
            THEN fails' = (IF e.res = "fail" THEN fails + 1 ELSE fails) /\ UNCHANGED <<skip, run, nviol, c, inconclusive>>
            ELSE IF ~Swapped(e.outage)
            THEN \* the server was never touched: the attempt had to succeed
                 Flag("reconnect_attempt_" \o e.res \o "_although_server_reachable")
            ELSE \* the scripted server swap did not take effect in time: judge nothing from this run
                 /\ PrintT(<<"NOTE", run, l, "inconclusive_server_swap_timing">>)
                 /\ skip' = TRUE /\ inconclusive' = TRUE /\ UNCHANGED <<run, nviol, c, fails>>
      [] e.ev = "exhausted" ->
            IF e.attempts_seen # c.max THEN Flag("too_many_retries_before_full_budget_was_used")
            ELSE Stutter
      [] e.ev = "hang" -> Flag("reconnection_neither_succeeds_nor_reports")
      [] e.ev = "final" ->
            IF c.final = "connected" /\ e.status # "connected_works" THEN Flag("does_not_work_after_recovery_" \o (IF e.status = "connected_but_broken" THEN "broken" ELSE "gave_up"))
            ELSE IF c.final = "too_many_retries" /\ e.status # "too_many_retries" THEN Flag("exhaustion_not_reported_as_too_many_retries")
            ELSE IF c.final = "fatal_error" /\ (Len(e.status) < 11 \/ SubSeq(e.status, 1, 11) # "fatal_error") THEN Flag("unrecoverable_error_not_reported")
            ELSE Stutter
      [] e.ev = "harness_error" -> /\ PrintT(<<"NOTE", run, l, "harness_error">>)
                                    /\ skip' = TRUE /\ inconclusive' = TRUE /\ UNCHANGED <<run, nviol, c, fails>>
      [] OTHER -> Stutter
NewCase(e) == /\ skip' = FALSE /\ run' = e.run /\ nviol' = nviol /\ fails' = 0 /\ inconclusive' = FALSE
              /\ c' = [kind |-> e.kind, max |-> e.max, outages |-> e.outages, final |-> e.final]
TraceNext == /\ l <= Len(Rec) /\ l' = l + 1
             /\ LET e == Rec[l] IN IF e.ev = "case" THEN NewCase(e) ELSE IF skip THEN Stutter ELSE Step(e)
TraceSpec == TraceInit /\ [][TraceNext]_tvars
TraceAccepted == LET d == TLCGet("stats").diameter IN
                 IF d - 1 = Len(Rec) THEN TRUE ELSE Print(<<"TRACE NOT CONSUMED", d, Len(Rec)>>, FALSE)
=============================================================================
