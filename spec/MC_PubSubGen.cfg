SPECIFICATION GenSpec
CONSTANTS
  Pubs = {1}
  Subs = {1, 2}
  MaxItems = 2
  MaxBlocks = 1
  MaxBreaks = 1
  MaxErrs = 0
  AllowClose = TRUE
  FixD1 = TRUE
  FixD2 = TRUE
  FixD6 = TRUE
  MaxEnv = 6
INVARIANT GenEmit
CHECK_DEADLOCK FALSE
