SPECIFICATION Spec
INVARIANT EmitCase
CHECK_DEADLOCK FALSE
