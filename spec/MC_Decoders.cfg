SPECIFICATION DSpec
INVARIANTS Inv_NoCrashOutcome EmitCase
CHECK_DEADLOCK FALSE
