SPECIFICATION TraceSpec
CONSTANTS
  Steps = {0}
  Factors = {0}
  Attempts = {0}
  Caps = {0}
INVARIANT TraceInv
POSTCONDITION TraceAccepted
CHECK_DEADLOCK FALSE
