\* 2 families (a successor after a drop) x 2 clones, 3 calls, 2 connection losses
SPECIFICATION RSpec
CONSTANTS
  Families = {1, 2}
  Clones = {"a", "b"}
  MaxCalls = 3
  MaxCuts = 2
  CidNeverReused = TRUE
  ReconnectKeepsPending = TRUE
INVARIANTS Inv_OwnReply Inv_NoCollateralFailure Inv_CidUnique
CHECK_DEADLOCK FALSE
