---------------------------- MODULE ReplierLifeGen ----------------------------
(* Schedule generator for ReplierLife: start / stop / request steps (Promote is *)
(* the system's own step and is not scheduled).                                 *)
EXTENDS ReplierLife, Json
CONSTANT MaxSteps
VARIABLE sched
gvars == <<pvars, sched>>
St(op, r) == [op |-> op, r |-> r]
GenInit == PInit /\ sched = <<>>
R1(a, s) == Len(sched) < MaxSteps /\ a /\ sched' = Append(sched, s)
GenNext == \/ \E r \in Repliers : R1(Start(r), St("start", r)) \/ R1(Stop(r), St("stop", r))
           \/ R1(Request, St("request", 0))
           \/ (\E r \in Repliers : Promote(r)) /\ UNCHANGED sched
GenSpec == GenInit /\ [][GenNext]_gvars
GenEmit == Len(sched) = MaxSteps => PrintT(<<"SCHED", ToJson(sched)>>)
=============================================================================
