SPECIFICATION CSpec
CONSTANTS
  BatchSizes = {0, 1, 2, 3}
  MaxItems = 7
  FixD7 = TRUE
  FixD8 = TRUE
INVARIANTS Inv_OutPrefixOfSent Inv_FinishDelivers EmitCase
CHECK_DEADLOCK FALSE
