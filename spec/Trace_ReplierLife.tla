-------------------------- MODULE Trace_ReplierLife --------------------------
(* Trace validation of real repliers (client library + server) against         *)
(* ReplierLife.tla: every start / stop is the specification's action; after     *)
(* every change and for every scheduled request the trace says who answered,    *)
(* which must be the bound replier -- or a standby taking over (Promote) when   *)
(* the bound one has gone.                                                      *)
EXTENDS ReplierLife, Integers, Json, IOUtils
Rec == ndJsonDeserialize(IOEnv.TRACE)
VARIABLES l, skip, run, nviol
tvars == <<pvars, l, skip, run, nviol>>
TraceInit == PInit /\ l = 1 /\ skip = TRUE /\ run = 0 /\ nviol = 0
Flag(props, kind) == /\ PrintT(<<"VIOL", run, l, props, kind>>)
                     /\ skip' = TRUE /\ nviol' = nviol + 1 /\ UNCHANGED <<pvars, run>>
Note(what) == /\ PrintT(<<"NOTE", run, l, what>>) /\ skip' = TRUE /\ UNCHANGED <<pvars, run, nviol>>
Stutter == UNCHANGED <<pvars, skip, run, nviol>>
Reset(e) == /\ rstate' = [r \in Repliers |-> "off"] /\ answers' = <<>> /\ served' = {}
            /\ skip' = FALSE /\ run' = e.run /\ nviol' = nviol
Listening == {r \in Repliers : rstate[r] \in {"bound", "standby"}}
Answered(r) == /\ answers' = Append(answers, r) /\ served' = served \cup {<<Len(answers) + 1, r>>}
Step(e) ==
    CASE e.ev = "op" /\ e.op = "start" ->
            IF e.res # "ok" THEN Flag({"C10", "C11"}, "replier_registration_refused_at_open")
            ELSE IF ENABLED Start(e.r) THEN Start(e.r) /\ UNCHANGED <<skip, run, nviol>>
            ELSE Note("start not enabled")
      [] e.ev = "op" /\ e.op = "stop" ->
            IF e.was \notin {"running", "never started"} /\ rstate[e.r] \in {"bound", "standby"}
            THEN Flag({"C10"}, "listening_replier_gave_up")          \* listen() returned although the replier should be bound or retrying
            ELSE IF ENABLED Stop(e.r) THEN Stop(e.r) /\ UNCHANGED <<skip, run, nviol>>
            ELSE Stutter
      [] e.ev = "result" ->
            IF e.by = 0
            THEN IF Listening # {} THEN Flag({"C10"}, "no_listening_replier_is_served_after_the_bound_one_left")
                 ELSE answers' = Append(answers, "none") /\ UNCHANGED <<rstate, served, skip, run, nviol>>
            ELSE IF e.by < 0 THEN Flag({"C10", "C04"}, IF e.by = -2 THEN "reply_of_another_request" ELSE "request_failed")
            ELSE IF e.by \in Bound THEN Answered(e.by) /\ UNCHANGED <<rstate, skip, run, nviol>>
            ELSE IF Bound = {} /\ e.by \in Repliers /\ rstate[e.by] = "standby"
            THEN \* Promote(e.by) . Request
                 /\ rstate' = [rstate EXCEPT ![e.by] = "bound"] /\ Answered(e.by) /\ UNCHANGED <<skip, run, nviol>>
            ELSE Flag({"C10"}, "request_answered_by_a_replier_that_is_not_the_bound_one")
      [] e.ev = "replier_ended" ->
            IF rstate[e.r] \in {"bound", "standby"} THEN Flag({"C10"}, "listening_replier_gave_up") ELSE Stutter
      [] e.ev = "harness_error" -> Note("harness_error")
      [] OTHER -> Stutter
TraceNext == /\ l <= Len(Rec) /\ l' = l + 1
             /\ LET e == Rec[l] IN IF e.ev = "case" THEN Reset(e) ELSE IF skip THEN Stutter ELSE Step(e)
TraceSpec == TraceInit /\ [][TraceNext]_tvars
\* the specification's invariants hold on every state the real system was seen in
TraceInv == Inv_OneBound /\ Inv_ServedOnce
TraceAccepted == LET d == TLCGet("stats").diameter IN
                 IF d - 1 = Len(Rec) THEN TRUE ELSE Print(<<"TRACE NOT CONSUMED", d, Len(Rec)>>, FALSE)
=============================================================================
