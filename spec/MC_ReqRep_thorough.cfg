\* thorough: 1 requestor x 2 requests, 1 replier, all fault kinds
SPECIFICATION Spec
CONSTANTS
  Cls = {1}
  Rps = {1}
  MaxReqs = 2
  MaxBlocks = 1
  MaxBreaks = 1
  MaxErrs = 1
  MaxBad = 1
  MaxJunk = 1
  MaxBig = 1
  AllowClose = TRUE
  MaxAhead = 2
  FixD3 = TRUE
  FixD4 = TRUE
  FixD5 = TRUE
  FixD6 = TRUE
  FixD9 = TRUE
  FixD16 = TRUE
INVARIANTS
  Inv_NoPanic
  Inv_OneReplier
  Inv_AtMostOnce
  Inv_RequestOrder
  Inv_ReplyRouting
  Inv_RejectedProtocol
  Inv_NoLostRequest
  Inv_ServerMatchesBound
  Inv_QuiescentComplete
  Inv_ShutdownFlushed
PROPERTIES
  Prop_NoReplyOverwrite
  Prop_RefinesIface

CHECK_DEADLOCK FALSE
