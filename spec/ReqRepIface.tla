--------------------------- MODULE ReqRepIface ---------------------------
(***************************************************************************)
(* Layer B (property level) specification of one request/reply topic      *)
(* router as observable at its interface: requests yielded by requestor   *)
(* streams, frames handed to replier sinks, replies yielded by replier    *)
(* streams, frames handed to requestor sinks, what a rejected replier's   *)
(* sink sees.  Allows exactly what C02 / C08 / C10 allow.                  *)
(*                                                                         *)
(* A request is <<c, n>>: the n-th request of requestor c.  A reply is     *)
(* <<c, n, tag>> with tag "ok" (routing tag = c, echoed intact), or one of *)
(* "missing" / "unknown" / "malformed" / "junk" (non-message frame).       *)
(***************************************************************************)
EXTENDS Naturals, Sequences, FiniteSets, SequencesExt

CONSTANTS Cls, Rps          \* requestor ids, replier ids

VARIABLES
    taken,     \* [Cls -> Seq(Nat)]     request numbers the router took from c's stream
    undel,     \* Seq of <<c, n, droppable>> requests taken and not yet handed to a replier
    rgot,      \* [Rps -> Seq(<<c, n>>)] requests handed to replier r's sink
    rstat,     \* [Rps -> {"no","queued","bound","rejected","gone"}]
    rhealthy,  \* [Rps -> BOOLEAN]
    emitted,   \* Seq of <<c, n, tag>>    replies the router took from replier streams
    crecv,     \* [Cls -> Seq(<<c, n>>)] replies handed to requestor c's sink
    cstat,     \* [Cls -> {"no","queued","live"}]
    chealthy,  \* [Cls -> BOOLEAN]
    rej,       \* [Rps -> Seq({"err","close"})] what a rejected replier's sink observed
    lost       \* requests the router gave up on although a replier was bound throughout

rrVars == <<taken, undel, rgot, rstat, rhealthy, emitted, crecv, cstat, chealthy, rej, lost>>

RRInit ==
    /\ taken = [c \in Cls |-> <<>>]
    /\ undel = <<>>
    /\ rgot = [r \in Rps |-> <<>>]
    /\ rstat = [r \in Rps |-> "no"]
    /\ rhealthy = [r \in Rps |-> TRUE]
    /\ emitted = <<>>
    /\ crecv = [c \in Cls |-> <<>>]
    /\ cstat = [c \in Cls |-> "no"]
    /\ chealthy = [c \in Cls |-> TRUE]
    /\ rej = [r \in Rps |-> <<>>]
    /\ lost = {}

Bound == {r \in Rps : rstat[r] = "bound"}
NoBound == Bound = {}
\* nobody is bound, or the bound replier's connection has failed
NoHealthyBound == \A r \in Bound : ~rhealthy[r]

\* mark every undelivered request droppable (used when no replier is / stays bound)
AllDroppable(u) == [i \in 1..Len(u) |-> <<u[i][1], u[i][2], TRUE>>]

---------------------------------------------------------------------------
\* The router took requestor c's next request.  `fits` = FALSE: the request
\* exceeds the frame limit once the routing tag is added (may be refused).
TakeRequest(c, fits) ==
    /\ taken' = [taken EXCEPT ![c] = Append(@, Len(@) + 1)]
    /\ undel' = Append(undel, <<c, Len(taken[c]) + 1, NoHealthyBound \/ ~fits>>)
    /\ UNCHANGED <<rgot, rstat, rhealthy, emitted, crecv, cstat, chealthy, rej, lost>>

\* A request is handed to replier r: r is the bound replier, the request is
\* the oldest undelivered one of its requestor (per-requestor order), and it
\* leaves the undelivered list (at most once).
UndelIdx(c, n) == {i \in 1..Len(undel) : undel[i][1] = c /\ undel[i][2] = n}
OlderOfSame(i) == \E j \in 1..(i - 1) : undel[j][1] = undel[i][1]
CanHandRequest(r, c, n) ==
    /\ rstat[r] = "bound"
    /\ \E i \in UndelIdx(c, n) : TRUE
HandRequest(r, c, n) ==
    /\ CanHandRequest(r, c, n)
    /\ LET i == CHOOSE j \in UndelIdx(c, n) : TRUE IN
       \* requests of c older than this one that are still undelivered are skipped for good
       undel' = SelectSeq([k \in 1..Len(undel) |->
                              IF k = i \/ (k < i /\ undel[k][1] = c) THEN <<0, 0, TRUE>> ELSE undel[k]],
                          LAMBDA u : u[1] # 0)
    /\ rgot' = [rgot EXCEPT ![r] = Append(@, <<c, n>>)]
    /\ lost' = lost \cup {<<undel[k][1], undel[k][2]>> : k \in {k \in 1..Len(undel) :
                              k < (CHOOSE j \in UndelIdx(c, n) : TRUE) /\ undel[k][1] = c /\ ~undel[k][3]}}
    /\ UNCHANGED <<taken, rstat, rhealthy, emitted, crecv, cstat, chealthy, rej>>

IsDroppableReq(c, n) == \A i \in UndelIdx(c, n) : undel[i][3]

\* the router gave up on undelivered requests (only allowed if droppable)
DropRequest(i) ==
    /\ i \in 1..Len(undel)
    /\ undel' = [k \in 1..(Len(undel) - 1) |-> IF k < i THEN undel[k] ELSE undel[k + 1]]
    /\ lost' = IF undel[i][3] THEN lost ELSE lost \cup {<<undel[i][1], undel[i][2]>>}
    /\ UNCHANGED <<taken, rgot, rstat, rhealthy, emitted, crecv, cstat, chealthy, rej>>

RegisterReplier(r) ==
    /\ rstat[r] = "no"
    /\ rstat' = [rstat EXCEPT ![r] = "queued"]
    /\ UNCHANGED <<taken, undel, rgot, rhealthy, emitted, crecv, cstat, chealthy, rej, lost>>

Bind(r) ==
    /\ rstat[r] = "queued" /\ NoBound
    /\ rstat' = [rstat EXCEPT ![r] = "bound"]
    /\ UNCHANGED <<taken, undel, rgot, rhealthy, emitted, crecv, cstat, chealthy, rej, lost>>

Reject(r) ==
    /\ rstat[r] = "queued" /\ ~NoBound
    /\ rstat' = [rstat EXCEPT ![r] = "rejected"]
    /\ UNCHANGED <<taken, undel, rgot, rhealthy, emitted, crecv, cstat, chealthy, rej, lost>>

Unbind(r) ==
    /\ rstat[r] = "bound"
    /\ rstat' = [rstat EXCEPT ![r] = "gone"]
    /\ undel' = AllDroppable(undel)
    /\ UNCHANGED <<taken, rgot, rhealthy, emitted, crecv, cstat, chealthy, rej, lost>>

\* a rejected replier is told so, then closed -- nothing else, in this order
RejectOp(r, op) ==
    /\ rstat[r] = "rejected"
    /\ \/ op = "err" /\ rej[r] = <<>>
       \/ op = "close" /\ rej[r] = <<"err">>
    /\ rej' = [rej EXCEPT ![r] = Append(@, op)]
    /\ UNCHANGED <<taken, undel, rgot, rstat, rhealthy, emitted, crecv, cstat, chealthy, lost>>

ReplierFails(r) ==
    /\ rhealthy' = [rhealthy EXCEPT ![r] = FALSE]
    /\ undel' = IF rstat[r] = "bound" THEN AllDroppable(undel) ELSE undel
    /\ UNCHANGED <<taken, rgot, rstat, emitted, crecv, cstat, chealthy, rej, lost>>

\* the router took a reply frame from the bound replier's stream
TakeReply(c, n, tag) ==
    /\ emitted' = Append(emitted, <<c, n, tag>>)
    /\ UNCHANGED <<taken, undel, rgot, rstat, rhealthy, crecv, cstat, chealthy, rej, lost>>

\* replies owed to requestor c: the well-tagged replies for c, in the order taken
OwedReplies(c) == SelectSeq(emitted, LAMBDA e : e[3] = "ok" /\ e[1] = c)
CanHandReply(c, n) ==
    /\ Len(crecv[c]) < Len(OwedReplies(c))
    /\ OwedReplies(c)[Len(crecv[c]) + 1] = <<c, n, "ok">>
HandReply(c, n) ==
    /\ CanHandReply(c, n)
    /\ crecv' = [crecv EXCEPT ![c] = Append(@, <<c, n>>)]
    /\ UNCHANGED <<taken, undel, rgot, rstat, rhealthy, emitted, cstat, chealthy, rej, lost>>

RegisterRequestor(c) ==
    /\ cstat[c] = "no"
    /\ cstat' = [cstat EXCEPT ![c] = "queued"]
    /\ UNCHANGED <<taken, undel, rgot, rstat, rhealthy, emitted, crecv, chealthy, rej, lost>>

AdoptRequestor(c) ==
    /\ cstat[c] = "queued"
    /\ cstat' = [cstat EXCEPT ![c] = "live"]
    /\ UNCHANGED <<taken, undel, rgot, rstat, rhealthy, emitted, crecv, chealthy, rej, lost>>

RequestorFails(c) ==
    /\ chealthy' = [chealthy EXCEPT ![c] = FALSE]
    /\ UNCHANGED <<taken, undel, rgot, rstat, rhealthy, emitted, crecv, cstat, rej, lost>>

RRNext ==
    \/ \E c \in Cls, f \in BOOLEAN : TakeRequest(c, f)
    \/ \E r \in Rps, c \in Cls, n \in 1..8 : HandRequest(r, c, n)
    \/ \E i \in 1..8 : DropRequest(i)
    \/ \E r \in Rps : RegisterReplier(r) \/ Bind(r) \/ Reject(r) \/ Unbind(r) \/ ReplierFails(r)
    \/ \E r \in Rps, op \in {"err", "close"} : RejectOp(r, op)
    \/ \E c \in Cls \cup {0}, n \in 0..8, t \in {"ok", "missing", "unknown", "malformed", "junk"} : TakeReply(c, n, t)
    \/ \E c \in Cls, n \in 1..8 : HandReply(c, n)
    \/ \E c \in Cls : RegisterRequestor(c) \/ AdoptRequestor(c) \/ RequestorFails(c)

---------------------------------------------------------------------------
(* Properties *)

\* C10: at most one replier is bound
Inv_OneReplier == Cardinality(Bound) <= 1

\* C02: every request handed over at most once (over all repliers)
AllGot == {<<r, i>> : r \in Rps, i \in 1..8}
Inv_AtMostOnce ==
    \A r1, r2 \in Rps : \A i \in 1..Len(rgot[r1]), j \in 1..Len(rgot[r2]) :
        (rgot[r1][i] = rgot[r2][j]) => (r1 = r2 /\ i = j)

\* C02: per-requestor order inside one replier's sequence
Inv_RequestOrder ==
    \A r \in Rps : \A i, j \in 1..Len(rgot[r]) :
        (i < j /\ rgot[r][i][1] = rgot[r][j][1]) => rgot[r][i][2] < rgot[r][j][2]

\* C02: a requestor only ever receives replies addressed to it, in order, once
Inv_ReplyRouting ==
    \A c \in Cls : chealthy[c] =>
        /\ Len(crecv[c]) <= Len(OwedReplies(c))
        /\ \A i \in 1..Len(crecv[c]) : crecv[c][i] = <<OwedReplies(c)[i][1], OwedReplies(c)[i][2]>>

\* C02: no request is given up on while a replier is bound and stays bound
Inv_NoLostRequest == lost = {}

\* C10: a rejected replier sees the error, then close, and nothing else
Inv_RejectedProtocol ==
    \A r \in Rps : IsPrefix(rej[r], <<"err", "close">>)
                   /\ (rstat[r] # "rejected" => rej[r] = <<>>)

\* obligations of a quiescent router
RepliesComplete == \A c \in Cls : (cstat[c] = "live" /\ chealthy[c]) =>
                        Len(crecv[c]) = Len(OwedReplies(c))
RequestsComplete == (\E r \in Bound : rhealthy[r]) =>
                        \A i \in 1..Len(undel) : undel[i][3]
RejectedComplete == \A r \in Rps : (rstat[r] = "rejected" /\ rhealthy[r]) =>
                        rej[r] = <<"err", "close">>
NoneQueuedRR == (\A r \in Rps : rstat[r] # "queued") /\ (\A c \in Cls : cstat[c] # "queued")
=============================================================================
