--------------------------- MODULE Trace_PubSubLife ---------------------------
(* Trace validation of real publishers / subscribers across connection losses  *)
(* against PubSubLife.tla: every step of the harness is the specification's     *)
(* action, every delivery must be the specification's Receive (next owed        *)
(* message of that publisher, optional ones may be skipped), and at the end     *)
(* nothing but optional messages may be outstanding.                            *)
EXTENDS PubSubLife, Json, IOUtils
Rec == ndJsonDeserialize(IOEnv.TRACE)
VARIABLES l, skip, run, nviol
tvars == <<lvars, l, skip, run, nviol>>
TraceInit == LInit /\ l = 1 /\ skip = TRUE /\ run = 0 /\ nviol = 0
Flag(props, kind) == /\ PrintT(<<"VIOL", run, l, props, kind>>)
                     /\ skip' = TRUE /\ nviol' = nviol + 1 /\ UNCHANGED <<lvars, run>>
Note(what) == /\ PrintT(<<"NOTE", run, l, what>>) /\ skip' = TRUE /\ UNCHANGED <<lvars, run, nviol>>
Stutter == UNCHANGED <<lvars, skip, run, nviol>>
Keep == UNCHANGED <<skip, run, nviol>>
Reset(e) == /\ pstat' = [p \in Pubs |-> "off"] /\ sstat' = [s \in Subs |-> "off"] /\ sentn' = [p \in Pubs |-> 0]
            /\ owed' = [s \in Subs |-> [p \in Pubs |-> <<>>]] /\ opt' = [p \in Pubs |-> {}]
            /\ got' = [s \in Subs |-> [p \in Pubs |-> 0]] /\ ncuts' = 0
            /\ skip' = FALSE /\ run' = e.run /\ nviol' = nviol
Do(a) == IF ENABLED a THEN a /\ Keep ELSE Note("step not enabled in the specification")
Step(e) ==
    CASE e.ev = "op" /\ e.op \in {"open_pub", "dup"} -> Do(OpenPub(e.id))
      [] e.ev = "op" /\ e.op = "publish" -> Do(Publish(e.id))
      [] e.ev = "op" /\ e.op = "finish" ->
            IF e.res # "ok" THEN Flag({"C03", "C12"}, "finish_failed_on_a_working_publisher")
            ELSE IF ~Quiet THEN Flag({"C01", "C12"}, "published_message_not_delivered_before_finish")
            ELSE Do(Finish(e.id))
      [] e.ev = "op" /\ e.op = "cut_pub" ->
            IF ~Quiet THEN Flag({"C01", "C12"}, "published_message_not_delivered") ELSE Do(CutPub(e.id))
      [] e.ev = "op" /\ e.op = "cut_pub_mid" ->
            IF ~Quiet THEN Flag({"C01", "C12"}, "published_message_not_delivered") ELSE Do(CutPubMid(e.id, e.m))
      [] e.ev = "op" /\ e.op = "flush" ->
            IF e.res # "ok" THEN Flag({"C12"}, "flush_failed_although_the_server_is_reachable") ELSE Do(Notice(e.id))
      [] e.ev = "op" /\ e.op = "open_sub" ->
            IF ~e.synced THEN Flag({"C01"}, "subscription_never_took_effect") ELSE Do(OpenSub(e.id))
      [] e.ev = "op" /\ e.op = "cut_sub" ->
            IF ~Quiet THEN Flag({"C01", "C12"}, "published_message_not_delivered")
            ELSE IF ~e.recovered THEN Flag({"C12"}, "subscriber_did_not_recover_after_connection_loss")
            ELSE Do(CutSub(e.id))
      [] e.ev = "recv" ->
            IF e.p \notin Pubs \/ e.s \notin Subs THEN Flag({"C01"}, "unknown_message")
            ELSE IF Skippable(e.s, e.p, e.n) THEN Receive(e.s, e.p, e.n) /\ Keep
            ELSE IF e.n <= got[e.s][e.p] THEN Flag({"C01", "C12"}, "message_duplicated_or_reordered")
            ELSE Flag({"C01", "C12"}, "message_skipped_or_never_published")
      [] e.ev = "publish_failed" -> Flag({"C12"}, "publish_failed_although_the_server_is_reachable")
      [] e.ev = "dup_failed" -> Note("duplicate() failed")
      [] e.ev = "end" -> IF Quiet THEN Stutter ELSE Flag({"C01", "C12"}, "published_message_never_delivered")
      [] e.ev = "harness_error" -> Note("harness_error")
      [] OTHER -> Stutter
TraceNext == /\ l <= Len(Rec) /\ l' = l + 1
             /\ LET e == Rec[l] IN IF e.ev = "case" THEN Reset(e) ELSE IF skip THEN Stutter ELSE Step(e)
TraceSpec == TraceInit /\ [][TraceNext]_tvars
TraceInv == Inv_Increasing /\ Inv_SubscriberSurvives
TraceAccepted == LET d == TLCGet("stats").diameter IN
                 IF d - 1 = Len(Rec) THEN TRUE ELSE Print(<<"TRACE NOT CONSUMED", d, Len(Rec)>>, FALSE)
=============================================================================
