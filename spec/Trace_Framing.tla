--------------------------- MODULE Trace_Framing ---------------------------
(* Trace validation of the real MessageCodec (tokio_util Encoder/Decoder)  *)
(* and of encode/decode_message_batch against Framing.tla: every answer of *)
(* decode() must be the one DecodeStep computes from the bytes fed so far. *)
EXTENDS Framing, IOUtils

Rec == ndJsonDeserialize(IOEnv.TRACE)
VARIABLES l, skip, run, nviol
tvars == <<fvars, l, skip, run, nviol>>

TraceInit == /\ frames = <<>> /\ fed = 0 /\ consumed = 0 /\ out = <<>> /\ feeds = <<>>
             /\ dead = FALSE /\ phase = "feed"
             /\ l = 1 /\ skip = TRUE /\ run = 0 /\ nviol = 0

Flag(props, kind) == /\ PrintT(<<"VIOL", run, l, props, kind>>)
                     /\ skip' = TRUE /\ nviol' = nviol + 1
                     /\ UNCHANGED <<fvars, run>>
Stutter == UNCHANGED <<fvars, skip, run, nviol>>

Step(e) ==
    CASE e.ev = "feed" ->
            /\ fed' = fed + e.n /\ feeds' = Append(feeds, e.n) /\ phase' = "decode"
            /\ UNCHANGED <<frames, consumed, out, dead, skip, run, nviol>>
      [] e.ev = "dec" ->
            IF e.res = "panic" THEN Flag({"C05", "C06"}, "decoder_panic")
            ELSE IF dead THEN Flag({"C05"}, "decode_after_error")
            ELSE LET r == DecodeStep(frames, fed, consumed) IN
                 IF e.res # r[1].t
                 THEN Flag({"C05"}, "decode_" \o e.res \o "_expected_" \o r[1].t)
                 ELSE IF r[1].t = "frame" /\ (e.k # r[1].k \/ ~e.eq)
                 THEN Flag({"C05"}, "decoded_frame_differs_from_encoded")
                 ELSE IF r[1].t = "frame" /\ e.consumed # r[2]
                 THEN Flag({"C05"}, "decode_consumed_wrong_number_of_bytes")
                 ELSE IF r[1].t = "toolarge" /\ e.cap > 2 * fed + 65536
                 THEN Flag({"C05", "C06"}, "oversize_prefix_buffered_before_refusal")
                 ELSE /\ out' = Append(out, r[1])
                      /\ consumed' = consumed + r[2]
                      /\ dead' = (r[1].t \in {"toolarge", "err"})
                      /\ phase' = IF r[1].t = "none" THEN "feed" ELSE "decode"
                      /\ UNCHANGED <<frames, fed, feeds, skip, run, nviol>>
      [] e.ev = "end" ->
            IF ~dead /\ (Len(Yielded) # Len(frames) \/ fed # Total(frames)) THEN Flag({"C05"}, "frames_missing_at_end_of_stream")
            ELSE IF ~Inv_Reassembly THEN Flag({"C05"}, "reassembly")
            ELSE Stutter
      [] e.ev = "enc" ->
            IF e.res = "panic" THEN Flag({"C05"}, "encoder_panic")
            ELSE IF (e.len > MaxLen) # (e.res = "toolarge") THEN Flag({"C05"}, "encoder_limit_" \o e.res)
            ELSE IF e.res = "ok" /\ ~e.prefix_ok THEN Flag({"C05"}, "length_prefix_differs_from_payload_length")
            ELSE IF e.res = "toolarge" /\ e.written # 0 THEN Flag({"C05"}, "refused_frame_left_bytes_in_buffer")
            ELSE Stutter
      [] e.ev = "batch" ->
            IF e.res # "eq" THEN Flag({"C05"}, "batch_roundtrip_" \o e.res) ELSE Stutter
      [] OTHER -> Stutter

NewCase(e) ==
    /\ frames' = e.frames /\ fed' = 0 /\ consumed' = 0 /\ out' = <<>> /\ feeds' = <<>>
    /\ dead' = FALSE /\ phase' = "feed" /\ skip' = FALSE /\ run' = e.run /\ nviol' = nviol

TraceNext ==
    /\ l <= Len(Rec) /\ l' = l + 1
    /\ LET e == Rec[l] IN
       IF e.ev = "case" THEN NewCase(e) ELSE IF skip THEN Stutter ELSE Step(e)

TraceSpec == TraceInit /\ [][TraceNext]_tvars
TraceAccepted == LET d == TLCGet("stats").diameter IN
                 IF d - 1 = Len(Rec) THEN TRUE ELSE Print(<<"TRACE NOT CONSUMED", d, Len(Rec)>>, FALSE)
=============================================================================
