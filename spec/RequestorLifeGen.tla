--------------------------- MODULE RequestorLifeGen ---------------------------
(* Schedule generator: RequestorLife plus a history of the steps; TLC prints one *)
(* JSON schedule per terminal state (exhaustively for a small bound, and in      *)
(* simulation mode); the e2e harness replays each with the real client library,  *)
(* the real server and a scripted wire-level replier.                            *)
EXTENDS RequestorLife, Json
CONSTANT MaxSteps
VARIABLES sched,
          stale      \* coverage tag: late replies (routing id no longer live) that arrived while some call was waiting
gvars == <<rvars, sched, stale>>
St(op, f, c, k) == [op |-> op, f |-> f, c |-> c, k |-> k]
GenInit == RInit /\ sched = <<>> /\ stale = 0
Rec1(a, r) == Len(sched) < MaxSteps /\ a /\ sched' = Append(sched, r)
Same == stale' = stale
GenNext ==
    \/ \E f \in Families : \/ Rec1(Open(f), St("open", f, "", 0)) /\ Same
                           \/ Rec1(Drop(f), St("drop", f, "", 0)) /\ Same
                           \/ \E c \in Clones :
                                  \* (`request(&mut self)`: a clone handle serves one call at a time)
                                  /\ ~\E j \in 1..ncalls : calls[j].f = f /\ calls[j].c = c /\ calls[j].status = "waiting"
                                  /\ Rec1(Request(f, c), St("req", f, c, ncalls + 1)) /\ Same
    \/ \E x \in atRep : /\ Rec1(Answer(x), St("answer", 0, "", x.call))
                          /\ stale' = IF x.cid \notin srvLive /\ (\E k \in 1..ncalls : calls[k].status = "waiting") THEN stale + 1 ELSE stale
    \/ \E k \in 1..ncalls : Rec1(Timeout(k), St("timeout", 0, "", k)) /\ Same
    \/ \E f \in Families : Rec1(Cut(f), St("cut", f, "", 0)) /\ Same
GenSpec == GenInit /\ [][GenNext]_gvars
Terminal == Len(sched) = MaxSteps
\* the last element is not a step: it carries the coverage tag for the selection of schedules
GenEmit == Terminal => PrintT(<<"SCHED", ToJson(Append(sched, St("tag", stale, "", 0)))>>)
=============================================================================
