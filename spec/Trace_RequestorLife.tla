------------------------- MODULE Trace_RequestorLife -------------------------
(* Trace validation of the real client library (requestor clones, recovery,    *)
(* successors) and the real server's routing ids against RequestorLife.tla:    *)
(* every step the harness performed is taken through the specification's own   *)
(* action, and the outcome of every call is compared with the specification's. *)
EXTENDS RequestorLife, Json, IOUtils
Rec == ndJsonDeserialize(IOEnv.TRACE)
VARIABLES l, skip, run, nviol, ended
tvars == <<rvars, l, skip, run, nviol, ended>>
mon == <<skip, run, nviol, ended>>

TraceInit == RInit /\ l = 1 /\ skip = TRUE /\ run = 0 /\ nviol = 0 /\ ended = FALSE
Flag(props, kind) == /\ PrintT(<<"VIOL", run, l, props, kind>>)
                     /\ skip' = TRUE /\ nviol' = nviol + 1 /\ UNCHANGED <<rvars, run, ended>>
Note(what) == /\ PrintT(<<"NOTE", run, l, what>>) /\ skip' = TRUE /\ UNCHANGED <<rvars, run, nviol, ended>>
Stutter == UNCHANGED <<rvars, mon>>
Reset(e) == /\ conn' = [f \in Families |-> 1] /\ connUp' = [f \in Families |-> TRUE] /\ live' = [f \in Families |-> "unopened"]
            /\ sgen' = [f \in Families |-> [c \in Clones |-> 0]] /\ scid' = [f \in Families |-> [c \in Clones |-> 0]]
            /\ srvNext' = 0 /\ srvLive' = {} /\ pending' = [f \in Families |-> {}] /\ nextReq' = [f \in Families |-> 0]
            /\ atRep' = {} /\ calls' = <<>> /\ ncalls' = 0 /\ ncuts' = 0
            /\ skip' = FALSE /\ run' = e.run /\ nviol' = nviol /\ ended' = FALSE

\* the specification's action for a step of the harness (the routing ids are the specification's own:
\* only their being distinct matters)
Act(e) == CASE e.op = "open" -> Open(e.f)
            [] e.op = "req" -> Request(e.f, e.c)
            [] e.op = "answer" -> \E x \in atRep : x.call = e.k /\ Answer(x)
            [] e.op = "timeout" -> Timeout(e.k)
            [] e.op = "cut" -> Cut(e.f)
            [] e.op = "drop" -> Drop(e.f)
            [] OTHER -> FALSE
\* at the end every call still waiting runs into its timeout
AllTimeout == calls' = [k \in 1..ncalls |-> IF calls[k].status = "waiting" THEN [calls[k] EXCEPT !.status = "timeout"] ELSE calls[k]]

Ret(e) ==
    LET m == calls[e.k] IN
    IF e.res = "ok" /\ e.val # e.k THEN Flag({"C04"}, "reply_of_another_request_returned")
    ELSE IF m.status = "ok"
    THEN IF e.res = "ok" THEN Stutter
         ELSE IF e.res = "timeout" THEN Flag({"C04", "C12"}, "answered_request_timed_out")
         ELSE Flag({"C12", "C04"}, "answered_request_failed")
    ELSE IF e.res = "timeout" THEN Stutter
    ELSE IF e.res = "ok" THEN Note("call answered although the specification discards the reply")
    ELSE Flag({"C12"}, "unanswered_request_failed_instead_of_timing_out")

Step(e) ==
    CASE e.ev = "op" ->
            IF ENABLED Act(e) THEN Act(e) /\ UNCHANGED mon
            ELSE Note("step not enabled in the specification: " \o e.op)
      [] e.ev = "end" -> AllTimeout /\ ended' = TRUE
                         /\ UNCHANGED <<conn, connUp, live, sgen, scid, srvNext, srvLive, pending, nextReq, atRep, ncalls, ncuts, skip, run, nviol>>
      [] e.ev = "call_ret" -> IF ~ended \/ e.k \notin 1..ncalls THEN Note("call_ret out of place") ELSE Ret(e)
      [] e.ev = "harness_error" -> Note("harness_error")
      [] OTHER -> Stutter
TraceNext == /\ l <= Len(Rec) /\ l' = l + 1
             /\ LET e == Rec[l] IN IF e.ev = "case" THEN Reset(e) ELSE IF skip THEN Stutter ELSE Step(e)
TraceSpec == TraceInit /\ [][TraceNext]_tvars
TraceAccepted == LET d == TLCGet("stats").diameter IN
                 IF d - 1 = Len(Rec) THEN TRUE ELSE Print(<<"TRACE NOT CONSUMED", d, Len(Rec)>>, FALSE)
=============================================================================
