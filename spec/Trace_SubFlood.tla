---------------------------- MODULE Trace_SubFlood ----------------------------
(* C06 at the consuming client (Decoders.tla: outcome of every decoding step is   *)
(* a value or an error, never an abort): a real Subscriber in a process of its    *)
(* own is sent long runs of frames that carry no message while it is not polling. *)
(* Whatever it reports afterwards, the process must not have been killed.         *)
EXTENDS Naturals, Sequences, TLC, Json, IOUtils
Rec == ndJsonDeserialize(IOEnv.TRACE)
VARIABLES l, run, nviol
tvars == <<l, run, nviol>>
TraceInit == l = 1 /\ run = 0 /\ nviol = 0
Survived(how) == how = "exit_0"
Check(e) ==
    IF e.ev = "case" THEN run' = e.run /\ nviol' = nviol
    ELSE IF e.ev = "subflood" /\ ~Survived(e.child)
    THEN PrintT(<<"VIOL", run, l, {"C06"}, "consuming_client_" \o e.child \o "_on_" \o e.kind>>) /\ nviol' = nviol + 1 /\ run' = run
    ELSE UNCHANGED <<run, nviol>>
TraceNext == /\ l <= Len(Rec) /\ l' = l + 1 /\ Check(Rec[l])
TraceSpec == TraceInit /\ [][TraceNext]_tvars
TraceAccepted == LET d == TLCGet("stats").diameter IN
                 IF d - 1 = Len(Rec) THEN TRUE ELSE Print(<<"TRACE NOT CONSUMED", d, Len(Rec)>>, FALSE)
=============================================================================
