------------------------------ MODULE Decoders ------------------------------
(***************************************************************************)
(* The decoding stages a server or a consuming client applies to bytes    *)
(* from the network, as a specification of the SAFE pipeline: every stage *)
(* maps every input to Ok(value) or Err -- there is no crash outcome --   *)
(* and the memory it requests is bounded by a linear function of the      *)
(* input and of the value it decodes to.  The module enumerates the       *)
(* structured malformed-input space; the conformance run concretises each *)
(* case into bytes and runs the real stage in a child process.            *)
(***************************************************************************)
EXTENDS Naturals, Sequences, FiniteSets, TLC, Json

\* "frame": the decoder's decode() on a buffer; "frame_stream": the same bytes through the framed reader the
\* server and the client use (tokio-util FramedRead over a byte source that ends: decode_eof path included)

Stages == {"frame", "frame_stream", "batch", "string", "bytes", "bincode_struct", "bincode_vec", "bincode_string",
           "gzip", "zlib", "zstd", "lz4", "brotli",
           "sub_plain", "sub_batch", "sub_gzip_batch", "sub_zstd_batch", "sub_lz4", "sub_brotli_batch"}

\* mutations of a valid encoding (or no valid encoding at all)
Mutations == {"valid", "empty", "truncate_1", "truncate_half", "truncate_last", "flip_first", "flip_mid",
              "flip_last", "garbage_small", "garbage_big", "append_junk",
              "len_2p32", "len_2p40", "len_2p61", "len_max",          \* first length field replaced
              "count_huge", "count_plus_one", "elem_len_over", "elem_len_max", "short_header",
              "declared_size_huge",     \* a well-formed compressed frame whose header announces a huge content size
              "stray_1", "stray_3", "stray_7",   \* a valid frame, then the stream ends inside the next length marker
              \* a valid frame with the complete header of a next frame (length marker, type byte) right behind it, in the same read
              "next_len_2p30", "next_len_2p63", "next_len_max"}
Sizes == {"tiny", "small", "medium"}
\* What the decoding object has been through before the input of the case reaches it.  The decompressors are
\* objects a subscriber / requestor / replier keeps for the life of its stream: one peer's damaged message
\* must leave them as good as new for the next one ("fresh": a new object).
Priors == {"fresh", "after_corrupt", "after_short"}
Stateful(st) == st \in {"gzip", "zlib", "zstd", "lz4", "brotli", "sub_gzip_batch", "sub_zstd_batch", "sub_lz4", "sub_brotli_batch"}

\* which mutations make sense for which stage
Applies(st, mu) ==
    CASE mu \in {"count_huge", "count_plus_one", "elem_len_over", "elem_len_max", "short_header"} ->
            st \in {"batch", "sub_batch", "sub_gzip_batch", "sub_zstd_batch", "sub_brotli_batch"}
      [] mu \in {"len_2p32", "len_2p40", "len_2p61", "len_max"} ->
            st \in {"frame", "frame_stream", "batch", "bincode_struct", "bincode_vec", "bincode_string", "sub_batch"}
      [] mu = "declared_size_huge" -> st \in {"zstd", "sub_zstd_batch"}
      [] mu \in {"stray_1", "stray_3", "stray_7", "next_len_2p30", "next_len_2p63", "next_len_max"} ->
            st \in {"frame", "frame_stream"}
      [] OTHER -> TRUE

Cases == {c \in [stage : Stages, mut : Mutations, size : Sizes, prior : Priors] :
              Applies(c.stage, c.mut) /\ (c.prior = "fresh" \/ Stateful(c.stage))}

\* outcomes the specification allows (no clause mentions c.prior: what came before does not matter)
Allowed(c) ==
    CASE c.mut = "valid" -> {"ok"}
      [] c.mut \in {"count_huge", "elem_len_over", "elem_len_max", "short_header", "count_plus_one"} -> {"err"}
      [] c.mut \in {"len_2p32", "len_2p40", "len_2p61", "len_max"} /\ c.stage \in {"frame", "frame_stream", "batch", "sub_batch"} -> {"err"}
      [] c.mut \in {"next_len_2p30", "next_len_2p63", "next_len_max"} -> {"err"}    \* the announced frame is over the limit
      [] OTHER -> {"ok", "err"}

\* memory bound: a * (input + output) + b
\* the constant covers format-intrinsic contexts (brotli window up to 16 MiB, zstd window up to 128 MiB);
\* attacker-chosen sizes (2^32 .. 2^64 elements or bytes) are orders of magnitude beyond it
AllocBound(inLen, outLen) == 12 * (inLen + outLen) + 167772160

VARIABLE case
DInit == case \in Cases
DNext == UNCHANGED case
DSpec == DInit /\ [][DNext]_case
Inv_NoCrashOutcome == Allowed(case) \subseteq {"ok", "err"} /\ Allowed(case) # {}
EmitCase == PrintT(<<"CASE", ToJson(case)>>)
=============================================================================
