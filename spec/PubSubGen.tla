----------------------------- MODULE PubSubGen -----------------------------
(***************************************************************************)
(* Schedule generator: PubSubRouter plus a history variable recording the *)
(* environment steps and outer polls of a behaviour.  TLC (exhaustively   *)
(* for a small bound, or in simulation mode) prints one JSON schedule per *)
(* terminal state; the harness replays each on the real router and the    *)
(* recorded trace is validated against PubSubIface / PubSubRouter.        *)
(***************************************************************************)
EXTENDS PubSubRouter, Json

CONSTANT MaxEnv          \* number of environment steps per schedule

VARIABLES sched, nenv

gvars == <<vars, sched, nenv>>

St(op, id, which) == [op |-> op, id |-> id, which |-> which]

GenInit == Init /\ sched = <<>> /\ nenv = 0

Env(a, rec) == /\ nenv < MaxEnv
               /\ a
               /\ sched' = Append(sched, rec)
               /\ nenv' = nenv + 1

GenNext ==
    \/ StartPoll /\ sched' = Append(sched, St("poll", 0, "")) /\ nenv' = nenv
    \/ (Top \/ FanReady \/ FanSend \/ PollHandle \/ EnterStreams \/ PollStream \/ FanFlush)
          /\ UNCHANGED <<sched, nenv>>
    \/ \E p \in Pubs : \/ Env(RegisterPub(p), St("reg_pub", p, ""))
                       \/ Env(Publish(p), St("publish", p, ""))
                       \/ Env(PubEnds(p), St("end", p, ""))
                       \/ Env(PubErrs(p), St("perr", p, ""))
    \/ \E s \in Subs : Env(RegisterSub(s), St("reg_sub", s, ""))
    \/ \E s \in Subs, w \in {"ready", "flush"} :
          \/ Env(SinkBlocks(s, w), St("block", s, w))
          \/ Env(SinkUnblocks(s, w), St("unblock", s, w))
    \/ \E s \in Subs, op \in {"ready", "send", "flush"} :
          Env(SinkBreaks(s, op), St("break", s, op))
    \/ Env(CloseChannel, St("close", 0, ""))

GenSpec == GenInit /\ [][GenNext]_gvars

Terminal == \/ pc \in {"done", "panic"}
            \/ pc = "idle" /\ ~woken /\ nenv = MaxEnv

\* prints each terminal schedule once (per distinct terminal state)
GenEmit == Terminal => PrintT(<<"SCHED", ToJson(sched)>>)
=============================================================================
