SPECIFICATION HSpec
INVARIANTS Inv_NoTrafficUnlessMutuallyVerified EmitCase
CHECK_DEADLOCK FALSE
