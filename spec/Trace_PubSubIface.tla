------------------------ MODULE Trace_PubSubIface ------------------------
(***************************************************************************)
(* Trace validation of real executions of pubsub::Topic (recorded by the   *)
(* harness binary router_pubsub) against the property-level specification  *)
(* PubSubIface.  Every recorded interface event is matched to the          *)
(* PubSubIface action it claims to be; when the action's guard does not    *)
(* hold the run is flagged (VIOL line, with the properties it breaks and a *)
(* signature) and the monitor skips to the next run, so that one TLC pass  *)
(* judges every run of a concatenated trace file.                          *)
(***************************************************************************)
EXTENDS PubSubIface, TLC, Json, IOUtils

Rec == ndJsonDeserialize(IOEnv.TRACE)

TracePubs == 0..32
TraceSubs == 0..32

VARIABLES
    l,          \* next line of Rec
    skip,       \* the current run has been flagged; ignore it up to the next reset
    run,        \* current run id
    pubd,       \* [Pubs -> Nat] items published by the environment
    pstat,      \* [Pubs -> {"no","queued","live"}]
    closed,     \* registration channel closed by the environment
    regs,       \* number of registrations so far (work bound)
    nviol       \* number of runs flagged so far

tvars == <<ifaceVars, l, skip, run, pubd, pstat, closed, regs, nviol>>

TraceInit ==
    /\ IfaceInit
    /\ l = 1 /\ skip = FALSE /\ run = 0 /\ nviol = 0
    /\ pubd = [p \in Pubs |-> 0]
    /\ pstat = [p \in Pubs |-> "no"]
    /\ closed = FALSE /\ regs = 0

mon == <<skip, run, pubd, pstat, closed, regs, nviol>>

Reset(e) ==
    /\ accepted' = <<>>
    /\ sent'     = [p \in Pubs |-> 0]
    /\ regAt'    = [s \in Subs |-> 0]
    /\ sstat'    = [s \in Subs |-> "no"]
    /\ recv'     = [s \in Subs |-> <<>>]
    /\ flushed'  = [s \in Subs |-> 0]
    /\ skip' = FALSE /\ run' = e.run
    /\ pubd' = [p \in Pubs |-> 0]
    /\ pstat' = [p \in Pubs |-> "no"]
    /\ closed' = FALSE /\ regs' = 0
    /\ nviol' = nviol

\* Flag the current run.  props: the properties this observation violates.
Flag(props, kind) ==
    /\ PrintT(<<"VIOL", run, l, props, kind>>)
    /\ skip' = TRUE
    /\ nviol' = nviol + 1
    /\ UNCHANGED <<ifaceVars, run, pubd, pstat, closed, regs>>

Stutter == UNCHANGED <<ifaceVars, mon>>

\* what a quiescent router must have achieved, split by cause so that the
\* signature says which obligation is open
Unadopted == (\E s \in Subs : sstat[s] \in {"queued", "qfailed"})
                \/ (\E p \in Pubs : pstat[p] = "queued")
Unyielded == \E p \in Pubs : pstat[p] = "live" /\ sent[p] < pubd[p]
Undelivered == \E s \in Subs : Healthy(s) /\ recv[s] # Owed(s)
Unflushed == \E s \in Subs : Healthy(s) /\ flushed[s] # Len(recv[s])
\* C08: when a peer has failed in this run, what is still owed to the healthy ones is also harm done by it
PeerFailed == \E s \in Subs : sstat[s] \in {"failed", "qfailed"}
Harm(props) == IF PeerFailed THEN props \cup {"C08"} ELSE props

\* generous polynomial bound on the inner polls of one outer poll (C09)
TotalPublished == LET Sum[S \in SUBSET Pubs] ==
                        IF S = {} THEN 0 ELSE LET p == CHOOSE q \in S : TRUE
                                              IN pubd[p] + Sum[S \ {p}]
                  IN Sum[{p \in Pubs : pubd[p] > 0}]
WorkBound == (2 * regs + 4) * (TotalPublished + 2 * regs + 6)

Step(e) ==
    CASE e.ev = "reg" ->
            IF e.res # "ok" THEN Stutter
            ELSE IF e.kind = "pub"
            THEN /\ pstat' = [pstat EXCEPT ![e.id] = "queued"]
                 /\ regs' = regs + 1
                 /\ UNCHANGED <<ifaceVars, skip, run, pubd, closed, nviol>>
            ELSE /\ Register(e.id)
                 /\ regs' = regs + 1
                 /\ UNCHANGED <<skip, run, pubd, pstat, closed, nviol>>
      [] e.ev = "adopt" ->
            IF e.kind = "pub"
            THEN IF pstat[e.id] = "queued"
                 THEN /\ pstat' = [pstat EXCEPT ![e.id] = "live"]
                      /\ UNCHANGED <<ifaceVars, skip, run, pubd, closed, regs, nviol>>
                 ELSE Flag({"C01"}, "adopt_unregistered_publisher")
            ELSE IF sstat[e.id] \in {"queued", "qfailed"}
                 THEN Adopt(e.id) /\ UNCHANGED mon
                 ELSE Flag({"C01"}, "adopt_unregistered_subscriber")
      [] e.ev = "env" ->
            CASE e.what = "publish" ->
                    /\ pubd' = [pubd EXCEPT ![e.id] = @ + 1]
                    /\ UNCHANGED <<ifaceVars, skip, run, pstat, closed, regs, nviol>>
              [] e.what = "break" -> Fail(e.id) /\ UNCHANGED mon
              [] e.what = "close" ->
                    /\ closed' = TRUE
                    /\ UNCHANGED <<ifaceVars, skip, run, pubd, pstat, regs, nviol>>
              [] OTHER -> Stutter
      [] e.ev = "st_poll" /\ e.res = "item" ->
            \* the router took an item from publisher e.id
            IF pstat[e.id] = "live" /\ e.item = Item(e.id, sent[e.id] + 1)
            THEN Accept(e.id) /\ UNCHANGED mon
            ELSE Flag({"C01"}, "publisher_stream_order")
      [] e.ev = "si_send" ->
            IF ~Adopted(e.id) THEN Flag({"C01"}, "send_to_unadopted_sink")
            ELSE IF ~Healthy(e.id) THEN Stutter      \* nothing is promised to a failed peer
            ELSE IF e.res # "ok" THEN Flag({"C01", "C08"}, "healthy_sink_send_failed")
            ELSE IF ~e.intact THEN Flag({"C01"}, "item_not_byte_identical")
            ELSE IF CanDeliver(e.id) /\ NextOwed(e.id) = e.item
            THEN Deliver(e.id) /\ UNCHANGED mon
            ELSE Flag({"C01", "C08"},
                      IF \E i \in 1..Len(recv[e.id]) : recv[e.id][i] = e.item
                      THEN "duplicate_delivery"
                      ELSE IF \E i \in 1..Len(accepted) : accepted[i] = e.item
                      THEN "skipped_or_reordered_delivery"
                      ELSE "delivery_of_unaccepted_item")
      [] e.ev \in {"si_flush", "si_close"} /\ e.res = "ok" ->
            IF Adopted(e.id) THEN Flush(e.id) /\ UNCHANGED mon ELSE Stutter
      [] e.ev = "poll_end" ->
            IF e.res = "panic" THEN Flag({"C08", "C11"}, "router_panic")
            ELSE IF e.res = "spin" THEN Flag({"C09"}, "spin")
            ELSE IF e.inner > WorkBound THEN Flag({"C09"}, "work_not_bounded")
            ELSE Stutter
      [] e.ev = "livelock" -> Flag({"C09"}, "self_wake_livelock")
      [] e.ev = "quiescent" ->
            \* idle, not woken, every sink writable: nothing may be left to do
            IF closed THEN Flag({"C16", "C09"}, "closed_channel_not_finished")
            ELSE IF Unadopted THEN Flag({"C09", "C01"}, "quiescent_unadopted_registration")
            ELSE IF Undelivered THEN Flag(Harm({"C01", "C09"}), "quiescent_undelivered")
            ELSE IF Unyielded THEN Flag({"C09", "C01"}, "quiescent_unyielded_stream_item")
            ELSE IF Unflushed THEN Flag(Harm({"C01", "C09"}), "quiescent_unflushed")
            ELSE Stutter
      [] e.ev = "finished" ->
            \* a router that ends while its registration channel is open is a dead topic: nobody who registers
            \* afterwards is served (C11: every open is answered *truthfully*; C08 when a peer's failure led to it)
            IF ~closed THEN Flag(Harm({"C16", "C11"}), "finished_without_close")
            ELSE IF Undelivered THEN Flag(Harm({"C16"}), "finished_undelivered")
            ELSE IF Unflushed THEN Flag(Harm({"C16"}), "finished_unflushed")
            ELSE Stutter
      [] OTHER -> Stutter

TraceNext ==
    /\ l <= Len(Rec)
    /\ l' = l + 1
    /\ LET e == Rec[l] IN
       IF e.ev = "reset" THEN Reset(e)
       ELSE IF skip THEN Stutter
       ELSE Step(e)

TraceSpec == TraceInit /\ [][TraceNext]_tvars

\* the monitor is total: acceptance = every line was consumed
TraceAccepted ==
    LET d == TLCGet("stats").diameter IN
    IF d - 1 = Len(Rec) THEN TRUE
    ELSE Print(<<"TRACE NOT CONSUMED", d, Len(Rec)>>, FALSE)

\* still check the interface invariants on what was observed
TraceInv == skip \/ (Inv_OrderExactlyOnce /\ Inv_FlushedBounded)
=============================================================================
