--------------------------- MODULE ServerRegProof ---------------------------
(***************************************************************************)
(* Machine-checked proof (TLAPS) over the definitions of ServerRegCore.tla *)
(* for the code as it is (all deviation constants TRUE), for ANY number of *)
(* concurrent registrations, topics and any channel capacity:              *)
(*   - one router per topic name, ever, and everybody served on a name was *)
(*     handed to it            (Inv_OneRouterPerTopic; C01 / C02)          *)
(*   - nobody waits for room in a topic's channel while holding the global *)
(*     lock                    (Inv_NoBlockingSendUnderLock; C17, whose    *)
(*     quantifier ranges over all numbers of queued registrations)         *)
(* TLC checks the same invariants for 3-4 registrations.                   *)
(*   tlapm -I .. ServerRegProof.tla                                        *)
(***************************************************************************)
EXTENDS ServerRegCore, TLAPS

ASSUME Asm == /\ FixD10 = TRUE /\ FixD15 = TRUE /\ FixD18 = TRUE /\ AtomicCreate = TRUE
              /\ 0 \notin Tasks /\ "invalid" \notin Topics /\ Cap \in Nat
              /\ FrameSet \subseteq FirstFrames /\ TopicSet \subseteq Topics \cup {"invalid"}

PCs == {"recv", "refused", "dropped", "want_lock", "peeked", "locked", "sending", "sending_locked", "served", "panicked"}
TypeOK == /\ frame \in [Tasks -> FirstFrames]
          /\ topic \in [Tasks -> Topics \cup {"invalid"}]
          /\ pc \in [Tasks -> PCs]
          /\ lock \in Tasks \cup {0}
          /\ kind \in [Topics -> {"none", "pubsub", "reqrep"}]
          /\ chan \in [Topics -> Nat]
          /\ nrouters \in [Topics -> Nat]
          /\ handed \in [Tasks -> Nat]
PathInv == \A k \in Tasks : pc[k] \in {"want_lock", "locked", "sending", "served"} => (topic[k] \in Topics /\ frame[k] \in Roles)
LockInv == /\ lock # 0 => pc[lock] = "locked"
           /\ \A k \in Tasks : pc[k] = "locked" => lock = k
           /\ \A k \in Tasks : pc[k] \notin {"sending_locked", "peeked", "panicked", "dropped"}
RouterInv == \A t \in Topics : /\ kind[t] = "none" => nrouters[t] = 0
                               /\ kind[t] # "none" => nrouters[t] = 1
HandInv == \A k \in Tasks : pc[k] \in {"sending", "served"} => handed[k] = 1
IndInv == TypeOK /\ PathInv /\ LockInv /\ RouterInv /\ HandInv

LEMMA InitInd == SInit => IndInv
  BY Asm DEF SInit, IndInv, TypeOK, PathInv, LockInv, RouterInv, HandInv, PCs, FirstFrames, Roles

LEMMA RecvStep == ASSUME IndInv, NEW k \in Tasks, RecvFirst(k) PROVE IndInv'
<1> USE Asm DEF IndInv
<1>1. TypeOK'
  BY DEF RecvFirst, TypeOK, PCs
<1>2. PathInv'
  BY DEF RecvFirst, TypeOK, PathInv, FirstFrames, Roles
<1>3. LockInv'
  BY DEF RecvFirst, TypeOK, LockInv
<1>4. RouterInv' /\ HandInv'
  BY DEF RecvFirst, TypeOK, RouterInv, HandInv
<1> QED BY <1>1, <1>2, <1>3, <1>4

LEMMA AcquireStep == ASSUME IndInv, NEW k \in Tasks, Acquire(k) PROVE IndInv'
<1> USE Asm DEF IndInv
<1>1. TypeOK'
  BY DEF Acquire, TypeOK, PCs
<1>2. PathInv'
  BY DEF Acquire, TypeOK, PathInv
<1>3. LockInv'
  BY DEF Acquire, TypeOK, LockInv
<1>4. RouterInv' /\ HandInv'
  BY DEF Acquire, TypeOK, RouterInv, HandInv
<1> QED BY <1>1, <1>2, <1>3, <1>4

LEMMA LookupStep == ASSUME IndInv, NEW k \in Tasks, Lookup(k) PROVE IndInv'
<1> USE Asm DEF IndInv
<1>0. pc[k] = "locked" /\ lock = k /\ topic[k] \in Topics /\ frame[k] \in Roles
  BY DEF Lookup, LockInv, PathInv
<1>0a. KindOf(frame[k]) \in {"pubsub", "reqrep"}
  BY DEF KindOf
<1>1. TypeOK'
  BY <1>0, <1>0a DEF Lookup, TypeOK, PCs, KindOf
<1>2. PathInv'
  BY <1>0 DEF Lookup, TypeOK, PathInv
<1>3. LockInv'
  BY <1>0 DEF Lookup, TypeOK, LockInv
<1>4. RouterInv'
  BY <1>0, <1>0a DEF Lookup, TypeOK, RouterInv, KindOf
<1>5. HandInv'
  BY <1>0, <1>0a DEF Lookup, TypeOK, RouterInv, HandInv, KindOf
<1> QED BY <1>1, <1>2, <1>3, <1>4, <1>5

LEMMA SendStep == ASSUME IndInv, NEW k \in Tasks, Send(k) PROVE IndInv'
<1> USE Asm DEF IndInv
<1>0. pc[k] = "sending" /\ topic[k] \in Topics
  BY DEF Send, LockInv, PathInv
<1>1. TypeOK'
  BY <1>0 DEF Send, TypeOK, PCs
<1>2. PathInv'
  BY <1>0 DEF Send, TypeOK, PathInv
<1>3. LockInv'
  BY <1>0 DEF Send, TypeOK, LockInv
<1>4. RouterInv' /\ HandInv'
  BY <1>0 DEF Send, TypeOK, RouterInv, HandInv
<1> QED BY <1>1, <1>2, <1>3, <1>4

LEMMA RouterSteps == ASSUME IndInv, NEW t \in Topics, RouterTakes(t) \/ Stall(t) PROVE IndInv'
  BY Asm DEF IndInv, RouterTakes, Stall, TypeOK, PathInv, LockInv, RouterInv, HandInv

LEMMA StepInd == IndInv /\ [SNext]_svars => IndInv'
<1> SUFFICES ASSUME IndInv, [SNext]_svars PROVE IndInv'
  OBVIOUS
<1>1. CASE UNCHANGED svars
  BY <1>1 DEF IndInv, svars, TypeOK, PathInv, LockInv, RouterInv, HandInv
<1>2. ASSUME NEW k \in Tasks, Peek(k) PROVE IndInv'
  BY <1>2, Asm DEF Peek
<1> QED BY <1>1, <1>2, RecvStep, AcquireStep, LookupStep, SendStep, RouterSteps DEF SNext

THEOREM Safety == SSpec => [](Inv_OneRouterPerTopic /\ Inv_NoBlockingSendUnderLock)
<1>1. SSpec => []IndInv
  BY InitInd, StepInd, PTL DEF SSpec
<1>2. IndInv => (Inv_OneRouterPerTopic /\ Inv_NoBlockingSendUnderLock)
  BY Asm DEF IndInv, Inv_OneRouterPerTopic, Inv_NoBlockingSendUnderLock, TypeOK, RouterInv, HandInv, LockInv, PathInv
<1> QED BY <1>1, <1>2, PTL
=============================================================================
