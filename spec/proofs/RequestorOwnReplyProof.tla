----------------------- MODULE RequestorOwnReplyProof -----------------------
(***************************************************************************)
(* Machine-checked proof (TLAPS) over the definitions of RequestorLife.tla *)
(* itself: a request() that returns Ok returns the reply produced for      *)
(* exactly that request (Inv_OwnReply, the heart of C04) -- for ANY number *)
(* of requestor objects, clones, calls, connection losses and successors,  *)
(* with replies arriving at any time (late, after a timeout, after the     *)
(* asker's connection was lost), as long as the server never hands out a   *)
(* routing id twice (CidNeverReused, the code).  TLC checks the same for    *)
(* two objects with two clones, three calls and two connection losses.     *)
(* The argument: request ids are unique within a requestor object          *)
(* (RidBelow), routing ids never cross objects (ScidFam), so the pending   *)
(* entry a reply meets at its owner is the entry of its own call (PendRep).*)
(*   tlapm -I .. RequestorOwnReplyProof.tla                                *)
(***************************************************************************)
EXTENDS RequestorLife, TLAPS

Lives == {"unopened", "open", "dropped"}
Stats == {"waiting", "ok", "timeout", "failed"}
CallRec == [f : Families, c : Clones, status : Stats, got : Nat]
TypeOK == /\ conn \in [Families -> Nat]
          /\ live \in [Families -> Lives]
          /\ sgen \in [Families -> [Clones -> Nat]]
          /\ scid \in [Families -> [Clones -> Nat]]
          /\ srvNext \in Nat /\ ncalls \in Nat
          /\ nextReq \in [Families -> Nat]
          /\ pending \in [Families -> SUBSET (Nat \X Nat)]
          /\ atRep \in SUBSET [cid : Nat, rid : Nat, call : Nat]
          /\ calls \in [1..ncalls -> CallRec]
\* routing ids: handed out below srvNext, never shared between requestor objects
CidBelow == \A f \in Families : \A c \in Clones : live[f] # "unopened" => scid[f][c] < srvNext
ScidFam == \A f1, f2 \in Families : \A c1, c2 \in Clones :
              (live[f1] # "unopened" /\ live[f2] # "unopened" /\ scid[f1][c1] = scid[f2][c2]) => f1 = f2
\* what the replier holds refers to calls that exist, under ids that were handed out
RepOK == \A x \in atRep : /\ x.call \in 1..ncalls
                          /\ x.cid < srvNext
                          /\ x.rid < nextReq[calls[x.call].f]
\* a routing id a held request carries belongs to the object that asked, if to anybody
CidFam == \A x \in atRep : \A f \in Families : \A c \in Clones :
              (live[f] # "unopened" /\ scid[f][c] = x.cid) => f = calls[x.call].f
\* the table of an object: its own calls, under request ids it has used
PendOK == \A f \in Families : \A p \in pending[f] :
              /\ p[2] \in 1..ncalls /\ calls[p[2]].f = f /\ p[1] < nextReq[f]
\* a held request meets, in the table of the object that asked, no entry but that of its own call
PendRep == \A x \in atRep : \A p \in pending[calls[x.call].f] : p[1] = x.rid => p[2] = x.call
Inv == TypeOK /\ CidBelow /\ ScidFam /\ RepOK /\ CidFam /\ PendOK /\ PendRep /\ Inv_OwnReply

LEMMA InitInv == RInit => Inv
  BY DEF RInit, Inv, TypeOK, CidBelow, ScidFam, RepOK, CidFam, PendOK, PendRep, Inv_OwnReply, Lives, CallRec

LEMMA StepInv == ASSUME CidNeverReused = TRUE PROVE Inv /\ [RNext]_rvars => Inv'
<1> SUFFICES ASSUME Inv, [RNext]_rvars PROVE Inv'
  OBVIOUS
<1>1. CASE UNCHANGED rvars
  BY <1>1 DEF rvars, Inv, TypeOK, CidBelow, ScidFam, RepOK, CidFam, PendOK, PendRep, Inv_OwnReply
<1>2. ASSUME NEW f \in Families, Open(f) PROVE Inv'
  <2>0. /\ live[f] = "unopened" /\ live' = [live EXCEPT ![f] = "open"]
        /\ scid' = [scid EXCEPT ![f] = [c \in Clones |-> srvNext]]
        /\ sgen' = [sgen EXCEPT ![f] = [c \in Clones |-> conn[f]]]
        /\ srvNext' = srvNext + 1
        /\ UNCHANGED <<conn, pending, nextReq, atRep, calls, ncalls>>
    BY <1>2 DEF Open
  <2>1. TypeOK'
    BY <2>0 DEF Inv, TypeOK, Lives
  <2>2. CidBelow'
    BY <2>0 DEF Inv, TypeOK, CidBelow
  <2>3. ScidFam'
    BY <2>0 DEF Inv, TypeOK, CidBelow, ScidFam
  <2>4. RepOK'
    BY <2>0 DEF Inv, TypeOK, RepOK
  <2>5. CidFam'
    BY <2>0 DEF Inv, TypeOK, RepOK, CidFam
  <2>6. PendOK' /\ PendRep' /\ Inv_OwnReply'
    BY <2>0 DEF Inv, PendOK, PendRep, Inv_OwnReply
  <2> QED BY <2>1, <2>2, <2>3, <2>4, <2>5, <2>6 DEF Inv
<1>3. ASSUME NEW f \in Families, Drop(f) PROVE Inv'
  <2>0. /\ live[f] = "open" /\ live' = [live EXCEPT ![f] = "dropped"] /\ srvNext' = srvNext
        /\ UNCHANGED <<conn, sgen, scid, pending, nextReq, atRep, calls, ncalls>>
    BY <1>3 DEF Drop, ServerForgets
  <2>1. TypeOK'
    BY <2>0 DEF Inv, TypeOK, Lives
  <2>2. CidBelow' /\ ScidFam' /\ CidFam'
    BY <2>0 DEF Inv, TypeOK, CidBelow, ScidFam, CidFam
  <2>3. RepOK' /\ PendOK' /\ PendRep' /\ Inv_OwnReply'
    BY <2>0 DEF Inv, RepOK, PendOK, PendRep, Inv_OwnReply
  <2> QED BY <2>1, <2>2, <2>3 DEF Inv
<1>4. ASSUME NEW f \in Families, NEW c \in Clones, Request(f, c) PROVE Inv'
  <2> DEFINE stale == sgen[f][c] < conn[f]
  <2> DEFINE cid == IF stale THEN srvNext ELSE scid[f][c]
  <2> DEFINE keep == IF stale /\ ~ReconnectKeepsPending THEN {} ELSE pending[f]
  <2> DEFINE k == ncalls + 1
  <2> DEFINE x0 == [cid |-> cid, rid |-> nextReq[f], call |-> k]
  <2>0. /\ live[f] = "open"
        /\ sgen' = [sgen EXCEPT ![f][c] = conn[f]]
        /\ scid' = [scid EXCEPT ![f][c] = cid]
        /\ srvNext' = IF stale THEN srvNext + 1 ELSE srvNext
        /\ pending' = [pending EXCEPT ![f] = keep \cup {<<nextReq[f], k>>}]
        /\ nextReq' = [nextReq EXCEPT ![f] = @ + 1]
        /\ atRep' = atRep \cup {x0}
        /\ calls' = [j \in 1..k |->
                      IF j = k THEN [f |-> f, c |-> c, status |-> "waiting", got |-> 0]
                      ELSE IF calls[j].f = f /\ calls[j].status = "waiting" /\ ~(\E p \in keep : p[2] = j)
                           THEN [calls[j] EXCEPT !.status = "failed"] ELSE calls[j]]
        /\ ncalls' = k
        /\ UNCHANGED <<conn, live>>
    BY <1>4 DEF Request
  <2> HIDE DEF stale, cid, keep, k, x0
  <2>a. /\ cid \in Nat /\ cid < srvNext' /\ srvNext' \in Nat /\ srvNext' >= srvNext
        /\ k \in Nat /\ k = ncalls + 1 /\ keep \subseteq pending[f]
        /\ x0.cid = cid /\ x0.rid = nextReq[f] /\ x0.call = k
        /\ x0 \in [cid : Nat, rid : Nat, call : Nat]
    BY <2>0 DEF Inv, TypeOK, CidBelow, stale, cid, keep, k, x0
  <2>b. \A j \in 1..ncalls : /\ calls'[j] \in CallRec /\ calls'[j].f = calls[j].f /\ calls'[j].got = calls[j].got
                               /\ (calls[j].status # "waiting" => calls'[j].status = calls[j].status)
                               /\ calls'[j].status \in {calls[j].status, "failed"}
    BY <2>0, <2>a DEF Inv, TypeOK, CallRec, Stats
  <2>c. calls'[k] = [f |-> f, c |-> c, status |-> "waiting", got |-> 0]
    BY <2>0, <2>a DEF Inv, TypeOK
  <2>f. /\ ncalls' = ncalls + 1 /\ ncalls \in Nat /\ k \in 1..ncalls' /\ \A j \in 1..ncalls : j \in 1..ncalls'
        /\ nextReq[f] \in Nat /\ nextReq'[f] = nextReq[f] + 1
        /\ \A g \in Families : g # f => (nextReq'[g] = nextReq[g] /\ pending'[g] = pending[g])
        /\ pending'[f] = keep \cup {<<nextReq[f], k>>}
    BY <2>0, <2>a DEF Inv, TypeOK
  <2>1. TypeOK'
    <3>1. calls' \in [1..k -> CallRec]
      BY <2>0, <2>a, <2>b, <2>c DEF Inv, TypeOK, CallRec, Stats
    <3>2. pending' \in [Families -> SUBSET (Nat \X Nat)]
      BY <2>0, <2>a DEF Inv, TypeOK
    <3>3. atRep' \in SUBSET [cid : Nat, rid : Nat, call : Nat]
      BY <2>0, <2>a DEF Inv, TypeOK
    <3> QED BY <2>0, <2>a, <3>1, <3>2, <3>3 DEF Inv, TypeOK, Lives
  <2>2. CidBelow'
    BY <2>0, <2>a DEF Inv, TypeOK, CidBelow
  <2>d. stale => cid = srvNext
    BY DEF cid
  <2>e. ~stale => cid = scid[f][c] /\ srvNext' = srvNext
    BY <2>0 DEF cid
  <2>3. ScidFam'
    <3> SUFFICES ASSUME NEW f1 \in Families, NEW f2 \in Families, NEW c1 \in Clones, NEW c2 \in Clones,
                        live'[f1] # "unopened", live'[f2] # "unopened", scid'[f1][c1] = scid'[f2][c2]
                 PROVE  f1 = f2
      BY DEF ScidFam
    <3>1. CASE ~stale
      <4>1. scid' = scid
        BY <2>0, <2>e, <3>1 DEF Inv, TypeOK
      <4> QED BY <4>1, <2>0 DEF Inv, ScidFam
    <3>2. CASE stale
      <4>1. \A g \in Families, d \in Clones : (live[g] # "unopened" /\ ~(g = f /\ d = c)) => (scid'[g][d] = scid[g][d] /\ scid[g][d] < srvNext)
        BY <2>0 DEF Inv, TypeOK, CidBelow
      <4>2. scid'[f][c] = srvNext
        BY <2>0, <2>d, <3>2 DEF Inv, TypeOK
      <4>3. live[f1] # "unopened" /\ live[f2] # "unopened" /\ srvNext \in Nat
        BY <2>0 DEF Inv, TypeOK
      <4>4. CASE f1 = f /\ c1 = c
        BY <4>1, <4>2, <4>3, <4>4
      <4>5. CASE f2 = f /\ c2 = c
        BY <4>1, <4>2, <4>3, <4>5
      <4>6. CASE ~(f1 = f /\ c1 = c) /\ ~(f2 = f /\ c2 = c)
        BY <4>1, <4>3, <4>6 DEF Inv, ScidFam
      <4> QED BY <4>4, <4>5, <4>6
    <3> QED BY <3>1, <3>2
  <2>4. RepOK'
    <3> SUFFICES ASSUME NEW x \in atRep' PROVE x.call \in 1..ncalls' /\ x.cid < srvNext' /\ x.rid < nextReq'[calls'[x.call].f]
      BY DEF RepOK
    <3>1. CASE x \in atRep
      <4>1. x.call \in 1..ncalls /\ x.cid < srvNext /\ x.rid < nextReq[calls[x.call].f]
        BY <3>1 DEF Inv, RepOK
      <4>2. calls'[x.call].f = calls[x.call].f /\ calls[x.call].f \in Families
        BY <4>1, <2>b DEF Inv, TypeOK, CallRec
      <4>3. nextReq'[calls[x.call].f] >= nextReq[calls[x.call].f]
        BY <2>0, <4>2 DEF Inv, TypeOK
      <4> QED BY <4>1, <4>2, <4>3, <2>0, <2>a DEF Inv, TypeOK
    <3>2. CASE x = x0
      <4>1. calls'[k].f = f
        BY <2>c
      <4>2. nextReq'[f] = nextReq[f] + 1 /\ nextReq[f] \in Nat
        BY <2>0 DEF Inv, TypeOK
      <4>3. x.call = k /\ x.cid = cid /\ x.rid = nextReq[f]
        BY <3>2, <2>a
      <4>4. x.rid < nextReq'[calls'[x.call].f]
        BY <4>1, <4>2, <4>3
      <4> QED BY <4>3, <4>4, <2>a, <2>f
    <3> QED BY <3>1, <3>2, <2>0
  <2>5. CidFam'
    <3> SUFFICES ASSUME NEW x \in atRep', NEW g \in Families, NEW d \in Clones,
                        live'[g] # "unopened", scid'[g][d] = x.cid
                 PROVE  g = calls'[x.call].f
      BY DEF CidFam
    <3>0. live[g] # "unopened" /\ srvNext \in Nat
      BY <2>0 DEF Inv, TypeOK
    <3>1. CASE x \in atRep
      <4>1. x.call \in 1..ncalls /\ x.cid < srvNext /\ calls'[x.call].f = calls[x.call].f
        BY <3>1, <2>b DEF Inv, RepOK
      <4>2. CASE g = f /\ d = c /\ stale
        <5>1. scid'[f][c] = srvNext
          BY <2>0, <2>d, <4>2 DEF Inv, TypeOK
        <5> QED BY <5>1, <4>1, <4>2, <3>0
      <4>3. CASE ~(g = f /\ d = c /\ stale)
        <5>1. scid'[g][d] = scid[g][d]
          BY <2>0, <2>e, <4>3 DEF Inv, TypeOK
        <5> QED BY <5>1, <4>1, <3>0, <3>1 DEF Inv, CidFam
      <4> QED BY <4>2, <4>3
    <3>2. CASE x = x0
      <4>1. calls'[x.call].f = f /\ x.cid = cid
        BY <3>2, <2>a, <2>c
      <4>2. CASE stale
        <5>1. \A g2 \in Families, d2 \in Clones : (live[g2] # "unopened" /\ ~(g2 = f /\ d2 = c)) => scid'[g2][d2] < srvNext
          BY <2>0 DEF Inv, TypeOK, CidBelow
        <5> QED BY <5>1, <4>1, <4>2, <2>d, <3>0
      <4>3. CASE ~stale
        <5>1. scid' = scid /\ cid = scid[f][c]
          BY <2>0, <2>e, <4>3 DEF Inv, TypeOK
        <5> QED BY <5>1, <4>1, <3>0, <2>0 DEF Inv, ScidFam
      <4> QED BY <4>2, <4>3
    <3> QED BY <3>1, <3>2, <2>0
  <2>6. PendOK'
    <3> SUFFICES ASSUME NEW g \in Families, NEW p \in pending'[g]
                 PROVE  p[2] \in 1..ncalls' /\ calls'[p[2]].f = g /\ p[1] < nextReq'[g]
      BY DEF PendOK
    <3>1. CASE g # f
      <4>1. pending'[g] = pending[g] /\ nextReq'[g] = nextReq[g]
        BY <2>f, <3>1
      <4>2. p[2] \in 1..ncalls /\ calls[p[2]].f = g /\ p[1] < nextReq[g]
        BY <4>1 DEF Inv, PendOK
      <4>3. calls'[p[2]].f = calls[p[2]].f /\ p[2] \in 1..ncalls'
        BY <4>2, <2>b, <2>f
      <4> QED BY <4>1, <4>2, <4>3
    <3>2. CASE g = f
      <4>1. pending'[f] = keep \cup {<<nextReq[f], k>>} /\ nextReq'[f] = nextReq[f] + 1 /\ nextReq[f] \in Nat
        BY <2>0 DEF Inv, TypeOK
      <4>2. CASE p \in keep
        <5>1. p[2] \in 1..ncalls /\ calls[p[2]].f = f /\ p[1] < nextReq[f] /\ p[1] \in Nat
          BY <4>2, <2>a DEF Inv, PendOK, TypeOK
        <5>2. calls'[p[2]].f = calls[p[2]].f /\ p[2] \in 1..ncalls'
          BY <5>1, <2>b, <2>f
        <5>3. p[1] < nextReq'[f]
          BY <5>1, <2>f
        <5> QED BY <5>1, <5>2, <5>3, <3>2
      <4>3. CASE p = <<nextReq[f], k>>
        <5>1. p[1] = nextReq[f] /\ p[2] = k
          BY <4>3
        <5>2. calls'[k].f = f
          BY <2>c
        <5> QED BY <5>1, <5>2, <2>f, <3>2
      <4>4. p \in keep \cup {<<nextReq[f], k>>}
        BY <2>f, <3>2
      <4> QED BY <4>2, <4>3, <4>4
    <3> QED BY <3>1, <3>2
  <2>7. PendRep'
    <3> SUFFICES ASSUME NEW x \in atRep', NEW p \in pending'[calls'[x.call].f], p[1] = x.rid
                 PROVE  p[2] = x.call
      BY DEF PendRep
    <3>1. CASE x \in atRep
      <4>1. x.call \in 1..ncalls /\ x.rid < nextReq[calls[x.call].f] /\ calls'[x.call].f = calls[x.call].f /\ calls[x.call].f \in Families
        BY <3>1, <2>b DEF Inv, RepOK, TypeOK, CallRec
      <4>2. CASE calls[x.call].f # f
        <5>1. pending'[calls[x.call].f] = pending[calls[x.call].f]
          BY <2>0, <4>1, <4>2 DEF Inv, TypeOK
        <5> QED BY <5>1, <4>1, <3>1 DEF Inv, PendRep
      <4>3. CASE calls[x.call].f = f
        <5>1. pending'[f] = keep \cup {<<nextReq[f], k>>} /\ nextReq[f] \in Nat
          BY <2>0 DEF Inv, TypeOK
        <5>2. p # <<nextReq[f], k>>
          BY <4>1, <4>3, <5>1
        <5>3. p \in pending[f]
          BY <5>1, <5>2, <4>1, <4>3, <2>a
        <5> QED BY <5>3, <4>1, <4>3, <3>1 DEF Inv, PendRep
      <4> QED BY <4>2, <4>3
    <3>2. CASE x = x0
      <4>1. calls'[x.call].f = f /\ x.rid = nextReq[f] /\ x.call = k
        BY <3>2, <2>a, <2>c
      <4>2. pending'[f] = keep \cup {<<nextReq[f], k>>} /\ nextReq[f] \in Nat
        BY <2>0 DEF Inv, TypeOK
      <4>3. \A q \in keep : q[1] < nextReq[f]
        BY <2>a DEF Inv, PendOK
      <4> QED BY <4>1, <4>2, <4>3
    <3> QED BY <3>1, <3>2, <2>0
  <2>8. Inv_OwnReply'
    <3> SUFFICES ASSUME NEW j \in 1..ncalls', calls'[j].status = "ok" PROVE calls'[j].got = j
      BY DEF Inv_OwnReply
    <3>1. j # k
      BY <2>c
    <3>2. j \in 1..ncalls
      BY <3>1, <2>0, <2>a DEF Inv, TypeOK
    <3>3. calls[j].status = "ok"
      BY <3>2, <2>b
    <3> QED BY <3>2, <3>3, <2>b DEF Inv, Inv_OwnReply
  <2> QED BY <2>1, <2>2, <2>3, <2>4, <2>5, <2>6, <2>7, <2>8 DEF Inv
<1>5. ASSUME NEW x \in atRep, Answer(x) PROVE Inv'
  <2>0. /\ atRep' = atRep \ {x}
        /\ UNCHANGED <<conn, connUp, live, sgen, scid, srvNext, srvLive, nextReq, ncalls, ncuts>>
    BY <1>5 DEF Answer
  <2>1. CASE UNCHANGED <<pending, calls>>
    <3>1. TypeOK'
      BY <2>0, <2>1 DEF Inv, TypeOK
    <3>2. CidBelow' /\ ScidFam'
      BY <2>0, <2>1 DEF Inv, CidBelow, ScidFam
    <3>3. RepOK' /\ CidFam' /\ PendOK' /\ PendRep' /\ Inv_OwnReply'
      BY <2>0, <2>1 DEF Inv, RepOK, CidFam, PendOK, PendRep, Inv_OwnReply
    <3> QED BY <3>1, <3>2, <3>3 DEF Inv
  <2>2. CASE ~(UNCHANGED <<pending, calls>>)
    <3> DEFINE owners == {o \in Families \X Clones : live[o[1]] = "open" /\ sgen[o[1]][o[2]] = conn[o[1]] /\ scid[o[1]][o[2]] = x.cid}
    <3> DEFINE ff == (CHOOSE o \in owners : TRUE)[1]
    <3> DEFINE hit == {p \in pending[ff] : p[1] = x.rid}
    <3> DEFINE kk == (CHOOSE p \in hit : TRUE)[2]
    <3>1. /\ owners # {} /\ hit # {}
          /\ pending' = [pending EXCEPT ![ff] = @ \ hit]
          /\ calls' = IF calls[kk].status = "waiting"
                       THEN [calls EXCEPT ![kk] = [@ EXCEPT !.status = "ok", !.got = x.call]]
                       ELSE calls
      BY <1>5, <2>2 DEF Answer
    <3>2. (CHOOSE o \in owners : TRUE) \in owners
      BY <3>1
    <3>3. ff \in Families /\ live[ff] = "open" /\ \E c \in Clones : scid[ff][c] = x.cid
      BY <3>2
    <3>4. ff = calls[x.call].f /\ x.call \in 1..ncalls
      BY <3>3 DEF Inv, CidFam, RepOK
    <3>5. (CHOOSE p \in hit : TRUE) \in hit
      BY <3>1
    <3>6. kk = x.call
      BY <3>5, <3>4 DEF Inv, PendRep
    <3> HIDE DEF owners, ff, hit, kk
    <3>7. calls' \in [1..ncalls -> CallRec] /\ \A j \in 1..ncalls : calls'[j].f = calls[j].f
      BY <3>1, <3>4, <3>6 DEF Inv, TypeOK, CallRec, Stats
    <3>8. \A g \in Families : pending'[g] \subseteq pending[g]
      BY <3>1, <3>3 DEF Inv, TypeOK
    <3>9. TypeOK'
      BY <2>0, <3>7, <3>8, <3>1, <3>3 DEF Inv, TypeOK
    <3>10. CidBelow' /\ ScidFam'
      BY <2>0 DEF Inv, CidBelow, ScidFam
    <3>11. RepOK' /\ CidFam'
      BY <2>0, <3>7 DEF Inv, RepOK, CidFam
    <3>12. PendOK'
      BY <2>0, <3>7, <3>8 DEF Inv, PendOK
    <3>13. PendRep'
      <4> SUFFICES ASSUME NEW y \in atRep', NEW q \in pending'[calls'[y.call].f], q[1] = y.rid
                   PROVE  q[2] = y.call
        BY DEF PendRep
      <4>1. y \in atRep /\ y.call \in 1..ncalls
        BY <2>0 DEF Inv, RepOK
      <4>2. calls'[y.call].f = calls[y.call].f /\ calls[y.call].f \in Families
        BY <4>1, <3>7 DEF Inv, TypeOK, CallRec
      <4>3. q \in pending[calls[y.call].f]
        BY <4>2, <3>8
      <4> QED BY <4>1, <4>3 DEF Inv, PendRep
    <3>14. Inv_OwnReply'
      <4> SUFFICES ASSUME NEW j \in 1..ncalls', calls'[j].status = "ok" PROVE calls'[j].got = j
        BY DEF Inv_OwnReply
      <4>1. j \in 1..ncalls
        BY <2>0
      <4>2. CASE j = x.call /\ calls[x.call].status = "waiting"
        BY <4>2, <3>1, <3>4, <3>6 DEF Inv, TypeOK, CallRec
      <4>3. CASE ~(j = x.call /\ calls[x.call].status = "waiting")
        <5>1. calls'[j] = calls[j]
          BY <4>3, <4>1, <3>1, <3>4, <3>6 DEF Inv, TypeOK, CallRec
        <5> QED BY <5>1, <4>1 DEF Inv, Inv_OwnReply
      <4> QED BY <4>2, <4>3
    <3> QED BY <3>9, <3>10, <3>11, <3>12, <3>13, <3>14 DEF Inv
  <2> QED BY <2>1, <2>2
<1>6. ASSUME NEW k \in 1..ncalls, Timeout(k) PROVE Inv'
  <2>0. /\ calls' = [calls EXCEPT ![k] = [@ EXCEPT !.status = "timeout"]]
        /\ UNCHANGED <<conn, connUp, live, sgen, scid, srvNext, srvLive, pending, nextReq, atRep, ncalls, ncuts>>
    BY <1>6 DEF Timeout
  <2>1. calls' \in [1..ncalls -> CallRec] /\ \A j \in 1..ncalls : calls'[j].f = calls[j].f /\ calls'[j].got = calls[j].got /\ (calls'[j].status = "ok" => calls[j].status = "ok")
    BY <2>0 DEF Inv, TypeOK, CallRec, Stats
  <2>2. TypeOK'
    BY <2>0, <2>1 DEF Inv, TypeOK
  <2>3. CidBelow' /\ ScidFam'
    BY <2>0 DEF Inv, CidBelow, ScidFam
  <2>4. RepOK' /\ CidFam' /\ PendOK' /\ PendRep'
    BY <2>0, <2>1 DEF Inv, RepOK, CidFam, PendOK, PendRep
  <2>5. Inv_OwnReply'
    BY <2>0, <2>1 DEF Inv, Inv_OwnReply
  <2> QED BY <2>2, <2>3, <2>4, <2>5 DEF Inv
<1>7. ASSUME NEW f \in Families, Cut(f) PROVE Inv'
  <2>0. /\ conn' = [conn EXCEPT ![f] = @ + 1] /\ srvNext' = srvNext
        /\ UNCHANGED <<live, sgen, scid, pending, nextReq, atRep, calls, ncalls>>
    BY <1>7 DEF Cut, ServerForgets
  <2>1. TypeOK'
    BY <2>0 DEF Inv, TypeOK
  <2>2. CidBelow' /\ ScidFam' /\ RepOK' /\ CidFam' /\ PendOK' /\ PendRep' /\ Inv_OwnReply'
    BY <2>0 DEF Inv, CidBelow, ScidFam, RepOK, CidFam, PendOK, PendRep, Inv_OwnReply
  <2> QED BY <2>1, <2>2 DEF Inv
<1> QED BY <1>1, <1>2, <1>3, <1>4, <1>5, <1>6, <1>7 DEF RNext

THEOREM OwnReply == ASSUME CidNeverReused = TRUE PROVE RSpec => []Inv_OwnReply
<1>1. RSpec => []Inv
  BY InitInv, StepInv, PTL DEF RSpec
<1> QED BY <1>1, PTL DEF Inv

=============================================================================
