-------------------------- MODULE ReplierLifeProof --------------------------
(***************************************************************************)
(* Machine-checked proof (TLAPS) over the definitions of ReplierLife.tla   *)
(* itself: at most one replier is bound, for ANY set of repliers and any   *)
(* number of requests -- the unbounded counterpart of Inv_OneBound, which  *)
(* TLC checks for three repliers.  (OneBound is the Cardinality-free form: *)
(* any two bound repliers are the same one.)                               *)
(*   tlapm -I .. ReplierLifeProof.tla                                      *)
(***************************************************************************)
EXTENDS ReplierLife, TLAPS

States == {"off", "bound", "standby", "gaveup"}
TypeOK == rstate \in [Repliers -> States]
OneBound == \A a, b \in Repliers : (rstate[a] = "bound" /\ rstate[b] = "bound") => a = b
Inv == TypeOK /\ OneBound

LEMMA InitInv == PInit => Inv
  BY DEF PInit, Inv, TypeOK, OneBound, States

LEMMA StepInv == Inv /\ [PNext]_pvars => Inv'
<1> SUFFICES ASSUME Inv, [PNext]_pvars PROVE Inv'
  OBVIOUS
<1>1. CASE UNCHANGED pvars
  BY <1>1 DEF Inv, TypeOK, OneBound, pvars
<1>2. ASSUME NEW r \in Repliers, Start(r) PROVE Inv'
  <2>1. TypeOK'
    BY <1>2 DEF Start, Inv, TypeOK, States
  <2>2. OneBound'
    BY <1>2 DEF Start, Inv, TypeOK, OneBound, Bound, States
  <2> QED BY <2>1, <2>2 DEF Inv
<1>3. ASSUME NEW r \in Repliers, Stop(r) PROVE Inv'
  BY <1>3 DEF Stop, Inv, TypeOK, OneBound, States
<1>4. ASSUME NEW r \in Repliers, Promote(r) PROVE Inv'
  <2>1. TypeOK'
    BY <1>4 DEF Promote, Inv, TypeOK, States
  <2>2. OneBound'
    BY <1>4 DEF Promote, Inv, TypeOK, OneBound, Bound, States
  <2> QED BY <2>1, <2>2 DEF Inv
<1>5. CASE Request
  BY <1>5 DEF Request, Inv, TypeOK, OneBound
<1> QED BY <1>1, <1>2, <1>3, <1>4, <1>5 DEF PNext

THEOREM Safety == PSpec => []OneBound
<1>1. PSpec => []Inv
  BY InitInv, StepInv, PTL DEF PSpec
<1> QED BY <1>1, PTL DEF Inv
=============================================================================
