--------------------------- MODULE ServerLifeProof ---------------------------
(***************************************************************************)
(* Machine-checked proof (TLAPS) over the definitions of ServerLife.tla    *)
(* for the code as it is (LockOrderAsCode, CloseChannels, CloseForAllHandles), for ANY number *)
(* of registrations and topics and any channel capacity:                   *)
(*   - while shutdown closes and joins, it holds both locks and no         *)
(*     registration is inside its critical section (Inv_ShutdownExclusive) *)
(*   - a router finishes only after its channel was closed and drained     *)
(*     (Inv_RouterEndsOnlyWhenClosed)                                      *)
(* TLC checks these (and the liveness of shutdown) for 3 registrations.    *)
(*   tlapm -I .. ServerLifeProof.tla                                       *)
(***************************************************************************)
EXTENDS ServerLife, TLAPS

ASSUME Asm == /\ LockOrderAsCode = TRUE /\ CloseChannels = TRUE /\ CloseForAllHandles = TRUE
              /\ 0 \notin Tasks /\ SD \notin Tasks /\ Cap \in Nat

TPCs == {"want_lock", "locked", "want_hlock", "unlock", "sending", "served", "failed"}
SPCs == {"run", "l1", "l2", "close", "join", "closed"}
Crit == {"locked", "want_hlock", "unlock"}
TypeOK == /\ tpc \in [Tasks -> TPCs]
          /\ ttopic \in [Tasks -> Topics]
          /\ lock \in Tasks \cup {0, SD}
          /\ hlock \in {0, SD}
          /\ exists \in [Topics -> BOOLEAN] /\ closed \in [Topics -> BOOLEAN]
          /\ chan \in [Topics -> Nat] /\ done \in [Topics -> BOOLEAN] /\ drains \in [Topics -> BOOLEAN]
          /\ stuck \in [Tasks -> BOOLEAN] /\ dropped \in [Topics -> BOOLEAN]
          /\ spc \in SPCs
TaskLock == \A k \in Tasks : tpc[k] \in Crit <=> lock = k
ShutLock == /\ spc \in {"run", "l1", "closed"} => (lock # SD /\ hlock = 0)
            /\ spc = "l2" => (lock = SD /\ hlock = 0)
            /\ spc \in {"close", "join"} => (lock = SD /\ hlock = SD)
DoneInv == \A t \in Topics : done[t] => (closed[t] /\ chan[t] = 0 /\ exists[t])
IndInv == TypeOK /\ TaskLock /\ ShutLock /\ DoneInv

LEMMA SDnz == SD # 0 /\ SD = 99
  BY DEF SD

LEMMA InitInd == LInit => IndInv
  BY Asm, SDnz DEF LInit, IndInv, TypeOK, TaskLock, ShutLock, DoneInv, TPCs, SPCs, Crit

LEMMA TaskSteps == ASSUME IndInv, NEW k \in Tasks,
                          TAcquire(k) \/ TLookup(k) \/ TPush(k) \/ TUnlock(k) \/ TSend(k)
                   PROVE IndInv'
<1> USE Asm, SDnz DEF IndInv
<1>1. CASE TAcquire(k)
  BY <1>1 DEF TAcquire, TypeOK, TaskLock, ShutLock, DoneInv, TPCs, SPCs, Crit
<1>2. CASE TLookup(k)
  BY <1>2 DEF TLookup, TypeOK, TaskLock, ShutLock, DoneInv, TPCs, SPCs, Crit
<1>3. CASE TPush(k)
  BY <1>3 DEF TPush, TypeOK, TaskLock, ShutLock, DoneInv, TPCs, SPCs, Crit
<1>4. CASE TUnlock(k)
  BY <1>4 DEF TUnlock, TypeOK, TaskLock, ShutLock, DoneInv, TPCs, SPCs, Crit
<1>5. CASE TSend(k)
  <2>1. TypeOK'
    BY <1>5 DEF TSend, TypeOK, TPCs, SPCs
  <2>2. TaskLock' /\ ShutLock'
    BY <1>5 DEF TSend, TypeOK, TaskLock, ShutLock, TPCs, Crit
  <2>3. DoneInv'
    BY <1>5 DEF TSend, TypeOK, DoneInv
  <2> QED BY <2>1, <2>2, <2>3
<1> QED BY <1>1, <1>2, <1>3, <1>4, <1>5

LEMMA RouterSteps == ASSUME IndInv, NEW t \in Topics, RTake(t) \/ RFinish(t) \/ Stall(t) PROVE IndInv'
<1> USE Asm, SDnz DEF IndInv
<1>1. CASE RTake(t)
  BY <1>1 DEF RTake, TypeOK, TaskLock, ShutLock, DoneInv
<1>2. CASE RFinish(t)
  BY <1>2 DEF RFinish, TypeOK, TaskLock, ShutLock, DoneInv
<1>3. CASE Stall(t)
  BY <1>3 DEF Stall, TypeOK, TaskLock, ShutLock, DoneInv
<1> QED BY <1>1, <1>2, <1>3

LEMMA ShutdownSteps == ASSUME IndInv, SBegin \/ SAcq1 \/ SAcq2 \/ SClose \/ SJoin PROVE IndInv'
<1> USE Asm, SDnz DEF IndInv
<1>1. CASE SBegin
  BY <1>1 DEF SBegin, TypeOK, TaskLock, ShutLock, DoneInv, SPCs
<1>2. CASE SAcq1
  BY <1>2 DEF SAcq1, TypeOK, TaskLock, ShutLock, DoneInv, SPCs, Crit
<1>3. CASE SAcq2
  BY <1>3 DEF SAcq2, TypeOK, TaskLock, ShutLock, DoneInv, SPCs, Crit
<1>4. CASE SClose
  BY <1>4 DEF SClose, TypeOK, TaskLock, ShutLock, DoneInv, SPCs
<1>5. CASE SJoin
  BY <1>5 DEF SJoin, TypeOK, TaskLock, ShutLock, DoneInv, SPCs, Crit
<1> QED BY <1>1, <1>2, <1>3, <1>4, <1>5

LEMMA StepInd == IndInv /\ [LNext]_lvars => IndInv'
<1> SUFFICES ASSUME IndInv, [LNext]_lvars PROVE IndInv'
  OBVIOUS
<1>1. CASE UNCHANGED lvars
  BY <1>1 DEF IndInv, lvars, TypeOK, TaskLock, ShutLock, DoneInv
<1> QED BY <1>1, TaskSteps, RouterSteps, ShutdownSteps DEF LNext

THEOREM Safety == LSpec => [](Inv_ShutdownExclusive /\ Inv_RouterEndsOnlyWhenClosed)
<1>1. LSpec => []IndInv
  BY InitInd, StepInd, PTL DEF LSpec
<1>2. IndInv => (Inv_ShutdownExclusive /\ Inv_RouterEndsOnlyWhenClosed)
  BY Asm, SDnz DEF IndInv, Inv_ShutdownExclusive, Inv_RouterEndsOnlyWhenClosed, TypeOK, TaskLock, ShutLock, DoneInv, Crit
<1> QED BY <1>1, <1>2, PTL
=============================================================================
