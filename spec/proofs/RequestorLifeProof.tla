------------------------- MODULE RequestorLifeProof -------------------------
(***************************************************************************)
(* Machine-checked proof (TLAPS) over the definitions of RequestorLife.tla *)
(* itself: as long as the server never hands out a routing id twice        *)
(* (CidNeverReused, the code), two requestor streams that are in use never *)
(* share a routing id unless they are the one stream a requestor object    *)
(* and its clones share -- for ANY number of requestor objects, clones,    *)
(* calls and connection losses.  This is the unbounded counterpart of      *)
(* Inv_CidUnique, which TLC checks for two objects with two clones each.   *)
(*   tlapm -I .. RequestorLifeProof.tla                                    *)
(***************************************************************************)
EXTENDS RequestorLife, TLAPS

Lives == {"unopened", "open", "dropped"}
TypeOK == /\ conn \in [Families -> Nat]
          /\ live \in [Families -> Lives]
          /\ sgen \in [Families -> [Clones -> Nat]]
          /\ scid \in [Families -> [Clones -> Nat]]
          /\ srvNext \in Nat
\* a clone's stream never belongs to a connection generation that does not exist yet
GenBound == \A f \in Families : \A c \in Clones : sgen[f][c] <= conn[f]
\* every routing id a stream of an opened object carries has been handed out already
CidBelow == \A f \in Families : \A c \in Clones : live[f] # "unopened" => scid[f][c] < srvNext
Inv == TypeOK /\ GenBound /\ CidBelow /\ Inv_CidUnique

LEMMA InitInv == RInit => Inv
  BY DEF RInit, Inv, TypeOK, GenBound, CidBelow, Inv_CidUnique, Lives

LEMMA StepInv == ASSUME CidNeverReused = TRUE PROVE Inv /\ [RNext]_rvars => Inv'
<1> SUFFICES ASSUME Inv, [RNext]_rvars PROVE Inv'
  OBVIOUS
<1>1. CASE UNCHANGED rvars
  BY <1>1 DEF rvars, Inv, TypeOK, GenBound, CidBelow, Inv_CidUnique
<1>2. ASSUME NEW f \in Families, Open(f) PROVE Inv'
  <2>1. TypeOK'
    BY <1>2 DEF Open, Inv, TypeOK, Lives
  <2>2. GenBound'
    BY <1>2 DEF Open, Inv, TypeOK, GenBound
  <2>3. CidBelow'
    BY <1>2 DEF Open, Inv, TypeOK, CidBelow
  <2>4. Inv_CidUnique'
    BY <1>2 DEF Open, Inv, TypeOK, CidBelow, Inv_CidUnique
  <2> QED BY <2>1, <2>2, <2>3, <2>4 DEF Inv
<1>3. ASSUME NEW f \in Families, Drop(f) PROVE Inv'
  BY <1>3 DEF Drop, ServerForgets, Inv, TypeOK, GenBound, CidBelow, Inv_CidUnique, Lives
<1>4. ASSUME NEW f \in Families, NEW c \in Clones, Request(f, c) PROVE Inv'
  <2> DEFINE stale == sgen[f][c] < conn[f]
  <2> DEFINE cid == IF stale THEN srvNext ELSE scid[f][c]
  <2>0. /\ live[f] = "open"
        /\ sgen' = [sgen EXCEPT ![f][c] = conn[f]]
        /\ scid' = [scid EXCEPT ![f][c] = cid]
        /\ srvNext' = IF stale THEN srvNext + 1 ELSE srvNext
        /\ UNCHANGED <<conn, live>>
    BY <1>4 DEF Request
  <2> HIDE DEF stale, cid
  <2>a. cid \in Nat /\ cid < srvNext' /\ srvNext' \in Nat /\ srvNext' >= srvNext
    BY <2>0 DEF Inv, TypeOK, CidBelow, stale, cid
  <2>b. stale => cid = srvNext
    BY DEF cid
  <2>c. ~stale => (cid = scid[f][c] /\ sgen[f][c] = conn[f])
    BY DEF Inv, TypeOK, GenBound, cid, stale
  <2>1. TypeOK'
    BY <2>0, <2>a DEF Inv, TypeOK, Lives
  <2>2. GenBound'
    BY <2>0 DEF Inv, TypeOK, GenBound
  <2>3. CidBelow'
    BY <2>0, <2>a DEF Inv, TypeOK, CidBelow
  <2>4. Inv_CidUnique'
    <3> SUFFICES ASSUME NEW f1 \in Families, NEW f2 \in Families, NEW c1 \in Clones, NEW c2 \in Clones,
                        live'[f1] = "open", live'[f2] = "open",
                        sgen'[f1][c1] = conn'[f1], sgen'[f2][c2] = conn'[f2],
                        scid'[f1][c1] = scid'[f2][c2]
                 PROVE  f1 = f2
      BY DEF Inv_CidUnique
    <3>1. CASE stale
      <4>1. \A g \in Families, d \in Clones : (live[g] = "open" /\ ~(g = f /\ d = c)) => scid'[g][d] < srvNext
        BY <2>0 DEF Inv, TypeOK, CidBelow
      <4>2. scid'[f][c] = srvNext
        BY <2>0, <2>b, <3>1 DEF Inv, TypeOK
      <4>3. live[f1] = "open" /\ live[f2] = "open" /\ srvNext \in Nat
        BY <2>0 DEF Inv, TypeOK
      <4>4. CASE f1 = f /\ c1 = c
        <5>1. f2 # f => scid'[f2][c2] < srvNext
          BY <4>1, <4>3
        <5> QED BY <5>1, <4>2, <4>3, <4>4
      <4>5. CASE f2 = f /\ c2 = c
        <5>1. f1 # f => scid'[f1][c1] < srvNext
          BY <4>1, <4>3
        <5> QED BY <5>1, <4>2, <4>3, <4>5
      <4>6. CASE ~(f1 = f /\ c1 = c) /\ ~(f2 = f /\ c2 = c)
        <5>1. /\ scid'[f1][c1] = scid[f1][c1] /\ scid'[f2][c2] = scid[f2][c2]
              /\ sgen'[f1][c1] = sgen[f1][c1] /\ sgen'[f2][c2] = sgen[f2][c2]
          BY <2>0, <4>6 DEF Inv, TypeOK
        <5> QED BY <5>1, <4>3, <2>0 DEF Inv, Inv_CidUnique
      <4> QED BY <4>4, <4>5, <4>6
    <3>2. CASE ~stale
      <4>1. scid' = scid /\ sgen' = sgen
        BY <2>0, <2>c, <3>2 DEF Inv, TypeOK
      <4> QED BY <4>1, <2>0 DEF Inv, Inv_CidUnique
    <3> QED BY <3>1, <3>2
  <2> QED BY <2>1, <2>2, <2>3, <2>4 DEF Inv
<1>5. ASSUME NEW x \in atRep, Answer(x) PROVE Inv'
  BY <1>5 DEF Answer, Inv, TypeOK, GenBound, CidBelow, Inv_CidUnique
<1>6. ASSUME NEW k \in 1..ncalls, Timeout(k) PROVE Inv'
  BY <1>6 DEF Timeout, Inv, TypeOK, GenBound, CidBelow, Inv_CidUnique
<1>7. ASSUME NEW f \in Families, Cut(f) PROVE Inv'
  <2>1. TypeOK'
    BY <1>7 DEF Cut, ServerForgets, Inv, TypeOK, Lives
  <2>2. GenBound'
    BY <1>7 DEF Cut, ServerForgets, Inv, TypeOK, GenBound
  <2>3. CidBelow'
    BY <1>7 DEF Cut, ServerForgets, Inv, TypeOK, CidBelow
  <2>4. Inv_CidUnique'
    BY <1>7 DEF Cut, ServerForgets, Inv, TypeOK, GenBound, Inv_CidUnique
  <2> QED BY <2>1, <2>2, <2>3, <2>4 DEF Inv
<1> QED BY <1>1, <1>2, <1>3, <1>4, <1>5, <1>6, <1>7 DEF RNext

THEOREM Safety == ASSUME CidNeverReused = TRUE PROVE RSpec => []Inv_CidUnique
<1>1. RSpec => []Inv
  BY InitInv, StepInv, PTL DEF RSpec
<1> QED BY <1>1, PTL DEF Inv
=============================================================================
