SPECIFICATION TNSpec
INVARIANTS Inv_StdConsistent Inv_AcceptedShape EmitCase
CHECK_DEADLOCK FALSE
