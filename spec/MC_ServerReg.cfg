\* safety: 3 stream opens, every first frame, valid/invalid topics, capacity 1
SPECIFICATION SSpec
CONSTANTS
  Tasks = {1, 2, 3}
  Topics = {"A", "B"}
  Cap = 1
  FrameSet = {"pub", "sub", "rep", "req", "other"}
  TopicSet = {"A", "B", "invalid"}
  FixD10 = TRUE
  FixD15 = TRUE
  FixD18 = TRUE
  AtomicCreate = TRUE
INVARIANTS Inv_AnsweredTruthfully Inv_OkMeansServed Inv_InvalidRefused Inv_NoBlockingSendUnderLock Inv_OneRouterPerTopic EmitCase
CHECK_DEADLOCK FALSE
