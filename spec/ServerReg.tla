------------------------------ MODULE ServerReg ------------------------------
(* ServerRegCore (the registration path of server/src/server.rs, see there) plus the *)
(* export of its case space for the conformance run.  The core is kept free of the   *)
(* Json module so that proofs/ServerRegProof.tla (TLAPS) can extend it.               *)
EXTENDS ServerRegCore, Json

\* case export: one line per assignment of first frames / topics to the stream opens
EmitCase == (\A k \in Tasks : pc[k] = "recv") =>
    PrintT(<<"CASE", ToJson([tasks |-> [k \in 1..Cardinality(Tasks) |-> [frame |-> frame[k], topic |-> topic[k]]]])>>)
=============================================================================
