--------------------------- MODULE PubSubRouter ---------------------------
(***************************************************************************)
(* Layer A (implementation shaped) specification of the pub/sub topic     *)
(* router  server/src/topic/pubsub.rs  (Topic::poll)  together with       *)
(* server/src/sink/fanout_many.rs, the futures-mpsc registration channel  *)
(* and tokio-stream's StreamMap.                                           *)
(*                                                                         *)
(* One action per inner poll of a child; `pc` walks the blocks of the     *)
(* Rust poll body.  Waker slots are explicit: a child registers the       *)
(* task's waker only when it returns Pending, firing a waker consumes it, *)
(* and the executor starts an outer poll only when `woken`.               *)
(*                                                                         *)
(* Deviations of the code as originally written are selectable:           *)
(*   FixD1  FALSE: the early-park arm returns Pending without flushing    *)
(*   FixD2  FALSE: FanoutMany::start_send iterates to a length captured   *)
(*                 before the loop (index out of bounds after eviction)   *)
(*   FixD6  FALSE: after adopting a socket the router does not poll the   *)
(*                 channel again before it parks (lost wake-up)           *)
(* With all three TRUE the module follows the repaired code.              *)
(***************************************************************************)
EXTENDS PubSubIface, TLC

CONSTANTS
    MaxItems,      \* items per publisher
    MaxBlocks,     \* budget of "sink becomes not ready / not flushable" env steps
    MaxBreaks,     \* budget of sink failures
    MaxErrs,       \* budget of publisher-stream Err items
    AllowClose,    \* may the environment close the registration channel
    FixD1, FixD2, FixD6

None == <<>>

VARIABLES
    chan,        \* queued registrations: Seq of <<"pub"|"sub", id>>
    chanClosed,  \* all senders closed the channel
    chanWaker,   \* the receiver holds the task's waker
    streams,     \* StreamMap.entries  : Seq(Pubs)
    sinks,       \* FanoutMany.entries : Seq(Subs)
    buf,         \* buffered_item : None or item
    pc,          \* control point inside Topic::poll
    idx,         \* loop cursor (0-based, as in the Rust code)
    cap,         \* captured length (FanoutMany::start_send / StreamMap loop count)
    start,       \* StreamMap start index
    ret,         \* what follows the current poll_flush: "park" | "loop" | "done"
    pq,          \* [Pubs -> Seq(item)]   published, not yet yielded
    pend,        \* [Pubs -> BOOLEAN]     publisher finished its stream
    perr,        \* [Pubs -> BOOLEAN]     the stream's next poll yields Err
    pwk,         \* [Pubs -> BOOLEAN]     stream holds the task's waker
    pstat,       \* [Pubs -> {"no","queued","live","gone"}]
    pubd,        \* [Pubs -> Nat]         number of items published so far
    rdy,         \* [Subs -> BOOLEAN]     poll_ready would return Ok
    flu,         \* [Subs -> BOOLEAN]     poll_flush would return Ok
    brk,         \* [Subs -> {"no","ready","send","flush"}] op at which the sink fails
    swk,         \* [Subs -> BOOLEAN]     sink holds the task's waker
    woken,       \* the executor has been asked to poll the task
    nBlk, nBrk, nErr   \* remaining environment budgets

routerVars == <<chan, chanClosed, chanWaker, streams, sinks, buf, pc, idx, cap,
                start, ret, pq, pend, perr, pwk, pstat, pubd, rdy, flu, brk, swk,
                woken, nBlk, nBrk, nErr>>
vars == <<ifaceVars, routerVars>>

At(seq, i0) == seq[i0 + 1]
SwapRemove(seq, i0) ==
    LET n == Len(seq) IN
    [k \in 1..(n - 1) |-> IF k = i0 + 1 THEN seq[n] ELSE seq[k]]

Init ==
    /\ IfaceInit
    /\ chan = <<>> /\ chanClosed = FALSE /\ chanWaker = FALSE
    /\ streams = <<>> /\ sinks = <<>> /\ buf = None
    /\ pc = "idle" /\ idx = 0 /\ cap = 0 /\ start = 0 /\ ret = "park"
    /\ pq = [p \in Pubs |-> <<>>]
    /\ pend = [p \in Pubs |-> FALSE]
    /\ perr = [p \in Pubs |-> FALSE]
    /\ pwk = [p \in Pubs |-> FALSE]
    /\ pstat = [p \in Pubs |-> "no"]
    /\ pubd = [p \in Pubs |-> 0]
    /\ rdy = [s \in Subs |-> TRUE]
    /\ flu = [s \in Subs |-> TRUE]
    /\ brk = [s \in Subs |-> "no"]
    /\ swk = [s \in Subs |-> FALSE]
    /\ woken = TRUE            \* a freshly spawned task is polled once
    /\ nBlk = MaxBlocks /\ nBrk = MaxBreaks /\ nErr = MaxErrs

---------------------------------------------------------------------------
(* Router steps.  Each leaves every variable it does not mention alone.   *)

ctl == <<pc, idx, cap, start, ret>>
envSide == <<pq, pend, perr, pstat, pubd, rdy, flu, brk, nBlk, nBrk, nErr, chanClosed>>

StartPoll ==
    /\ pc = "idle" /\ woken
    /\ woken' = FALSE
    /\ pc' = "top"
    /\ UNCHANGED <<ifaceVars, chan, chanClosed, chanWaker, streams, sinks, buf, idx,
                   cap, start, ret, pq, pend, perr, pwk, pstat, pubd, rdy, flu, brk,
                   swk, nBlk, nBrk, nErr>>

\* pubsub.rs:85  if buffered_item.is_some() { ... }
Top ==
    /\ pc = "top"
    /\ IF buf # None THEN pc' = "rdy" /\ idx' = 0
                     ELSE pc' = "handle" /\ idx' = idx
    /\ UNCHANGED <<ifaceVars, chan, chanClosed, chanWaker, streams, sinks, buf, cap,
                   start, ret, pq, pend, perr, pwk, pstat, pubd, rdy, flu, brk, swk,
                   woken, nBlk, nBrk, nErr>>

\* fanout_many.rs:77-92  FanoutMany::poll_ready, one child poll per step
FanReady ==
    /\ pc = "rdy"
    /\ IF idx >= Len(sinks)
       THEN /\ pc' = "send" /\ idx' = 0 /\ cap' = Len(sinks)
            /\ UNCHANGED <<sinks, swk, sstat>>
       ELSE LET s == At(sinks, idx) IN
            IF brk[s] = "ready"
            THEN /\ sinks' = SwapRemove(sinks, idx)
                 /\ UNCHANGED <<pc, idx, cap, swk, sstat>>
            ELSE IF rdy[s]
            THEN /\ idx' = idx + 1
                 /\ UNCHANGED <<pc, cap, sinks, swk, sstat>>
            ELSE /\ swk' = [swk EXCEPT ![s] = TRUE]       \* Pending: waker registered
                 /\ pc' = "idle"                           \* ready! returns Pending
                 /\ UNCHANGED <<idx, cap, sinks, sstat>>
    /\ UNCHANGED <<accepted, sent, regAt, recv, flushed, chan, chanClosed, chanWaker,
                   streams, buf, start, ret, pq, pend, perr, pwk, pstat, pubd, rdy,
                   flu, brk, woken, nBlk, nBrk, nErr>>

\* fanout_many.rs:94-117  FanoutMany::start_send
\* as written: `len` captured before the loop; repaired: the live length.
SendLen == IF FixD2 THEN Len(sinks) ELSE cap
FanSend ==
    /\ pc = "send"
    /\ IF idx >= SendLen
       THEN \* loop finished (or never entered: no sinks -- the item is dropped)
            /\ buf' = None /\ pc' = "handle"
            /\ UNCHANGED <<idx, sinks, recv>>
       ELSE IF idx >= Len(sinks)
       THEN \* self.entries[idx] out of bounds
            /\ pc' = "panic"
            /\ UNCHANGED <<idx, sinks, recv, buf>>
       ELSE LET s == At(sinks, idx)
                last == (idx = SendLen - 1) IN
            IF brk[s] = "send"
            THEN /\ sinks' = SwapRemove(sinks, idx)
                 /\ recv' = recv
                 /\ IF last THEN buf' = None /\ pc' = "handle" /\ idx' = idx
                            ELSE UNCHANGED <<buf, pc, idx>>
            ELSE /\ recv' = [recv EXCEPT ![s] = Append(@, buf)]
                 /\ sinks' = sinks
                 /\ IF last THEN buf' = None /\ pc' = "handle" /\ idx' = idx
                            ELSE idx' = idx + 1 /\ UNCHANGED <<buf, pc>>
    /\ UNCHANGED <<accepted, sent, regAt, sstat, flushed, chan, chanClosed, chanWaker,
                   streams, cap, start, ret, pq, pend, perr, pwk, pstat, pubd, rdy,
                   flu, brk, swk, woken, nBlk, nBrk, nErr>>

\* pubsub.rs:93-118  handle.poll_next(cx)
PollHandle ==
    /\ pc = "handle"
    /\ IF chan # <<>>
       THEN LET h == Head(chan) IN
            /\ chan' = Tail(chan)
            /\ IF h[1] = "pub"
               THEN /\ streams' = Append(streams, h[2])
                    /\ pstat' = [pstat EXCEPT ![h[2]] = "live"]
                    /\ UNCHANGED <<sinks, sstat, regAt>>
               ELSE /\ sinks' = Append(sinks, h[2])
                    /\ sstat' = [sstat EXCEPT ![h[2]] = AdoptedStat(@)]
                    /\ regAt' = [regAt EXCEPT ![h[2]] = Len(accepted)]
                    /\ UNCHANGED <<streams, pstat>>
            \* repaired: `continue` -- poll the channel again until it is Pending
            /\ pc' = IF FixD6 THEN "top" ELSE "streams"
            /\ UNCHANGED <<chanWaker, idx, ret>>
       ELSE IF chanClosed
       THEN \* Ready(None): flush, shut down, finish
            /\ pc' = "flush" /\ idx' = 0 /\ ret' = "done"
            /\ UNCHANGED <<chan, chanWaker, streams, sinks, pstat, sstat, regAt>>
       ELSE \* Pending: the receiver now holds the waker
            /\ chanWaker' = TRUE
            /\ IF streams = <<>> /\ buf = None
               THEN IF FixD1 THEN pc' = "flush" /\ idx' = 0 /\ ret' = "park"
                             ELSE pc' = "idle" /\ UNCHANGED <<idx, ret>>
               ELSE pc' = "streams" /\ UNCHANGED <<idx, ret>>
            /\ UNCHANGED <<chan, streams, sinks, pstat, sstat, regAt>>
    /\ UNCHANGED <<accepted, sent, recv, flushed, chanClosed, buf, cap, start, pq, pend,
                   perr, pwk, pubd, rdy, flu, brk, swk, woken, nBlk, nBrk, nErr>>

\* tokio-stream StreamMap::poll_next_entry: random start index, one pass
EnterStreams ==
    /\ pc = "streams"
    /\ IF streams = <<>>
       THEN \* Ready(None): all streams have finished -> ready!(poll_flush), loop
            /\ pc' = "flush" /\ idx' = 0 /\ ret' = "loop"
            /\ UNCHANGED <<start, cap>>
       ELSE \E st \in 0..(Len(streams) - 1) :
            /\ start' = st /\ idx' = st /\ cap' = Len(streams)
            /\ pc' = "spoll" /\ ret' = ret
    /\ UNCHANGED <<ifaceVars, chan, chanClosed, chanWaker, streams, sinks, buf, pq, pend,
                   perr, pwk, pstat, pubd, rdy, flu, brk, swk, woken, nBlk, nBrk, nErr>>

PollStream ==
    /\ pc = "spoll"
    /\ IF cap = 0
       THEN \* pass finished without an item
            /\ IF streams = <<>>
               THEN pc' = "flush" /\ idx' = 0 /\ ret' = "loop"
               ELSE pc' = "flush" /\ idx' = 0 /\ ret' = "park"
            /\ UNCHANGED <<accepted, sent, streams, buf, cap, pq, perr, pwk, pstat>>
       ELSE LET p == At(streams, idx) IN
            IF perr[p]
            THEN \* Ready(Some(Err)): logged and skipped
                 /\ perr' = [perr EXCEPT ![p] = FALSE]
                 /\ pc' = "top"
                 /\ UNCHANGED <<accepted, sent, streams, buf, cap, idx, ret, pq, pwk, pstat>>
            ELSE IF pq[p] # <<>>
            THEN \* Ready(Some(Ok(item)))
                 /\ buf' = Head(pq[p])
                 /\ pq' = [pq EXCEPT ![p] = Tail(@)]
                 /\ accepted' = Append(accepted, Head(pq[p]))
                 /\ sent' = [sent EXCEPT ![p] = @ + 1]
                 /\ pc' = "top"
                 /\ UNCHANGED <<streams, cap, idx, ret, perr, pwk, pstat>>
            ELSE IF pend[p]
            THEN \* Ready(None): swap_remove and adjust the cursor
                 LET ns == SwapRemove(streams, idx)
                     n  == Len(ns) IN
                 /\ streams' = ns
                 /\ pstat' = [pstat EXCEPT ![p] = "gone"]
                 /\ idx' = IF idx = n THEN 0
                           ELSE IF idx < start /\ start <= n THEN (idx + 1) % n
                           ELSE idx
                 /\ cap' = cap - 1
                 /\ UNCHANGED <<accepted, sent, buf, pc, ret, pq, perr, pwk>>
            ELSE \* Pending: stream holds the waker
                 /\ pwk' = [pwk EXCEPT ![p] = TRUE]
                 /\ idx' = (idx + 1) % Len(streams)
                 /\ cap' = cap - 1
                 /\ UNCHANGED <<accepted, sent, streams, buf, pc, ret, pq, perr, pstat>>
    /\ UNCHANGED <<regAt, sstat, recv, flushed, chan, chanClosed, chanWaker, sinks, start,
                   pend, pubd, rdy, flu, brk, swk, woken, nBlk, nBrk, nErr>>

\* fanout_many.rs:119-134  FanoutMany::poll_flush, one child poll per step,
\* followed by what the call site does with Ready(Ok)
FanFlush ==
    /\ pc = "flush"
    /\ IF idx >= Len(sinks)
       THEN /\ pc' = CASE ret = "park" -> "idle"      \* return Poll::Pending
                       [] ret = "loop" -> "top"       \* next loop iteration
                       [] ret = "done" -> "done"      \* return Poll::Ready(())
            /\ UNCHANGED <<idx, sinks, swk, flushed>>
       ELSE LET s == At(sinks, idx) IN
            IF brk[s] = "flush"
            THEN /\ sinks' = SwapRemove(sinks, idx)
                 /\ UNCHANGED <<pc, idx, swk, flushed>>
            ELSE IF flu[s]
            THEN /\ flushed' = [flushed EXCEPT ![s] = Len(recv[s])]
                 /\ idx' = idx + 1
                 /\ UNCHANGED <<pc, sinks, swk>>
            ELSE /\ swk' = [swk EXCEPT ![s] = TRUE]
                 /\ pc' = "idle"                           \* ready! returns Pending
                 /\ UNCHANGED <<idx, sinks, flushed>>
    /\ UNCHANGED <<accepted, sent, regAt, sstat, recv, chan, chanClosed, chanWaker, streams,
                   buf, cap, start, ret, pq, pend, perr, pwk, pstat, pubd, rdy, flu, brk,
                   woken, nBlk, nBrk, nErr>>

RouterNext == StartPoll \/ Top \/ FanReady \/ FanSend \/ PollHandle \/ EnterStreams
                \/ PollStream \/ FanFlush

---------------------------------------------------------------------------
(* Environment steps: only between outer polls (pc = "idle"), which is    *)
(* sound for a poll that runs on one thread; what the children answer     *)
(* inside the poll is determined by the state the environment left.       *)

EnvIdle == pc = "idle"

WakeChan == IF chanWaker THEN woken' = TRUE /\ chanWaker' = FALSE
                         ELSE UNCHANGED <<woken, chanWaker>>

RegisterPub(p) ==
    /\ EnvIdle /\ ~chanClosed /\ pstat[p] = "no"
    /\ chan' = Append(chan, <<"pub", p>>)
    /\ pstat' = [pstat EXCEPT ![p] = "queued"]
    /\ WakeChan
    /\ UNCHANGED <<ifaceVars, chanClosed, streams, sinks, buf, ctl, pq, pend, perr, pwk,
                   pubd, rdy, flu, brk, swk, nBlk, nBrk, nErr>>

RegisterSub(s) ==
    /\ EnvIdle /\ ~chanClosed /\ sstat[s] = "no"
    /\ chan' = Append(chan, <<"sub", s>>)
    /\ sstat' = [sstat EXCEPT ![s] = "queued"]
    /\ WakeChan
    /\ UNCHANGED <<accepted, sent, regAt, recv, flushed, chanClosed, streams, sinks, buf,
                   ctl, pq, pend, perr, pwk, pstat, pubd, rdy, flu, brk, swk, nBlk, nBrk, nErr>>

CloseChannel ==
    /\ EnvIdle /\ AllowClose /\ ~chanClosed
    /\ chanClosed' = TRUE
    /\ WakeChan
    /\ UNCHANGED <<ifaceVars, chan, streams, sinks, buf, ctl, pq, pend, perr, pwk, pstat,
                   pubd, rdy, flu, brk, swk, nBlk, nBrk, nErr>>

WakePub(p) == IF pwk[p] THEN woken' = TRUE /\ pwk' = [pwk EXCEPT ![p] = FALSE]
                        ELSE UNCHANGED <<woken, pwk>>

Publish(p) ==
    /\ EnvIdle /\ pstat[p] \in {"queued", "live"} /\ ~pend[p] /\ pubd[p] < MaxItems
    /\ pq' = [pq EXCEPT ![p] = Append(@, Item(p, pubd[p] + 1))]
    /\ pubd' = [pubd EXCEPT ![p] = @ + 1]
    /\ WakePub(p)
    /\ UNCHANGED <<ifaceVars, chan, chanClosed, chanWaker, streams, sinks, buf, ctl, pend,
                   perr, pstat, rdy, flu, brk, swk, nBlk, nBrk, nErr>>

PubEnds(p) ==
    /\ EnvIdle /\ pstat[p] \in {"queued", "live"} /\ ~pend[p]
    /\ pend' = [pend EXCEPT ![p] = TRUE]
    /\ WakePub(p)
    /\ UNCHANGED <<ifaceVars, chan, chanClosed, chanWaker, streams, sinks, buf, ctl, pq,
                   perr, pstat, pubd, rdy, flu, brk, swk, nBlk, nBrk, nErr>>

PubErrs(p) ==
    /\ EnvIdle /\ pstat[p] \in {"queued", "live"} /\ ~pend[p] /\ ~perr[p] /\ nErr > 0
    /\ perr' = [perr EXCEPT ![p] = TRUE]
    /\ nErr' = nErr - 1
    /\ WakePub(p)
    /\ UNCHANGED <<ifaceVars, chan, chanClosed, chanWaker, streams, sinks, buf, ctl, pq,
                   pend, pstat, pubd, rdy, flu, brk, swk, nBlk, nBrk>>

WakeSub(s) == IF swk[s] THEN woken' = TRUE /\ swk' = [swk EXCEPT ![s] = FALSE]
                        ELSE UNCHANGED <<woken, swk>>

\* A sink stops being ready / flushable (back-pressure).  No wake-up.
SinkBlocks(s, which) ==
    /\ EnvIdle /\ sstat[s] \in {"queued", "live"} /\ nBlk > 0
    /\ nBlk' = nBlk - 1
    /\ \/ which = "ready" /\ rdy[s] /\ rdy' = [rdy EXCEPT ![s] = FALSE] /\ flu' = flu
       \/ which = "flush" /\ flu[s] /\ flu' = [flu EXCEPT ![s] = FALSE] /\ rdy' = rdy
    /\ UNCHANGED <<ifaceVars, chan, chanClosed, chanWaker, streams, sinks, buf, ctl, pq,
                   pend, perr, pwk, pstat, pubd, brk, swk, woken, nBrk, nErr>>

\* It becomes ready / flushable again: fires the waker it holds.
SinkUnblocks(s, which) ==
    /\ EnvIdle
    /\ \/ which = "ready" /\ ~rdy[s] /\ rdy' = [rdy EXCEPT ![s] = TRUE] /\ flu' = flu
       \/ which = "flush" /\ ~flu[s] /\ flu' = [flu EXCEPT ![s] = TRUE] /\ rdy' = rdy
    /\ WakeSub(s)
    /\ UNCHANGED <<ifaceVars, chan, chanClosed, chanWaker, streams, sinks, buf, ctl, pq,
                   pend, perr, pwk, pstat, pubd, brk, nBlk, nBrk, nErr>>

\* The subscriber's connection fails: the given operation will return Err.
SinkBreaks(s, op) ==
    /\ EnvIdle /\ sstat[s] \in {"queued", "live"} /\ brk[s] = "no" /\ nBrk > 0
    /\ brk' = [brk EXCEPT ![s] = op]
    /\ nBrk' = nBrk - 1
    /\ sstat' = [sstat EXCEPT ![s] = FailedStat(@)]
    /\ WakeSub(s)
    /\ UNCHANGED <<accepted, sent, regAt, recv, flushed, chan, chanClosed, chanWaker,
                   streams, sinks, buf, ctl, pq, pend, perr, pwk, pstat, pubd, rdy, flu,
                   nBlk, nErr>>

EnvNext ==
    \/ \E p \in Pubs : RegisterPub(p) \/ Publish(p) \/ PubEnds(p) \/ PubErrs(p)
    \/ \E s \in Subs : RegisterSub(s)
    \/ \E s \in Subs, w \in {"ready", "flush"} : SinkBlocks(s, w) \/ SinkUnblocks(s, w)
    \/ \E s \in Subs, op \in {"ready", "send", "flush"} : SinkBreaks(s, op)
    \/ CloseChannel

\* Time.  No variable of this module is a clock and no action is enabled or disabled by one: the router has
\* no timers, so the passing of any amount of time between two steps is a stuttering step ([Next]_vars allows
\* it).  The harness holds the implementation to that: in a quarter of the schedules the process clock jumps
\* ahead by seconds, minutes or hours between the steps (`tick` events, harness/src/clock.rs), and the recorded
\* behaviour must still be one of this module's.
TimePasses == UNCHANGED vars
Next == RouterNext \/ EnvNext

Spec == Init /\ [][Next]_vars
\* Liveness: the router itself is weakly fair; blocked sinks eventually unblock.
FairSpec == Spec /\ WF_vars(RouterNext)
                 /\ \A s \in Subs, w \in {"ready", "flush"} : WF_vars(SinkUnblocks(s, w))

---------------------------------------------------------------------------
(* Properties                                                              *)

\* a subscriber whose failure was injected before its adoption is adopted as
\* "queued -> live" by PollHandle only if not broken; treat broken ones as
\* not healthy through brk.
HealthyA(s) == sstat[s] = "live"

Inv_NoPanic == pc # "panic"                                   \* C08, C11

Inv_Order ==                                                   \* C01, C08
    \A s \in Subs : HealthyA(s) => IsPrefix(recv[s], Owed(s))

\* every step of the router is a step (or a stutter) of the interface spec
Prop_RefinesIface == [][IfaceNext]_ifaceVars

AllWritable == \A s \in Subs : rdy[s] /\ flu[s]
Quiet == pc = "idle" /\ ~woken /\ AllWritable

\* C01 (3rd sentence), C09 (2nd sentence): an idle, un-woken router whose
\* subscribers can all accept data has nothing left to do.
Inv_QuiescentComplete ==
    Quiet => /\ chan = <<>>
             /\ ~chanClosed
             /\ buf = None
             /\ \A p \in Pubs : pstat[p] = "live" => (pq[p] = <<>> /\ ~perr[p])
             /\ \A s \in Subs : HealthyA(s) =>
                    (recv[s] = Owed(s) /\ flushed[s] = Len(recv[s]))

\* C16: when the router future completes, everything it had taken is
\* delivered and flushed to every healthy subscriber.
Inv_ShutdownFlushed ==
    pc = "done" => \A s \in Subs : HealthyA(s) =>
                        (recv[s] = Owed(s) /\ flushed[s] = Len(recv[s]))

\* C09 (1st sentence): an outer poll always comes to an end.
Live_PollTerminates == []<>(pc \in {"idle", "done", "panic"})

\* C16: once the channel is closed the router finishes (sinks unblock by fairness).
Live_ShutdownTerminates == chanClosed ~> (pc \in {"done", "panic"})

\* state constraint helpers for configurations
TypeOK ==
    /\ pc \in {"idle", "top", "rdy", "send", "handle", "streams", "spoll", "flush",
               "done", "panic"}
    /\ ret \in {"park", "loop", "done"}
    /\ buf = None \/ (buf[1] \in Pubs)
=============================================================================
