SPECIFICATION GenSpec
CONSTANTS
  Pubs = {1, 2}
  Origins = 2
  Subs = {1, 2}
  MaxItems = 3
  MaxCuts = 2
  ResubscribeAfterLoss = TRUE
  MaxSteps = 6
INVARIANT GenEmit
CHECK_DEADLOCK FALSE
