--------------------------- MODULE Trace_Decoders ---------------------------
(* Trace validation of the real decoding stages (run in a child process    *)
(* under a counting allocator) against Decoders.tla.                        *)
EXTENDS Decoders, IOUtils
Rec == ndJsonDeserialize(IOEnv.TRACE)
VARIABLES l, nviol
tvars == <<case, l, nviol>>
TraceInit == case = [stage |-> "frame", mut |-> "valid", size |-> "tiny", prior |-> "fresh"] /\ l = 1 /\ nviol = 0
Flag(k, kind) == PrintT(<<"VIOL", k, l, {"C06"}, kind>>) /\ nviol' = nviol + 1
Check(e) ==
    IF e.ev # "stage" THEN nviol' = nviol
    ELSE LET c == [stage |-> e.stage, mut |-> e.mut, size |-> e.size, prior |-> e.prior] IN
         IF e.outcome \in {"panic", "abort", "timeout"} THEN Flag(e.case, e.stage \o "_" \o e.outcome \o (IF e.prior = "fresh" THEN "" ELSE "_" \o e.prior))
         ELSE IF e.outcome \notin Allowed(c) THEN Flag(e.case, e.stage \o "_" \o e.mut \o "_" \o e.outcome \o "_not_allowed")
         ELSE IF e.outcome = "ok" /\ c.mut = "valid" /\ ~e.eq THEN Flag(e.case, e.stage \o "_valid_input_decoded_to_wrong_value" \o (IF e.prior = "fresh" THEN "" ELSE "_" \o e.prior))
         ELSE IF e.alloc > AllocBound(e.inlen, e.outlen) THEN Flag(e.case, e.stage \o "_allocation_unrelated_to_input_size")
         ELSE nviol' = nviol
TraceNext == /\ l <= Len(Rec) /\ l' = l + 1 /\ UNCHANGED case /\ Check(Rec[l])
TraceSpec == TraceInit /\ [][TraceNext]_tvars
TraceAccepted == LET d == TLCGet("stats").diameter IN
                 IF d - 1 = Len(Rec) THEN TRUE ELSE Print(<<"TRACE NOT CONSUMED", d, Len(Rec)>>, FALSE)
=============================================================================
