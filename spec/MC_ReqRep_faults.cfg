\* fault group: 1 requestor x 1 request, 1 replier; 1 break, 1 stream error, 1 bad reply, 1 junk frame, 1 oversize request, close
SPECIFICATION Spec
CONSTANTS
  Cls = {1}
  Rps = {1}
  MaxReqs = 1
  MaxBlocks = 1
  MaxBreaks = 1
  MaxErrs = 0
  MaxBad = 1
  MaxJunk = 1
  MaxBig = 1
  AllowClose = TRUE
  MaxAhead = 2
  FixD3 = TRUE
  FixD4 = TRUE
  FixD5 = TRUE
  FixD6 = TRUE
  FixD9 = TRUE
  FixD16 = TRUE
INVARIANTS
  Inv_NoPanic
  Inv_OneReplier
  Inv_AtMostOnce
  Inv_RequestOrder
  Inv_ReplyRouting
  Inv_RejectedProtocol
  Inv_NoLostRequest
  Inv_ServerMatchesBound
  Inv_QuiescentComplete
  Inv_ShutdownFlushed
PROPERTIES
  Prop_NoReplyOverwrite
  Prop_RefinesIface

CHECK_DEADLOCK FALSE
