SPECIFICATION TraceSpec
CONSTANTS
  Cls <- TraceCls
  Rps <- TraceRps
INVARIANT TraceInv
POSTCONDITION TraceAccepted
CHECK_DEADLOCK FALSE
