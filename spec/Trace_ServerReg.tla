--------------------------- MODULE Trace_ServerReg ---------------------------
(* Trace validation of the real server's registration path (raw QUIC peers +  *)
(* hook events from handle_stream) against ServerReg.tla: every stream open   *)
(* is answered as the specification prescribes, the global lock is never held *)
(* across the channel send, refused registrations create no topic, and every  *)
(* topic is still usable afterwards.                                          *)
EXTENDS Naturals, Sequences, FiniteSets, TLC, Json, IOUtils
Rec == ndJsonDeserialize(IOEnv.TRACE)

VARIABLES l, skip, run, nviol,
          tkind,      \* topic name ("A"/"B") -> pattern, as decided by the first served registration
          holder,     \* task id holding the topics lock (0 = free), from hook events
          expectOk,   \* reply expected for the open whose first_reply comes next
          created     \* names for which handle_stream has spawned a router (hook events), whole server run
tvars == <<l, skip, run, nviol, tkind, holder, expectOk, created>>

KindOf(role) == IF role \in {"pub", "sub"} THEN "pubsub" ELSE "reqrep"
TraceInit == l = 1 /\ skip = TRUE /\ run = 0 /\ nviol = 0 /\ tkind = [t \in {"A", "B"} |-> "none"] /\ holder = 0 /\ expectOk = FALSE /\ created = {}

Flag(props, kind) == /\ PrintT(<<"VIOL", run, l, props, kind>>)
                     /\ skip' = TRUE /\ nviol' = nviol + 1 /\ UNCHANGED <<run, tkind, holder, expectOk, created>>
Stutter == UNCHANGED <<skip, run, nviol, tkind, holder, expectOk, created>>

Step(e) ==
    CASE e.ev = "first_reply" ->
            IF e.frame = "other"
            THEN IF e.reply = "error" THEN Stutter
                 ELSE Flag({"C11"}, "non_registration_first_frame_" \o e.reply)
            ELSE IF e.topic = "invalid"
            THEN IF e.reply = "error" /\ e.code = 4 THEN Stutter
                 ELSE Flag({"C07", "C11"}, "invalid_topic_name_answered_" \o e.reply)
            ELSE IF tkind[e.topic] # "none" /\ tkind[e.topic] # KindOf(e.frame)
            THEN IF e.reply = "error" THEN Stutter
                 ELSE Flag({"C11"}, "pattern_mismatch_answered_" \o e.reply)
            ELSE IF e.reply = "ok"
                 THEN tkind' = [tkind EXCEPT ![e.topic] = KindOf(e.frame)] /\ UNCHANGED <<skip, run, nviol, holder, expectOk, created>>
                 ELSE Flag({"C11"}, "valid_registration_answered_" \o e.reply)
      [] e.ev = "hs_lock_acquired" ->
            \* (a release whose hook event is missing is not a verdict: the acquisition proves it happened)
            holder' = e.task /\ UNCHANGED <<skip, run, nviol, tkind, expectOk, created>>
      [] e.ev = "hs_lock_released" ->
            holder' = 0 /\ UNCHANGED <<skip, run, nviol, tkind, expectOk, created>>
      [] e.ev = "hs_send_begin" ->
            \* C17: nobody waits for room in a topic's channel while holding the global lock
            IF holder = e.task THEN Flag({"C17"}, "channel_send_while_holding_global_lock") ELSE Stutter
      [] e.ev = "pipeline_round" ->
            \* whatever follows the registration frame in the same write belongs to the stream
            IF e.res = "ok" THEN Stutter
            ELSE Flag(IF e.pattern = "pubsub" THEN {"C01", "C11"} ELSE {"C02", "C11"}, "frames_pipelined_behind_the_registration_were_not_served")
      [] e.ev = "race_round" ->
            \* ServerReg!Inv_OneRouterPerTopic seen from outside: peers told Ok on one name reach each other
            IF e.res = "ok" THEN Stutter
            ELSE Flag(IF e.pattern = "pubsub" THEN {"C01"} ELSE {"C02"}, "concurrently_registered_peers_of_one_topic_do_not_reach_each_other")
      \* a server that has been up for a while (many connections have come and gone): every stream open
      \* answered like the first
      [] e.ev = "longlife" ->
            IF e.connect_failed = 0 /\ e.not_ok = 0 THEN Stutter
            ELSE Flag({"C11", "C17"}, "stream_open_unanswered_after_many_connections")
      \* a registration on a stalled topic is acknowledged all the same (the answer does not wait for the router)
      [] e.ev = "late_registration" ->
            IF e.res = "ok" THEN Stutter ELSE Flag({"C11", "C17"}, "registration_on_a_stalled_topic_not_acknowledged")
      [] e.ev = "probe" ->
            IF e.res = "ok" THEN Stutter ELSE Flag({"C11", "C08"}, "topic_unusable_after_frame_sequence_" \o e.pattern)
      [] e.ev = "other_topic_roundtrip" ->
            IF e.res = "ok" THEN Stutter ELSE Flag({"C17"}, "other_topic_blocked_by_stalled_topic")
      [] e.ev = "done" ->
            IF e.panics # 0 THEN Flag({"C11", "C08"}, "server_task_panicked") ELSE Stutter
      [] e.ev = "slow_refused_peer_probe" ->
            IF e.res = "ok" THEN Stutter ELSE Flag({"C11", "C17"}, "refused_peer_that_does_not_read_blocks_other_registrations")
      [] e.ev = "iso" ->
            IF e.res = "ok" THEN Stutter ELSE Flag({"C07", "C01"}, "two_different_topic_names_share_or_lose_traffic")
      [] e.ev = "harness_error" -> Flag({"C11"}, "server_unreachable")
      [] OTHER -> Stutter

NewCase(e) == /\ skip' = FALSE /\ run' = e.run /\ nviol' = nviol
              /\ tkind' = [t \in {"A", "B"} |-> "none"] /\ holder' = holder /\ expectOk' = FALSE /\ created' = created

\* ServerReg!Inv_OneRouterPerTopic at the hook: a router is spawned for a name at most once (topics are never
\* removed); followed in skip mode too, so that the set stays complete
Created(e) == IF e.topic \in created
              THEN /\ PrintT(<<"VIOL", run, l, {"C01", "C02"}, "second_router_spawned_for_an_existing_topic">>)
                   /\ skip' = TRUE /\ nviol' = nviol + 1 /\ UNCHANGED <<run, tkind, holder, expectOk, created>>
              ELSE created' = created \cup {e.topic} /\ UNCHANGED <<skip, run, nviol, tkind, holder, expectOk>>

TraceNext == /\ l <= Len(Rec) /\ l' = l + 1
             /\ LET e == Rec[l] IN IF e.ev = "case" THEN NewCase(e)
                                   ELSE IF e.ev = "hs_topic_created" THEN Created(e)
                                   ELSE IF skip THEN Stutter ELSE Step(e)
TraceSpec == TraceInit /\ [][TraceNext]_tvars
TraceAccepted == LET d == TLCGet("stats").diameter IN
                 IF d - 1 = Len(Rec) THEN TRUE ELSE Print(<<"TRACE NOT CONSUMED", d, Len(Rec)>>, FALSE)
=============================================================================
