SPECIFICATION BSpec
CONSTANTS
  Steps = {0, 1, 2, 3, 7}
  Factors = {0, 1, 2, 3, 10}
  Attempts = {0, 1, 2, 3, 6}
  Caps = {0, 1, 5, 20}
INVARIANTS Inv_Count Inv_Numbered Inv_Clamped Inv_Law EmitCase
CHECK_DEADLOCK FALSE
