----------------------------- MODULE ReqRepGen -----------------------------
(***************************************************************************)
(* Schedule generator for the request/reply router: ReqRepRouter plus a   *)
(* history variable recording environment steps and outer polls.  One     *)
(* JSON schedule is printed per terminal state.                           *)
(***************************************************************************)
EXTENDS ReqRepRouter, Json

CONSTANT MaxEnv
VARIABLES sched, nenv
gvars == <<vars, sched, nenv>>

St(op, id, which, arg, role) == [op |-> op, id |-> id, which |-> which, arg |-> arg, role |-> role]

GenInit == Init /\ sched = <<>> /\ nenv = 0

Env(a, rec) == /\ nenv < MaxEnv
               /\ Wrap(a)
               /\ sched' = Append(sched, rec)
               /\ nenv' = nenv + 1

GenNext ==
    \/ StartPoll /\ ahead' = 0 /\ sched' = Append(sched, St("poll", 0, "", 0, "")) /\ nenv' = nenv
    \/ /\ \/ StepA \/ StepA2 \/ StepB \/ StepB2 \/ StepC \/ StepD \/ StepDend
          \/ StepFlush \/ StepE \/ StepErdy \/ StepEsend \/ StepF \/ StepFpoll
          \/ StepFend2 \/ StepG \/ StepGend2
       /\ UNCHANGED <<ahead, sched, nenv>>
    \/ \E c \in Cls :
          \/ Env(RegisterCl(c), St("reg_cl", c, "", 0, ""))
          \/ Env(Request(c, TRUE), St("request", c, "forged", 1, ""))
          \/ Env(Request(c, FALSE), St("request", c, "none", 0, ""))
          \/ Env(Junk(c), St("junk", c, "", 0, ""))
          \/ Env(ClEnds(c), St("cl_end", c, "", 0, ""))
          \/ Env(ClErrs(c), St("cl_err", c, "", 0, ""))
    \/ \E r \in Rps :
          \/ Env(RegisterSv(r), St("reg_sv", r, "", 0, ""))
          \/ Env(SvEnds(r), St("sv_end", r, "", 0, ""))
          \/ Env(SvErrs(r), St("sv_err", r, "", 0, ""))
          \/ Env(SvBreaks(r), St("break_sv", r, "", 0, ""))
    \/ \E r \in Rps, i \in 1..(MaxReqs * Cardinality(Cls)) : Env(Reply(r, i), St("reply", r, "", i, ""))
    \/ \E r \in Rps, t \in {"missing", "unknown", "malformed", "junk"} :
          Env(BadReply(r, t), St("bad_reply", r, t, 0, ""))
    \/ \E c \in Cls, w \in {"ready", "flush"} :
          \/ Env(ClBlocks(c, w), St("block", c, w, 0, "cl"))
          \/ Env(ClUnblocks(c, w), St("unblock", c, w, 0, "cl"))
    \/ \E r \in Rps, w \in {"ready", "flush"} :
          \/ Env(SvBlocks(r, w), St("block", r, w, 0, "sv"))
          \/ Env(SvUnblocks(r, w), St("unblock", r, w, 0, "sv"))
    \/ \E c \in Cls, op \in {"ready", "send", "flush"} : Env(ClBreaks(c, op), St("break_cl", c, op, 0, ""))
    \/ Env(CloseChannel, St("close", 0, "", 0, ""))

GenSpec == GenInit /\ [][GenNext]_gvars

Terminal == \/ s.pc \in {"done", "panic"}
            \/ s.pc = "idle" /\ ~s.woken /\ nenv = MaxEnv

GenEmit == Terminal => PrintT(<<"SCHED", ToJson(sched)>>)
=============================================================================
