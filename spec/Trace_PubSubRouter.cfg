SPECIFICATION TraceSpec
CONSTANTS
  Pubs <- TPubs
  Subs <- TSubs
  MaxItems = 100000
  MaxBlocks = 100000
  MaxBreaks = 100000
  MaxErrs = 100000
  AllowClose = TRUE
  FixD1 = TRUE
  FixD2 = TRUE
  FixD6 = TRUE
POSTCONDITION TraceAccepted
CHECK_DEADLOCK FALSE
