--------------------------- MODULE Trace_Pipeline ---------------------------
(* Trace validation of the real codecs / compressors against Pipeline.tla: *)
(* the wire composition executed on the real implementations must return   *)
(* exactly the values that went in; invalid bytes must be errors.           *)
EXTENDS Pipeline, IOUtils
Rec == ndJsonDeserialize(IOEnv.TRACE)
VARIABLES l, nviol
tvars == <<case, l, nviol>>
TraceInit == case = [algo |-> "none", level |-> Lvl("default", 0), payload |-> "empty", codec |-> "bytes", batch |-> 0, history |-> "fresh"]
             /\ l = 1 /\ nviol = 0
Flag(k, kind) == PrintT(<<"VIOL", k, l, {"C14"}, kind>>) /\ nviol' = nviol + 1
Check(e) ==
    CASE e.ev = "roundtrip" ->
            IF e.res = "eq" /\ e.n = (IF e.batch = 0 THEN 1 ELSE e.batch) THEN nviol' = nviol
            ELSE Flag(e.case, e.algo \o "_" \o e.level \o "_" \o e.payload \o "_" \o e.codec \o "_" \o e.history \o "_roundtrip_" \o e.res)
      [] e.ev = "invalid" ->
            \* bytes that are not valid for the codec / decompressor: error, never a value
            IF e.res = "err" THEN nviol' = nviol
            ELSE IF e.must_err THEN Flag(e.case, e.what \o "_invalid_input_" \o e.res)
            ELSE IF e.res = "panic" THEN Flag(e.case, e.what \o "_invalid_input_panic")
            ELSE nviol' = nviol
      [] OTHER -> nviol' = nviol
TraceNext == /\ l <= Len(Rec) /\ l' = l + 1 /\ UNCHANGED case /\ Check(Rec[l])
TraceSpec == TraceInit /\ [][TraceNext]_tvars
TraceAccepted == LET d == TLCGet("stats").diameter IN
                 IF d - 1 = Len(Rec) THEN TRUE ELSE Print(<<"TRACE NOT CONSUMED", d, Len(Rec)>>, FALSE)
=============================================================================
