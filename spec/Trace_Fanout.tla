---------------------------- MODULE Trace_Fanout ----------------------------
(***************************************************************************)
(* System-level trace validation for C01: real Publishers and Subscribers  *)
(* on one topic of the real server (harness: e2e fanout, schedules from    *)
(* PubSubGen) against the obligations of PubSubIface, stated per           *)
(* (subscriber, publisher): what a subscriber receives from one publisher  *)
(* is a contiguous, increasing run of that publisher's items; everything   *)
(* published after the subscriber's registration is known to have been     *)
(* processed (its sync point) is received; nothing stops short of the      *)
(* publisher's last item.                                                  *)
(***************************************************************************)
EXTENDS Naturals, Sequences, FiniteSets, TLC, Json, IOUtils
Rec == ndJsonDeserialize(IOEnv.TRACE)
Ids == 0..16

VARIABLES l, skip, run, nviol,
          sentc,    \* [Ids -> Nat] items published by publisher p so far
          pos,      \* [Ids -> [Ids -> Nat]] last item of p received by s (0 = none yet)
          first,    \* [Ids -> [Ids -> Nat]] first item of p received by s (0 = none yet)
          snap,     \* [Ids -> [Ids -> Nat]] sentc at s's sync point
          state     \* [Ids -> {"no","syncing","live","left"}]
tvars == <<l, skip, run, nviol, sentc, pos, first, snap, state>>
Z == [p \in Ids |-> 0]
ZZ == [s \in Ids |-> Z]
TraceInit == l = 1 /\ skip = TRUE /\ run = 0 /\ nviol = 0 /\ sentc = Z /\ pos = ZZ /\ first = ZZ /\ snap = ZZ
             /\ state = [s \in Ids |-> "no"]
Flag(kind) == /\ PrintT(<<"VIOL", run, l, {"C01"}, kind>>)
              /\ skip' = TRUE /\ nviol' = nviol + 1 /\ UNCHANGED <<run, sentc, pos, first, snap, state>>
Note(what) == /\ PrintT(<<"NOTE", run, l, what>>)
              /\ skip' = TRUE /\ UNCHANGED <<run, nviol, sentc, pos, first, snap, state>>
Stutter == UNCHANGED <<skip, run, nviol, sentc, pos, first, snap, state>>
RECURSIVE MapOf(_, _)
MapOf(pairs, m) == IF pairs = <<>> THEN m ELSE MapOf(Tail(pairs), [m EXCEPT ![Head(pairs)[1]] = Head(pairs)[2]])

\* what a live subscriber must have at the end, per publisher
Short(s) == {p \in Ids : sentc[p] > 0 /\
                 \/ (sentc[p] > snap[s][p] /\ (pos[s][p] # sentc[p] \/ first[s][p] > snap[s][p] + 1))
                 \/ (pos[s][p] # 0 /\ pos[s][p] # sentc[p])}

Step(e) ==
    CASE e.ev = "published" ->
            sentc' = [sentc EXCEPT ![e.pub] = e.n] /\ UNCHANGED <<skip, run, nviol, pos, first, snap, state>>
      [] e.ev = "reg" /\ e.kind = "sub" ->
            state' = [state EXCEPT ![e.id] = "syncing"] /\ UNCHANGED <<skip, run, nviol, sentc, pos, first, snap>>
      [] e.ev = "sub_item" ->
            IF e.pub \notin Ids THEN Flag("subscriber_stream_ended_or_failed")
            ELSE IF e.n > sentc[e.pub] THEN Flag("item_never_published")
            ELSE IF pos[e.sub][e.pub] = 0
            THEN /\ pos' = [pos EXCEPT ![e.sub][e.pub] = e.n]
                 /\ first' = [first EXCEPT ![e.sub][e.pub] = e.n]
                 /\ UNCHANGED <<skip, run, nviol, sentc, snap, state>>
            ELSE IF e.n = pos[e.sub][e.pub] + 1
            THEN pos' = [pos EXCEPT ![e.sub][e.pub] = e.n] /\ UNCHANGED <<skip, run, nviol, sentc, first, snap, state>>
            ELSE Flag(IF e.n <= pos[e.sub][e.pub] THEN "item_duplicated_or_reordered" ELSE "item_skipped")
      [] e.ev = "synced" ->
            IF ~e.ok THEN Flag("subscription_never_took_effect")
            ELSE /\ snap' = [snap EXCEPT ![e.sub] = MapOf(e.sent, Z)]
                 /\ state' = [state EXCEPT ![e.sub] = "live"]
                 /\ UNCHANGED <<skip, run, nviol, sentc, pos, first>>
      [] e.ev = "left" ->
            state' = [state EXCEPT ![e.sub] = "left"] /\ UNCHANGED <<skip, run, nviol, sentc, pos, first, snap>>
      [] e.ev = "sub_done" ->
            IF state[e.sub] = "live" /\ Short(e.sub) # {}
            THEN Flag("accepted_items_not_delivered_to_registered_subscriber")
            ELSE Stutter
      [] e.ev = "finished" -> IF e.res = "ok" THEN Stutter ELSE Note("publisher_finish_failed")
      [] e.ev = "publish_failed" -> Note("publish_failed")
      [] e.ev = "harness_error" -> Note("harness_error")
      [] OTHER -> Stutter
NewCase(e) == /\ skip' = FALSE /\ run' = e.run /\ nviol' = nviol /\ sentc' = Z /\ pos' = ZZ /\ first' = ZZ /\ snap' = ZZ
              /\ state' = [s \in Ids |-> "no"]
TraceNext == /\ l <= Len(Rec) /\ l' = l + 1
             /\ LET e == Rec[l] IN IF e.ev = "case" THEN NewCase(e) ELSE IF skip THEN Stutter ELSE Step(e)
TraceSpec == TraceInit /\ [][TraceNext]_tvars
TraceAccepted == LET d == TLCGet("stats").diameter IN
                 IF d - 1 = Len(Rec) THEN TRUE ELSE Print(<<"TRACE NOT CONSUMED", d, Len(Rec)>>, FALSE)
=============================================================================
