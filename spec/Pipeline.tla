------------------------------ MODULE Pipeline ------------------------------
(***************************************************************************)
(* The payload pipeline of the client library as a composition of stages  *)
(*   encode -> [batch] -> [compress]  ...  [decompress] -> [unbatch] -> decode *)
(* Each stage is a partial function on abstract payloads; the wire         *)
(* composition must be the identity on every value, and bytes that are not *)
(* valid for a codec must surface as an error, never as a value.  The      *)
(* module enumerates the configuration lattice for the conformance run.    *)
(***************************************************************************)
EXTENDS Naturals, Sequences, FiniteSets, TLC, Json

Presets == {"fastest", "balanced", "highest"}
LevelsOf(a) == CASE a \in {"gzip", "zlib"} -> 0..9
                 [] a = "zstd" -> 1..22
                 [] a \in {"brotli_generic", "brotli_text", "brotli_font"} -> 0..11
                 [] OTHER -> {}
Algos == {"none", "gzip", "zlib", "zstd", "lz4", "brotli_generic", "brotli_text", "brotli_font"}
HasLevels(a) == a \notin {"none", "lz4"}
\* "own_frame": the payload is itself a frame of the algorithm in use (a pre-compressed blob);
\* "magic_prefix": it merely starts with the magic bytes of every format; "repetitive_3m": far beyond the
\* frame limit before compression, tiny after it (the limit applies to what goes on the wire)
Payloads == {"empty", "one_byte", "incompressible_4k", "repetitive_64k", "repetitive_512k", "text_8k", "under_limit",
             "own_frame", "magic_prefix", "repetitive_3m",
             \* text whose first or last characters a reader might be tempted to treat as not being text: a byte
             \* order mark, NUL, white space, line ends, combining marks, noncharacters -- all of them valid UTF-8
             "text_edge", "bom_text"}     \* bom_text: always starts with U+FEFF
SmallPayloads == {"empty", "one_byte", "incompressible_4k", "text_8k", "text_edge", "bom_text"}
Codecs == {"string", "bytes", "bincode"}
Batching == {0, 3}
\* what the same compressor / decompressor / codec objects processed before the value under test (a
\* subscriber keeps one decompressor for the life of its stream): the stages are functions, so the
\* history must not matter
Histories == {"fresh", "after_valid", "after_damaged", "after_truncated", "after_foreign"}

\* abstract semantics: a payload is a token; every stage wraps / unwraps it
Enc(c, v) == <<"enc", c, v>>
Dec(c, w) == IF w[1] = "enc" /\ w[2] = c THEN w[3] ELSE "ERR"
Bat(n, w) == IF n = 0 THEN w ELSE <<"batch", [i \in 1..n |-> w]>>
Unb(n, w) == IF n = 0 THEN <<w>> ELSE IF w[1] = "batch" THEN w[2] ELSE <<"ERR">>
Cmp(a, w) == IF a = "none" THEN w ELSE <<"z", a, w>>
Dcm(a, w) == IF a = "none" THEN w ELSE IF w[1] = "z" /\ w[2] = a THEN w[3] ELSE "ERR"

Wire(c) == Cmp(c.algo, Bat(c.batch, Enc(c.codec, c.payload)))
Back(c, w) == LET u == Unb(c.batch, Dcm(c.algo, w)) IN [i \in 1..Len(u) |-> Dec(c.codec, u[i])]
Expected(c) == IF c.batch = 0 THEN <<c.payload>> ELSE [i \in 1..c.batch |-> c.payload]

Lvl(kind, n) == [kind |-> kind, n |-> n]
Base ==
    {[algo |-> a, level |-> Lvl("preset_" \o p, 0), payload |-> pl, codec |-> c, batch |-> b] :
        a \in {x \in Algos : HasLevels(x)}, p \in Presets, pl \in Payloads, c \in Codecs, b \in Batching}
    \cup {[algo |-> a, level |-> Lvl("explicit", n), payload |-> pl, codec |-> "bytes", batch |-> b] :
        a \in {x \in Algos : HasLevels(x)}, n \in 0..22, pl \in SmallPayloads \cup {"repetitive_64k"}, b \in Batching}
    \cup {[algo |-> a, level |-> Lvl("default", 0), payload |-> pl, codec |-> c, batch |-> b] :
        a \in {"none", "lz4"}, pl \in Payloads, c \in Codecs, b \in Batching}
WithHistory(c, h) == [algo |-> c.algo, level |-> c.level, payload |-> c.payload, codec |-> c.codec, batch |-> c.batch, history |-> h]
Configs == {WithHistory(c, "fresh") : c \in Base}
           \cup {WithHistory(c, h) : c \in {x \in Base : x.payload \in SmallPayloads /\ x.level.kind # "explicit"}, h \in Histories \ {"fresh"}}
\* the three special payload classes make sense with a compressor only; the 3 MiB one goes unbatched through the bytes codec
Sensible(c) == /\ (c.payload \in {"own_frame", "magic_prefix", "repetitive_3m"} => c.algo # "none")
               /\ (c.payload = "repetitive_3m" => c.codec = "bytes" /\ c.batch = 0 /\ c.level.kind # "explicit")
Cases == {c \in Configs : (c.level.kind # "explicit" \/ c.level.n \in LevelsOf(c.algo)) /\ Sensible(c)}

VARIABLE case
PInit == case \in Cases
PNext == UNCHANGED case
PSpec == PInit /\ [][PNext]_case
\* C14 on the abstract pipeline: the wire composition is the identity (whatever the objects saw before:
\* the stage functions take no history argument)
Inv_Lossless == Back(case, Wire(case)) = Expected(case)
\* a decompressor / decoder applied to something else reports an error
Inv_Mismatch == \A a \in Algos \ {case.algo, "none"} : case.algo # "none" => Dcm(a, Cmp(case.algo, "x")) = "ERR"
EmitCase == PrintT(<<"CASE", ToJson(case)>>)
=============================================================================
