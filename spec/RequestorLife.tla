---------------------------- MODULE RequestorLife ----------------------------
(***************************************************************************)
(* Life of requestor handles across clones, outages and successors         *)
(* (client/src/streams/request_reply/requestor.rs, keep_alive/reqrep.rs,   *)
(* protocol/src/request_id.rs, and the id assignment in                    *)
(* server/src/topic/reqrep.rs).                                            *)
(*                                                                         *)
(* A requestor object ("family") owns a request-id counter and a table of  *)
(* pending requests; its clones share both, and at first also the one      *)
(* stream the object opened.  After the connection was lost every clone    *)
(* recovers lazily and on its own: it opens a new stream (the server gives *)
(* it a new routing id), starts a reply reader for it and keeps using the  *)
(* shared table.  Families live on client connections of their own, side   *)
(* by side or one after the other (a successor's counter starts again at   *)
(* 0), so request ids of different families collide as a matter of course. *)
(* The replier sees every request with the routing id the server stamped   *)
(* on it and may answer at any time, also after the asker has timed out,   *)
(* lost its connection or gone.                                            *)
(* Named deviations (TRUE = the code):                                     *)
(*   CidNeverReused        the server never hands out a routing id twice   *)
(*   ReconnectKeepsPending a clone's recovery leaves the shared table alone*)
(***************************************************************************)
EXTENDS Naturals, Sequences, FiniteSets, TLC

CONSTANTS Families,        \* requestor objects, each on a client connection of its own
          Clones,          \* clone names of every family
          MaxCalls, MaxCuts,
          CidNeverReused, ReconnectKeepsPending

VARIABLES conn,      \* [Families -> Nat] generation of the family's client connection
          connUp,    \* [Families -> BOOLEAN] that connection object is alive (open() itself never re-dials)
          live,      \* [Families -> "unopened" | "open" | "dropped"]
          sgen,      \* [Families -> [Clones -> Nat]] generation of the stream the clone uses
          scid,      \* [Families -> [Clones -> Nat]] routing id of that stream
          srvNext,   \* server: next routing id
          srvLive,   \* server: routing ids of the requestor streams it still holds
          pending,   \* [Families -> set of <<req_id, call>>]
          nextReq,   \* [Families -> Nat]
          atRep,     \* requests the replier holds: records [cid, rid, call]
          calls,     \* [1..ncalls -> [f, c, status, got]]
          ncalls, ncuts
rvars == <<conn, connUp, live, sgen, scid, srvNext, srvLive, pending, nextReq, atRep, calls, ncalls, ncuts>>

RInit == /\ conn = [f \in Families |-> 1] /\ connUp = [f \in Families |-> TRUE]
         /\ live = [f \in Families |-> "unopened"]
         /\ sgen = [f \in Families |-> [c \in Clones |-> 0]]
         /\ scid = [f \in Families |-> [c \in Clones |-> 0]]
         /\ srvNext = 0 /\ srvLive = {}
         /\ pending = [f \in Families |-> {}]
         /\ nextReq = [f \in Families |-> 0]
         /\ atRep = {} /\ calls = <<>> /\ ncalls = 0 /\ ncuts = 0

Waiting(f) == {k \in 1..ncalls : calls[k].f = f /\ calls[k].status = "waiting"}

\* Requestor::spawn: one stream, shared by all clones
Open(f) ==
    /\ connUp[f] /\ live[f] = "unopened"
    /\ live' = [live EXCEPT ![f] = "open"]
    /\ sgen' = [sgen EXCEPT ![f] = [c \in Clones |-> conn[f]]]
    /\ scid' = [scid EXCEPT ![f] = [c \in Clones |-> srvNext]]
    /\ srvLive' = srvLive \cup {srvNext} /\ srvNext' = srvNext + 1
    /\ UNCHANGED <<conn, connUp, pending, nextReq, atRep, calls, ncalls, ncuts>>

\* request() on clone c; a clone whose stream belongs to a lost connection recovers first
Request(f, c) ==
    /\ live[f] = "open" /\ ncalls < MaxCalls
    /\ LET stale == sgen[f][c] < conn[f]
           cid == IF stale THEN srvNext ELSE scid[f][c]
           keep == IF stale /\ ~ReconnectKeepsPending THEN {} ELSE pending[f]
           k == ncalls + 1 IN
       /\ sgen' = [sgen EXCEPT ![f][c] = conn[f]]
       /\ scid' = [scid EXCEPT ![f][c] = cid]
       /\ srvNext' = IF stale THEN srvNext + 1 ELSE srvNext
       /\ srvLive' = IF stale THEN srvLive \cup {cid} ELSE srvLive
       /\ pending' = [pending EXCEPT ![f] = keep \cup {<<nextReq[f], k>>}]
       /\ nextReq' = [nextReq EXCEPT ![f] = @ + 1]
       /\ atRep' = atRep \cup {[cid |-> cid, rid |-> nextReq[f], call |-> k]}
       \* calls whose table entry was thrown away fail at once (their oneshot sender is dropped)
       /\ calls' = [j \in 1..k |->
                      IF j = k THEN [f |-> f, c |-> c, status |-> "waiting", got |-> 0]
                      ELSE IF calls[j].f = f /\ calls[j].status = "waiting" /\ ~(\E p \in keep : p[2] = j)
                           THEN [calls[j] EXCEPT !.status = "failed"] ELSE calls[j]]
       /\ ncalls' = k
    /\ connUp' = [connUp EXCEPT ![f] = TRUE]          \* a recovering clone re-dials if nobody has yet
    /\ UNCHANGED <<conn, live, ncuts>>

\* the replier answers request x; the server routes by routing id, the reader by request id
Answer(x) ==
    /\ x \in atRep
    /\ atRep' = atRep \ {x}
    /\ LET owners == {o \in Families \X Clones : live[o[1]] = "open" /\ sgen[o[1]][o[2]] = conn[o[1]] /\ scid[o[1]][o[2]] = x.cid} IN
       IF x.cid \in srvLive /\ owners # {}
       THEN LET f == (CHOOSE o \in owners : TRUE)[1]
                hit == {p \in pending[f] : p[1] = x.rid} IN
            IF hit # {}
            THEN LET k == (CHOOSE p \in hit : TRUE)[2] IN
                 /\ pending' = [pending EXCEPT ![f] = @ \ hit]
                 /\ calls' = IF calls[k].status = "waiting"
                             THEN [calls EXCEPT ![k] = [@ EXCEPT !.status = "ok", !.got = x.call]]
                             ELSE calls              \* a late reply: its receiver is gone
            ELSE UNCHANGED <<pending, calls>>
       ELSE UNCHANGED <<pending, calls>>             \* unknown routing id: discarded by the server
    /\ UNCHANGED <<conn, connUp, live, sgen, scid, srvNext, srvLive, nextReq, ncalls, ncuts>>

\* the request timeout fires (the table entry stays until a late reply removes it); all calls have the
\* same timeout, so an earlier call never outlasts a later one
Timeout(k) ==
    /\ k \in 1..ncalls /\ calls[k].status = "waiting"
    /\ \A j \in 1..(k - 1) : calls[j].status # "waiting"
    /\ calls' = [calls EXCEPT ![k] = [@ EXCEPT !.status = "timeout"]]
    /\ UNCHANGED <<conn, connUp, live, sgen, scid, srvNext, srvLive, pending, nextReq, atRep, ncalls, ncuts>>

ServerForgets(ids) ==
    /\ srvLive' = srvLive \ ids
    /\ srvNext' = IF ~CidNeverReused /\ srvLive \ ids = {} THEN 0 ELSE srvNext

\* family f's connection is lost (the server stays up and sees every requestor stream of it end)
Cut(f) == /\ ncuts < MaxCuts /\ live[f] = "open"
          /\ conn' = [conn EXCEPT ![f] = @ + 1] /\ ncuts' = ncuts + 1 /\ connUp' = [connUp EXCEPT ![f] = FALSE]
          /\ ServerForgets({scid[f][c] : c \in Clones})
          /\ UNCHANGED <<live, sgen, scid, pending, nextReq, atRep, calls, ncalls>>

\* all handles of the family are dropped (none of its calls is waiting)
Drop(f) == /\ live[f] = "open" /\ Waiting(f) = {}
           /\ live' = [live EXCEPT ![f] = "dropped"]
           /\ ServerForgets({scid[f][c] : c \in Clones})
           /\ UNCHANGED <<conn, connUp, sgen, scid, pending, nextReq, atRep, calls, ncalls, ncuts>>

RNext == \/ \E f \in Families : Open(f) \/ Drop(f) \/ \E c \in Clones : Request(f, c)
         \/ \E x \in atRep : Answer(x)
         \/ \E k \in 1..ncalls : Timeout(k)
         \/ \E f \in Families : Cut(f)
RSpec == RInit /\ [][RNext]_rvars

\* C04: a request() that returns Ok returns the reply produced for exactly that request
Inv_OwnReply == \A k \in 1..ncalls : calls[k].status = "ok" => calls[k].got = k
\* C12: a request issued on a working (or recovered) stream is never failed by another clone's recovery
Inv_NoCollateralFailure == \A k \in 1..ncalls : calls[k].status # "failed"
\* the server's side of C04 (anchor: next_id never reused): two live streams never share a routing id,
\* and a routing id still referred to by a held request is never given to somebody else
Inv_CidUnique ==
    \A f1, f2 \in Families : \A c1, c2 \in Clones :
        (live[f1] = "open" /\ live[f2] = "open" /\ sgen[f1][c1] = conn[f1] /\ sgen[f2][c2] = conn[f2]
         /\ scid[f1][c1] = scid[f2][c2]) => f1 = f2
=============================================================================
