SPECIFICATION PSpec
INVARIANTS Inv_Lossless Inv_Mismatch EmitCase
CHECK_DEADLOCK FALSE
