------------------------ MODULE Trace_ReqRepRouter ------------------------
(***************************************************************************)
(* Layer A trace validation (drift check) for the request/reply router:    *)
(* the real reqrep::Topic future must poll its children in exactly the     *)
(* order, and with exactly the results, that ReqRepRouter predicts.  The   *)
(* router's actions are reused unchanged (the nondeterministic picks --    *)
(* HashMap visiting order, StreamMap start index -- are fixed from the     *)
(* recorded event); steps that poll no child are silent.  A mismatch is    *)
(* DRIFT, never a verdict.                                                  *)
(***************************************************************************)
EXTENDS ReqRepRouter, Json, IOUtils

Rec == ndJsonDeserialize(IOEnv.TRACE)
TCls == 0..8
TRps == 0..8

VARIABLES l, skip, run, ndrift
tvars == <<vars, l, skip, run, ndrift>>

TInit == Init /\ l = 1 /\ skip = FALSE /\ run = 0 /\ ndrift = 0 /\ TLCSet(1, FALSE)

Keep == UNCHANGED <<skip, run, ndrift, ahead>>
Drift(what) == /\ PrintT(<<"DRIFT", run, l, what>>)
               /\ skip' = TRUE /\ ndrift' = ndrift + 1 /\ l' = l + 1 /\ run' = run
               /\ UNCHANGED vars
Consume == l' = l + 1 /\ UNCHANGED <<vars, skip, run, ndrift>>

\* the initial values, for `reset`
S0 == [ chan |-> <<>>, closed |-> FALSE, chanWk |-> FALSE,
        server |-> 0, streams |-> <<>>, rsinks |-> {},
        bufReq |-> None, bufRep |-> None, bufErr |-> None,
        pc |-> "idle", idx |-> 0, cap |-> 0, start |-> 0, ret |-> "park", todo |-> {},
        srvPend |-> FALSE, strPend |-> FALSE,
        cq |-> [c \in Cls |-> <<>>], cend |-> [c \in Cls |-> FALSE],
        cerr |-> [c \in Cls |-> FALSE], cwk |-> [c \in Cls |-> FALSE], cpub |-> [c \in Cls |-> 0],
        crdy |-> [c \in Cls |-> TRUE], cflu |-> [c \in Cls |-> TRUE],
        cbrk |-> [c \in Cls |-> "no"], cswk |-> [c \in Cls |-> FALSE], cflushed |-> [c \in Cls |-> 0],
        rq |-> [r \in Rps |-> <<>>], rend |-> [r \in Rps |-> FALSE],
        rerr |-> [r \in Rps |-> FALSE], rwk |-> [r \in Rps |-> FALSE], answered |-> [r \in Rps |-> {}],
        rrdy |-> [r \in Rps |-> TRUE], rflu |-> [r \in Rps |-> TRUE],
        rbrk |-> [r \in Rps |-> FALSE], rswk |-> [r \in Rps |-> FALSE], rflushed |-> [r \in Rps |-> 0],
        woken |-> TRUE,
        nBlk |-> MaxBlocks, nBrk |-> MaxBreaks, nErr |-> MaxErrs, nBad |-> MaxBad, nJunk |-> MaxJunk, nBig |-> MaxBig ]
H0 == [ taken |-> [c \in Cls |-> <<>>], undel |-> <<>>,
        rgot |-> [r \in Rps |-> <<>>], rstat |-> [r \in Rps |-> "no"],
        rhealthy |-> [r \in Rps |-> TRUE], emitted |-> <<>>,
        crecv |-> [c \in Cls |-> <<>>], cstat |-> [c \in Cls |-> "no"],
        chealthy |-> [c \in Cls |-> TRUE], rej |-> [r \in Rps |-> <<>>], lost |-> {} ]

ResetAll(e) == /\ s' = S0 /\ h' = H0 /\ ahead' = 0
               /\ skip' = FALSE /\ run' = e.run /\ ndrift' = ndrift /\ l' = l + 1

RRes(r) == IF s.rbrk[r] THEN "err" ELSE IF s.rrdy[r] THEN "ok" ELSE "pending"
RFlu(r) == IF s.rbrk[r] THEN "err" ELSE IF s.rflu[r] THEN "ok" ELSE "pending"
CRes(c) == IF s.cbrk[c] = "ready" THEN "err" ELSE IF s.crdy[c] THEN "ok" ELSE "pending"
CFlu(c) == IF s.cbrk[c] = "flush" THEN "err" ELSE IF s.cflu[c] THEN "ok" ELSE "pending"

RepDeliverable == s.bufRep[3] = "ok" /\ s.bufRep[1] \in s.rsinks

\* the router step at this control point polls no child
SilentHere ==
    \/ s.pc = "A" /\ ~(s.bufReq # None /\ s.server # 0)
    \/ s.pc = "B" /\ s.bufErr = None
    \/ s.pc = "C" /\ s.chan = <<>>
    \/ s.pc = "D" /\ (s.server = 0 \/ (FixD3 /\ s.bufRep # None))
    \/ s.pc = "flush" /\ s.todo = {}
    \/ s.pc = "E"
    \/ s.pc = "Erdy" /\ s.todo = {}
    \/ s.pc = "Esend" /\ ~RepDeliverable
    \/ s.pc = "F" /\ s.streams = <<>>
    \/ s.pc = "Fpoll" /\ s.cap = 0
    \/ s.pc = "Fpoll" /\ s.cap > 0
          /\ LET c == At(s.streams, s.idx) IN
             ~s.cerr[c] /\ s.cq[c] # <<>> /\ Head(s.cq[c])[1] = "req" /\ s.bufReq # None   \* modelling split
    \/ s.pc = "G"

\* does the recorded event e describe the child operation performed at this control point
Matches(e) ==
    CASE s.pc = "A" -> e.ev = "si_ready" /\ e.role = "sv" /\ e.id = s.server /\ e.res = RRes(s.server)
      [] s.pc = "A2" -> e.ev = "si_send" /\ e.role = "sv" /\ e.id = s.server /\ e.what = "req"
                          /\ e.item = <<s.bufReq[1], s.bufReq[2]>> /\ e.res = (IF s.bufReq[3] THEN "ok" ELSE "err")
      [] s.pc = "B" -> IF s.bufErr[1] = "err"
                       THEN e.ev = "si_ready" /\ e.role = "sv" /\ e.id = s.bufErr[2] /\ e.res = RRes(s.bufErr[2])
                       ELSE e.ev = "si_close" /\ e.role = "sv" /\ e.id = s.bufErr[2] /\ e.res = RFlu(s.bufErr[2])
      [] s.pc = "B2" -> e.ev = "si_send" /\ e.role = "sv" /\ e.id = s.bufErr[2] /\ e.what = "error"
      [] s.pc = "C" -> LET k == Head(s.chan) IN
                       IF k[1] = "cl" THEN e.ev = "adopt" /\ e.id = k[2]
                       ELSE IF s.server # 0 THEN e.ev = "reject" /\ e.id = k[2]
                       ELSE e.ev = "bind" /\ e.id = k[2]
      [] s.pc = "D" -> LET r == s.server IN
                       e.ev = "st_poll" /\ e.role = "sv" /\ e.id = r
                       /\ e.res = (IF s.rerr[r] THEN "err" ELSE IF s.rq[r] # <<>> THEN "item" ELSE IF s.rend[r] THEN "end" ELSE "pending")
                       /\ (e.res = "item" => <<e.item[1], e.item[2], e.tag>> = Head(s.rq[r]))
      [] s.pc \in {"Dend", "Fend2", "Gend2"} ->
                       e.ev = "si_flush" /\ e.role = "sv" /\ e.id = s.server /\ e.res = RFlu(s.server)
      [] s.pc = "flush" -> e.ev = "si_flush" /\ e.role = "cl" /\ e.id \in s.todo /\ e.res = CFlu(e.id)
      [] s.pc = "Erdy" -> e.ev = "si_ready" /\ e.role = "cl" /\ e.id \in s.todo /\ e.res = CRes(e.id)
      [] s.pc = "Esend" -> e.ev = "si_send" /\ e.role = "cl" /\ e.id = s.bufRep[1] /\ e.what = "rep"
                            /\ e.item = <<s.bufRep[1], s.bufRep[2]>>
                            /\ e.res = (IF s.cbrk[s.bufRep[1]] = "send" THEN "err" ELSE "ok")
      [] s.pc = "Fpoll" -> LET c == At(s.streams, s.idx) IN
                           e.ev = "st_poll" /\ e.role = "cl" /\ e.id = c
                           /\ e.res = (IF s.cerr[c] THEN "err" ELSE IF s.cq[c] # <<>> THEN "item" ELSE IF s.cend[c] THEN "end" ELSE "pending")
                           /\ (e.res = "item" => (IF Head(s.cq[c])[1] = "junk" THEN e.what = "junk"
                                                  ELSE e.what = "req" /\ e.item = <<c, Head(s.cq[c])[2]>>))
      [] OTHER -> FALSE

\* the router step, with the nondeterministic picks fixed from the event
Step(e) ==
    CASE s.pc = "flush" /\ s.todo # {} -> FlushOn(e.id)
      [] s.pc = "Erdy" /\ s.todo # {} -> ReadyOn(e.id)
      [] OTHER -> StepA \/ StepA2 \/ StepB \/ StepB2 \/ StepC \/ StepD \/ StepDend \/ StepFlush \/ StepE
                    \/ StepErdy \/ StepEsend \/ StepF \/ StepFpoll \/ StepFend2 \/ StepG \/ StepGend2

InPoll2 == s.pc \notin {"idle", "done", "panic"}

\* environment events recorded by the harness
FireChan(st) == WakeChan(st)
EnvGuard(e) ==
    IF e.ev # "env" THEN TRUE
    ELSE CASE e.what \in {"request", "junk", "cl_end", "cl_err"} -> e.fired = s.cwk[e.id]
           [] e.what \in {"reply", "bad_reply", "sv_end", "sv_err"} -> e.fired = s.rwk[e.id]
           [] e.what = "unblock" -> e.fired = (IF e.role = "cl" THEN s.cswk[e.id] ELSE s.rswk[e.id])
           [] e.what = "break_cl" -> e.fired = s.cswk[e.id]
           [] e.what = "break_sv" -> e.fired = s.rswk[e.id]
           [] OTHER -> TRUE

EnvEvent(e) ==
    CASE e.ev = "reg" /\ e.kind = "cl" ->
            s' = FireChan([s EXCEPT !.chan = Append(@, <<"cl", e.id>>)]) /\ h' = [h EXCEPT !.cstat[e.id] = "queued"]
      [] e.ev = "reg" /\ e.kind = "sv" ->
            s' = FireChan([s EXCEPT !.chan = Append(@, <<"sv", e.id>>)]) /\ h' = [h EXCEPT !.rstat[e.id] = "queued"]
      [] e.ev = "env" /\ e.what = "request" ->
            s' = WakeCl([s EXCEPT !.cq[e.id] = Append(@, <<"req", e.item[2], e.fits>>), !.cpub[e.id] = @ + 1], e.id) /\ h' = h
      [] e.ev = "env" /\ e.what = "junk" ->
            s' = WakeCl([s EXCEPT !.cq[e.id] = Append(@, <<"junk">>)], e.id) /\ h' = h
      [] e.ev = "env" /\ e.what = "cl_end" -> s' = WakeCl([s EXCEPT !.cend[e.id] = TRUE], e.id) /\ h' = h
      [] e.ev = "env" /\ e.what = "cl_err" -> s' = WakeCl([s EXCEPT !.cerr[e.id] = TRUE], e.id) /\ h' = h
      [] e.ev = "env" /\ e.what \in {"reply", "bad_reply"} ->
            s' = WakeRp([s EXCEPT !.rq[e.id] = Append(@, <<e.item[1], e.item[2], e.tag>>)], e.id) /\ h' = h
      [] e.ev = "env" /\ e.what = "sv_end" -> s' = WakeRp([s EXCEPT !.rend[e.id] = TRUE], e.id) /\ h' = h
      [] e.ev = "env" /\ e.what = "sv_err" -> s' = WakeRp([s EXCEPT !.rerr[e.id] = TRUE], e.id) /\ h' = h
      [] e.ev = "env" /\ e.what = "block" ->
            /\ s' = IF e.role = "cl"
                    THEN (IF e.which = "ready" THEN [s EXCEPT !.crdy[e.id] = FALSE] ELSE [s EXCEPT !.cflu[e.id] = FALSE])
                    ELSE (IF e.which = "ready" THEN [s EXCEPT !.rrdy[e.id] = FALSE] ELSE [s EXCEPT !.rflu[e.id] = FALSE])
            /\ h' = h
      [] e.ev = "env" /\ e.what = "unblock" ->
            /\ s' = IF e.role = "cl"
                    THEN WakeClS(IF e.which = "ready" THEN [s EXCEPT !.crdy[e.id] = TRUE] ELSE [s EXCEPT !.cflu[e.id] = TRUE], e.id)
                    ELSE WakeRpS(IF e.which = "ready" THEN [s EXCEPT !.rrdy[e.id] = TRUE] ELSE [s EXCEPT !.rflu[e.id] = TRUE], e.id)
            /\ h' = h
      [] e.ev = "env" /\ e.what = "break_cl" ->
            s' = WakeClS([s EXCEPT !.cbrk[e.id] = e.which], e.id) /\ h' = [h EXCEPT !.chealthy[e.id] = FALSE]
      [] e.ev = "env" /\ e.what = "break_sv" ->
            /\ s' = WakeRpS([s EXCEPT !.rbrk[e.id] = TRUE], e.id)
            /\ h' = [h EXCEPT !.rhealthy[e.id] = FALSE,
                              !.undel = IF h.rstat[e.id] = "bound" THEN DroppableAll(@) ELSE @]
      [] e.ev = "env" /\ e.what = "close" -> s' = FireChan([s EXCEPT !.closed = TRUE]) /\ h' = h

IsEnv(e) == (e.ev = "reg" /\ e.res = "ok") \/ e.ev = "env"
ChildEvents == {"st_poll", "si_ready", "si_send", "si_flush", "si_close", "adopt", "bind", "reject"}

TraceNext ==
    /\ l <= Len(Rec)
    /\ (l = Len(Rec) => TLCSet(1, TRUE))
    /\ LET e == Rec[l] IN
       IF e.ev = "reset" THEN ResetAll(e)
       ELSE IF skip THEN Consume
       ELSE IF e.ev \in {"unbind", "muted"} THEN Consume          \* informational hook events
       ELSE IF InPoll2
       THEN IF s.pc = "F" /\ s.streams # <<>>
            THEN IF e.ev = "st_poll" /\ e.role = "cl" /\ \E st \in 0..(Len(s.streams) - 1) : At(s.streams, st) = e.id
                 THEN /\ StartAt(CHOOSE st \in 0..(Len(s.streams) - 1) : At(s.streams, st) = e.id)
                      /\ l' = l /\ Keep
                 ELSE Drift("expected a requestor stream to be polled")
            ELSE IF SilentHere THEN Step(e) /\ l' = l /\ Keep
            ELSE IF Matches(e) THEN Step(e) /\ l' = l + 1 /\ Keep
            ELSE Drift("child operation differs from the specification at pc=" \o s.pc)
       ELSE IF e.ev = "poll_begin"
            THEN IF s.woken /\ s.pc = "idle" THEN StartPoll /\ l' = l + 1 /\ Keep
                 ELSE Drift("polled although the specification holds no pending wake-up")
            ELSE IF e.ev = "poll_end"
            THEN IF (s.pc = "idle" /\ e.res = "pending") \/ (s.pc = "done" /\ e.res = "ready") \/ (s.pc = "panic" /\ e.res = "panic")
                 THEN Consume ELSE Drift("poll result differs: pc=" \o s.pc \o " res=" \o e.res)
            ELSE IF IsEnv(e)
            THEN IF EnvGuard(e) THEN EnvEvent(e) /\ l' = l + 1 /\ Keep
                 ELSE Drift("environment event not explained (waker slot differs): " \o e.ev)
            ELSE IF e.ev \in ChildEvents THEN Drift("child polled outside a poll the specification knows of")
            ELSE Consume

TraceSpec == TInit /\ [][TraceNext]_tvars
TraceAccepted == IF TLCGet(1) THEN TRUE ELSE Print(<<"TRACE NOT CONSUMED">>, FALSE)
=============================================================================
