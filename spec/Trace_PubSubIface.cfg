SPECIFICATION TraceSpec
CONSTANTS
  Pubs <- TracePubs
  Subs <- TraceSubs
INVARIANT TraceInv
POSTCONDITION TraceAccepted
CHECK_DEADLOCK FALSE
