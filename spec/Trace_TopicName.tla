-------------------------- MODULE Trace_TopicName --------------------------
(* Trace validation of TopicName::try_from / TopicName::create / Display   *)
(* against the grammar of TopicName.tla.                                   *)
EXTENDS TopicName, IOUtils

Rec == ndJsonDeserialize(IOEnv.TRACE)
VARIABLES l, nviol
tvars == <<case, l, nviol>>

TraceInit == case = [shape |-> "raw", ns |-> <<>>, tp |-> <<>>, segs |-> <<>>] /\ l = 1 /\ nviol = 0

Flag(k, kind) == PrintT(<<"VIOL", k, l, {"C07"}, kind>>) /\ nviol' = nviol + 1

Check(e) ==
    IF e.ev # "parse" THEN nviol' = nviol
    ELSE IF e.res = "panic" THEN Flag(e.case, "panic_" \o e.api)
    ELSE IF e.api = "try_from"
    THEN IF e.res # Verdict(e.segs)
         THEN Flag(e.case, IF e.res = "accept" THEN "invalid_name_accepted" ELSE "valid_name_rejected")
         ELSE IF e.res = "accept" /\ ~e.printed_eq THEN Flag(e.case, "accepted_name_does_not_print_back")
         ELSE nviol' = nviol
    ELSE \* create(ns, topic) and is_valid() on a deserialised name
         IF (e.res = "accept") # AcceptsPair(e.ns, e.tp)
         THEN Flag(e.case, IF e.res = "accept" THEN "invalid_pair_accepted_" \o e.api ELSE "valid_pair_rejected_" \o e.api)
         ELSE nviol' = nviol

TraceNext == /\ l <= Len(Rec) /\ l' = l + 1 /\ UNCHANGED case /\ Check(Rec[l])
TraceSpec == TraceInit /\ [][TraceNext]_tvars
TraceAccepted == LET d == TLCGet("stats").diameter IN
                 IF d - 1 = Len(Rec) THEN TRUE ELSE Print(<<"TRACE NOT CONSUMED", d, Len(Rec)>>, FALSE)
=============================================================================
