----------------------------- MODULE ReplierLife -----------------------------
(***************************************************************************)
(* Repliers of one topic over time, client library and server together     *)
(* (client/src/streams/request_reply/replier.rs, keep_alive/reqrep.rs      *)
(* `listen`, keep_alive/helpers.rs `is_bind_error`; server reqrep router). *)
(* A replier that registers while another is bound is told                 *)
(* replier-already-bound and closed by the server; the client library      *)
(* treats that error as recoverable, so the replier keeps re-registering   *)
(* (a standby).  When the bound replier goes away the server unbinds it    *)
(* and the next registration -- a standby's retry -- becomes the bound one.*)
(* Named deviation (TRUE = the code):                                      *)
(*   BindErrorRecoverable  a rejected replier retries (FALSE: listen()     *)
(*                         returns the error and the replier is gone)      *)
(***************************************************************************)
EXTENDS Naturals, Sequences, FiniteSets, TLC
CONSTANTS Repliers, MaxReq, BindErrorRecoverable
VARIABLES rstate,     \* [Repliers -> "off" | "bound" | "standby" | "gaveup"]
          answers,    \* sequence of repliers (or "none") that answered request 1, 2, ...
          served      \* set of <<request, replier>>: who was handed which request
pvars == <<rstate, answers, served>>
PInit == rstate = [r \in Repliers |-> "off"] /\ answers = <<>> /\ served = {}
Bound == {r \in Repliers : rstate[r] = "bound"}
\* replier(...).open() + listen()
Start(r) == /\ rstate[r] = "off"
            /\ rstate' = [rstate EXCEPT ![r] = IF Bound = {} THEN "bound"
                                                ELSE IF BindErrorRecoverable THEN "standby" ELSE "gaveup"]
            /\ UNCHANGED <<answers, served>>
\* the replier is dropped (its stream ends; the server unbinds it if it was the bound one)
Stop(r) == /\ rstate[r] \in {"bound", "standby", "gaveup"}
           /\ rstate' = [rstate EXCEPT ![r] = "off"]
           /\ UNCHANGED <<answers, served>>
\* a standby's next registration finds the topic without a replier
Promote(r) == /\ rstate[r] = "standby" /\ Bound = {}
              /\ rstate' = [rstate EXCEPT ![r] = "bound"]
              /\ UNCHANGED <<answers, served>>
\* a request is answered by the bound replier, or times out when there is none
Request == /\ Len(answers) < MaxReq
           /\ LET k == Len(answers) + 1 IN
              IF Bound = {} THEN answers' = Append(answers, "none") /\ served' = served
              ELSE \E r \in Bound : answers' = Append(answers, r) /\ served' = served \cup {<<k, r>>}
           /\ UNCHANGED rstate
PNext == (\E r \in Repliers : Start(r) \/ Stop(r) \/ Promote(r)) \/ Request
PSpec == PInit /\ [][PNext]_pvars
PFair == PSpec /\ \A r \in Repliers : WF_pvars(Promote(r))
\* C10: at any moment at most one replier receives the requests of the topic
Inv_OneBound == Cardinality(Bound) <= 1
\* C10: every request goes to at most one replier
Inv_ServedOnce == \A a, b \in served : a[1] = b[1] => a = b
\* C10: after the bound replier has gone, a replier that is still listening becomes the bound one
Live_StandbyTakesOver == \A r \in Repliers : (rstate[r] \in {"standby", "gaveup"} /\ Bound = {}) ~> (Bound # {} \/ rstate[r] = "off")
=============================================================================
