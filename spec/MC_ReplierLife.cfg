SPECIFICATION PFair
CONSTANTS
  Repliers = {1, 2, 3}
  MaxReq = 3
  BindErrorRecoverable = TRUE
INVARIANTS Inv_OneBound Inv_ServedOnce
PROPERTIES Live_StandbyTakesOver
CHECK_DEADLOCK FALSE
