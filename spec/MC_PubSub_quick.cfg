\* repaired control flow; safety + liveness; 1 publisher x 2 items, 2 subscribers
SPECIFICATION FairSpec
CONSTANTS
  Pubs = {1}
  Subs = {1, 2}
  MaxItems = 2
  MaxBlocks = 1
  MaxBreaks = 1
  MaxErrs = 1
  AllowClose = TRUE
  FixD1 = TRUE
  FixD2 = TRUE
  FixD6 = TRUE
INVARIANTS
  TypeOK
  Inv_NoPanic
  Inv_Order
  Inv_FlushedBounded
  Inv_QuiescentComplete
  Inv_ShutdownFlushed
PROPERTIES
  Prop_RefinesIface
  Live_PollTerminates
  Live_ShutdownTerminates
CHECK_DEADLOCK FALSE
