SPECIFICATION GenSpec
CONSTANTS
  Cls = {1, 2}
  Rps = {1, 2, 3}
  MaxReqs = 2
  MaxBlocks = 3
  MaxBreaks = 1
  MaxErrs = 1
  MaxBad = 1
  MaxJunk = 1
  MaxBig = 1
  AllowClose = TRUE
  MaxAhead = 4
  FixD3 = TRUE
  FixD4 = TRUE
  FixD5 = TRUE
  FixD6 = TRUE
  FixD9 = TRUE
  FixD16 = TRUE
  MaxEnv = 18
INVARIANT GenEmit
CHECK_DEADLOCK FALSE
