---------------------------- MODULE PubSubLifeGen ----------------------------
(* Schedule generator for PubSubLife (Receive is the system's step and is not  *)
(* scheduled: the harness lets deliveries happen and waits for them).          *)
EXTENDS PubSubLife, Json
CONSTANT MaxSteps
VARIABLE sched
gvars == <<lvars, sched>>
St(op, id) == [op |-> op, id |-> id]
GenInit == LInit /\ sched = <<>>
R1(a, s) == Len(sched) < MaxSteps /\ a /\ sched' = Append(sched, s)
\* deliveries are taken eagerly and in a canonical order (the harness lets them happen and waits), so
\* that every schedule is generated once
Due == {<<s, p>> \in Subs \X Pubs : Len(owed[s][p]) > 0 /\ \E i \in 1..Len(owed[s][p]) : owed[s][p][i] \notin opt[p]}
GenNext == IF Due # {}
           THEN LET sp == CHOOSE x \in Due : \A y \in Due : x[1] < y[1] \/ (x[1] = y[1] /\ x[2] <= y[2])
                    n == CHOOSE n \in 1..MaxItems : \E i \in 1..Len(owed[sp[1]][sp[2]]) :
                              /\ owed[sp[1]][sp[2]][i] = n /\ n \notin opt[sp[2]]
                              /\ \A j \in 1..(i - 1) : owed[sp[1]][sp[2]][j] \in opt[sp[2]]
                IN Receive(sp[1], sp[2], n) /\ UNCHANGED sched
           ELSE \/ \E p \in Pubs : \/ R1(OpenPub(p), St(IF p > Origins THEN "dup" ELSE "open_pub", p))
                                    \/ R1(Publish(p), St("publish", p))
                                    \/ R1(Finish(p), St("finish", p))
                                    \/ R1(CutPub(p), St("cut_pub", p))
                \/ \E s \in Subs : R1(OpenSub(s), St("open_sub", s)) \/ R1(CutSub(s), St("cut_sub", s))
GenSpec == GenInit /\ [][GenNext]_gvars
\* only schedules in which something was published to somebody
Interesting == \E s \in Subs, p \in Pubs : got[s][p] > 0 \/ Len(owed[s][p]) > 0
GenEmit == (Len(sched) = MaxSteps /\ Interesting) => PrintT(<<"SCHED", ToJson(sched)>>)
=============================================================================
