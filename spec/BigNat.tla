------------------------------ MODULE BigNat ------------------------------
(***************************************************************************)
(* Natural numbers beyond TLC's 32-bit integers: little-endian sequences  *)
(* of base-10000 limbs, normalised (no most-significant zero limbs; zero  *)
(* is <<>>).  Used to evaluate u64 / Duration arithmetic exactly inside   *)
(* the specification.                                                     *)
(***************************************************************************)
EXTENDS Naturals, Sequences

Base == 10000

RECURSIVE Norm(_)
Norm(a) == IF a # <<>> /\ a[Len(a)] = 0 THEN Norm(SubSeq(a, 1, Len(a) - 1)) ELSE a

Limb(a, i) == IF i <= Len(a) THEN a[i] ELSE 0
Max2(x, y) == IF x > y THEN x ELSE y

\* comparison: -1, 0, 1 encoded as "lt", "eq", "gt"
RECURSIVE CmpFrom(_, _, _)
CmpFrom(a, b, i) == IF i = 0 THEN "eq"
                    ELSE IF Limb(a, i) < Limb(b, i) THEN "lt"
                    ELSE IF Limb(a, i) > Limb(b, i) THEN "gt"
                    ELSE CmpFrom(a, b, i - 1)
Cmp(a, b) == CmpFrom(a, b, Max2(Len(a), Len(b)))
Leq(a, b) == Cmp(a, b) \in {"lt", "eq"}
Eq(a, b) == Cmp(a, b) = "eq"

RECURSIVE AddFrom(_, _, _, _)
AddFrom(a, b, i, carry) ==
    IF i > Max2(Len(a), Len(b)) THEN (IF carry = 0 THEN <<>> ELSE <<carry>>)
    ELSE LET t == Limb(a, i) + Limb(b, i) + carry IN <<t % Base>> \o AddFrom(a, b, i + 1, t \div Base)
Add(a, b) == Norm(AddFrom(a, b, 1, 0))

RECURSIVE MulSmallFrom(_, _, _, _)
MulSmallFrom(a, k, i, carry) ==
    IF i > Len(a) THEN (IF carry = 0 THEN <<>> ELSE <<carry % Base>> \o (IF carry \div Base = 0 THEN <<>> ELSE <<carry \div Base>>))
    ELSE LET t == a[i] * k + carry IN <<t % Base>> \o MulSmallFrom(a, k, i + 1, t \div Base)
MulSmall(a, k) == Norm(MulSmallFrom(a, k, 1, 0))       \* 0 <= k < Base

Shift(a, n) == IF a = <<>> THEN <<>> ELSE [i \in 1..n |-> 0] \o a

RECURSIVE MulFrom(_, _, _)
MulFrom(a, b, i) == IF i > Len(b) THEN <<>>
                    ELSE Add(Shift(MulSmall(a, b[i]), i - 1), MulFrom(a, b, i + 1))
Mul(a, b) == Norm(MulFrom(a, b, 1))

RECURSIVE PowN(_, _)
PowN(a, e) == IF e = 0 THEN <<1>> ELSE Mul(a, PowN(a, e - 1))

Min(a, b) == IF Leq(a, b) THEN a ELSE b
=============================================================================
