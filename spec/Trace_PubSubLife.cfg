SPECIFICATION TraceSpec
CONSTANTS
  Pubs = {1, 2, 3}
  Origins = 2
  Subs = {1, 2, 3}
  MaxItems = 50
  MaxCuts = 50
  ResubscribeAfterLoss = TRUE
INVARIANT TraceInv
POSTCONDITION TraceAccepted
CHECK_DEADLOCK FALSE
