SPECIFICATION GenSpec
CONSTANTS
  Repliers = {1, 2, 3}
  MaxReq = 4
  BindErrorRecoverable = TRUE
  MaxSteps = 7
INVARIANT GenEmit
CHECK_DEADLOCK FALSE
