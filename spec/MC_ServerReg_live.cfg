\* liveness (C17): 4 registrations (pub/sub) on two topics, capacity 1, topic A may stall
SPECIFICATION SFair2
CONSTANTS
  Tasks = {1, 2, 3, 4}
  Topics = {"A", "B"}
  Cap = 1
  FrameSet = {"sub"}
  TopicSet = {"A", "B"}
  FixD10 = TRUE
  FixD15 = TRUE
  FixD18 = TRUE
  AtomicCreate = TRUE
INVARIANTS Inv_AnsweredTruthfully Inv_NoBlockingSendUnderLock Inv_OneRouterPerTopic
PROPERTIES Live_OtherTopicProgress
CHECK_DEADLOCK FALSE
