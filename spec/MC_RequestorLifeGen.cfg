SPECIFICATION GenSpec
CONSTANTS
  Families = {1, 2}
  Clones = {"a", "b"}
  MaxCalls = 3
  MaxCuts = 1
  CidNeverReused = TRUE
  ReconnectKeepsPending = TRUE
  MaxSteps = 6
INVARIANT GenEmit
CHECK_DEADLOCK FALSE
