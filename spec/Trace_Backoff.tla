--------------------------- MODULE Trace_Backoff ---------------------------
(***************************************************************************)
(* Trace validation of the real BackoffStrategyIter against Backoff.tla.  *)
(* Small configurations (nanosecond values within TLC integers) are       *)
(* checked with the module's own Delay; large ones (u64 factors, Duration *)
(* up to its maximum, thousands of attempts) are recomputed exactly with  *)
(* BigNat in nanoseconds, saturating at the maximum delay when one is set *)
(* and at Duration::MAX otherwise.                                        *)
(***************************************************************************)
EXTENDS Backoff, IOUtils
BN == INSTANCE BigNat

Rec == ndJsonDeserialize(IOEnv.TRACE)

VARIABLES l, skip, run, nviol, big, powL
\* big: the configuration as limbs (stepL, factorL, capL) when not exact; powL: factor^(cur-1)

tvars == <<bvars, l, skip, run, nviol, big, powL>>

\* Duration::MAX in nanoseconds = (2^64 - 1) * 10^9 + 999999999 = 18446744073709551615999999999
DurMaxL == <<9999, 9999, 6159, 9551, 7370, 7440, 8446, 1>>

NoCfg == [strat |-> "constant", step |-> 0, factor |-> 0, att |-> 0, capped |-> FALSE, cap |-> 0]

TraceInit == /\ cfg = NoCfg /\ cur = 1 /\ out = <<>> /\ exhausted = FALSE
             /\ l = 1 /\ skip = TRUE /\ run = 0 /\ nviol = 0 /\ big = [exact |-> TRUE] /\ powL = <<1>>

Flag(kind) ==
    /\ PrintT(<<"VIOL", run, l, {"C13"}, kind>>)
    /\ skip' = TRUE /\ nviol' = nviol + 1
    /\ UNCHANGED <<bvars, run, big, powL>>

Stutter == UNCHANGED <<bvars, skip, run, nviol, big, powL>>

\* exact delay in limbs for the large domain
LawL(n) == CASE cfg.strat = "constant" -> big.stepL
             [] cfg.strat = "linear" -> BN!Mul(big.stepL, big.nL)
             [] cfg.strat = "exponential" -> BN!Mul(big.stepL, powL)
CeilL == IF cfg.capped THEN big.capL ELSE DurMaxL
\* saturate: at the maximum when one is set, at Duration::MAX otherwise
DelayL(n) == BN!Min(BN!Min(LawL(n), DurMaxL), CeilL)

Step(e) ==
    CASE e.ev = "next" ->
            IF cur > cfg.att THEN Flag("more_items_than_max_attempts")
            ELSE IF e.num # cur THEN Flag("attempt_not_numbered_from_1")
            ELSE IF e.max # cfg.att THEN Flag("max_attempts_misreported")
            ELSE IF big.exact
            THEN IF e.delay = Delay(cfg, cur)
                 THEN NextItem /\ UNCHANGED <<skip, run, nviol, big, powL>>
                 ELSE Flag(IF cfg.capped /\ e.delay > cfg.cap THEN "delay_exceeds_maximum" ELSE "delay_not_per_law")
            ELSE IF BN!Eq(e.delayL, DelayL(cur))
                 THEN /\ cur' = cur + 1
                      /\ powL' = IF cfg.strat = "exponential"
                                 THEN BN!Min(BN!Mul(powL, big.factorL), DurMaxL)   \* beyond MAX it saturates anyway
                                 ELSE powL
                      /\ big' = [big EXCEPT !.nL = BN!Add(@, <<1>>)]
                      /\ UNCHANGED <<cfg, out, exhausted, skip, run, nviol>>
                 ELSE Flag(IF cfg.capped /\ ~BN!Leq(e.delayL, big.capL) THEN "delay_exceeds_maximum"
                           ELSE "delay_not_per_law_or_not_saturated")
      [] e.ev = "none" ->
            IF cur <= cfg.att THEN Flag("schedule_ends_early")
            ELSE NextNone /\ UNCHANGED <<skip, run, nviol, big, powL>>
      \* Iterator::size_hint: the bounds announced must enclose what the schedule still holds
      [] e.ev = "hint" ->
            LET left == IF cur > cfg.att THEN 0 ELSE cfg.att - cur + 1 IN
            IF e.lo <= left /\ (~e.bounded \/ left <= e.hi) THEN Stutter
            ELSE Flag("size_hint_contradicts_schedule")
      [] e.ev = "panic" -> Flag("panic")
      [] e.ev = "end" -> IF cur = cfg.att + 1 THEN Stutter ELSE Flag("wrong_number_of_items")
      [] OTHER -> Stutter

NewCfg(e) ==
    /\ cfg' = [strat |-> e.strat, step |-> e.step, factor |-> e.factor, att |-> e.att,
               capped |-> e.capped, cap |-> e.cap]
    /\ cur' = 1 /\ out' = <<>> /\ exhausted' = FALSE
    /\ skip' = FALSE /\ run' = e.run /\ nviol' = nviol
    /\ big' = IF e.exact THEN [exact |-> TRUE]
              ELSE [exact |-> FALSE, stepL |-> e.stepL, factorL |-> e.factorL, capL |-> e.capL, nL |-> <<1>>]
    /\ powL' = <<1>>

TraceNext ==
    /\ l <= Len(Rec)
    /\ l' = l + 1
    /\ LET e == Rec[l] IN
       IF e.ev = "cfg" THEN NewCfg(e)
       ELSE IF skip THEN Stutter
       ELSE Step(e)

TraceSpec == TraceInit /\ [][TraceNext]_tvars
TraceAccepted == LET d == TLCGet("stats").diameter IN
                 IF d - 1 = Len(Rec) THEN TRUE ELSE Print(<<"TRACE NOT CONSUMED", d, Len(Rec)>>, FALSE)
TraceInv == skip \/ ~big.exact \/ (Inv_Count /\ Inv_Numbered /\ Inv_Clamped /\ Inv_Law)
=============================================================================
