\* repaired control flow; safety + refinement; 2 publishers x 2 items, 2 subscribers
SPECIFICATION Spec
CONSTANTS
  Pubs = {1, 2}
  Subs = {1, 2}
  MaxItems = 2
  MaxBlocks = 1
  MaxBreaks = 1
  MaxErrs = 0
  AllowClose = TRUE
  FixD1 = TRUE
  FixD2 = TRUE
  FixD6 = TRUE
INVARIANTS
  TypeOK
  Inv_NoPanic
  Inv_Order
  Inv_FlushedBounded
  Inv_QuiescentComplete
  Inv_ShutdownFlushed
PROPERTIES
  Prop_RefinesIface
CHECK_DEADLOCK FALSE
