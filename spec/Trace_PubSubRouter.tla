------------------------ MODULE Trace_PubSubRouter ------------------------
(***************************************************************************)
(* Layer A trace validation (drift check): the real pubsub::Topic future,  *)
(* driven by the harness, must poll its children in exactly the order, and *)
(* with exactly the results, that the implementation-shaped specification  *)
(* PubSubRouter predicts.  Every recorded child operation is matched to    *)
(* the router action that performs it (the router's actions are reused     *)
(* unchanged); steps that poll no child (loop control, a Pending channel)  *)
(* are silent.  A mismatch is reported as DRIFT -- it never decides a      *)
(* verdict; it says the exhaustive-schedule argument made on PubSubRouter  *)
(* no longer vouches for this code.                                        *)
(***************************************************************************)
EXTENDS PubSubRouter, Json, IOUtils

Rec == ndJsonDeserialize(IOEnv.TRACE)
TPubs == 0..32
TSubs == 0..32

VARIABLES l, skip, run, ndrift

tvars == <<vars, l, skip, run, ndrift>>

TInit == Init /\ l = 1 /\ skip = FALSE /\ run = 0 /\ ndrift = 0 /\ TLCSet(1, FALSE)

Drift(what) ==
    /\ PrintT(<<"DRIFT", run, l, what>>)
    /\ skip' = TRUE /\ ndrift' = ndrift + 1 /\ l' = l + 1 /\ run' = run
    /\ UNCHANGED vars

Consume == l' = l + 1 /\ UNCHANGED <<vars, skip, run, ndrift>>
Keep == UNCHANGED <<skip, run, ndrift>>

ResetAll(e) ==
    /\ accepted' = <<>> /\ sent' = [p \in Pubs |-> 0] /\ regAt' = [s \in Subs |-> 0]
    /\ sstat' = [s \in Subs |-> "no"] /\ recv' = [s \in Subs |-> <<>>] /\ flushed' = [s \in Subs |-> 0]
    /\ chan' = <<>> /\ chanClosed' = FALSE /\ chanWaker' = FALSE
    /\ streams' = <<>> /\ sinks' = <<>> /\ buf' = None
    /\ pc' = "idle" /\ idx' = 0 /\ cap' = 0 /\ start' = 0 /\ ret' = "park"
    /\ pq' = [p \in Pubs |-> <<>>] /\ pend' = [p \in Pubs |-> FALSE] /\ perr' = [p \in Pubs |-> FALSE]
    /\ pwk' = [p \in Pubs |-> FALSE] /\ pstat' = [p \in Pubs |-> "no"] /\ pubd' = [p \in Pubs |-> 0]
    /\ rdy' = [s \in Subs |-> TRUE] /\ flu' = [s \in Subs |-> TRUE] /\ brk' = [s \in Subs |-> "no"]
    /\ swk' = [s \in Subs |-> FALSE] /\ woken' = TRUE
    /\ nBlk' = MaxBlocks /\ nBrk' = MaxBreaks /\ nErr' = MaxErrs
    /\ skip' = FALSE /\ run' = e.run /\ ndrift' = ndrift /\ l' = l + 1

InPoll == pc \notin {"idle", "done", "panic"}

\* the router step at this control point polls no child
SilentHere ==
    \/ pc = "top"
    \/ pc = "rdy" /\ idx >= Len(sinks)
    \/ pc = "send" /\ (idx >= SendLen \/ idx >= Len(sinks))
    \/ pc = "handle" /\ chan = <<>>
    \/ pc = "streams" /\ streams = <<>>
    \/ pc = "spoll" /\ cap = 0
    \/ pc = "flush" /\ idx >= Len(sinks)

\* the child operation the router performs next, as the harness would record it
ReadyRes(s) == IF brk[s] = "ready" THEN "err" ELSE IF rdy[s] THEN "ok" ELSE "pending"
FlushRes(s) == IF brk[s] = "flush" THEN "err" ELSE IF flu[s] THEN "ok" ELSE "pending"
StreamRes(p) == IF perr[p] THEN "err" ELSE IF pq[p] # <<>> THEN "item" ELSE IF pend[p] THEN "end" ELSE "pending"

Matches(e) ==
    CASE pc = "rdy" -> e.ev = "si_ready" /\ e.id = At(sinks, idx) /\ e.res = ReadyRes(At(sinks, idx))
      [] pc = "send" -> e.ev = "si_send" /\ e.id = At(sinks, idx) /\ e.item = buf
                          /\ e.res = (IF brk[At(sinks, idx)] = "send" THEN "err" ELSE "ok")
      [] pc = "handle" -> e.ev = "adopt" /\ e.kind = Head(chan)[1] /\ e.id = Head(chan)[2]
      [] pc = "spoll" -> e.ev = "st_poll" /\ e.id = At(streams, idx) /\ e.res = StreamRes(At(streams, idx))
      [] pc = "flush" -> e.ev = "si_flush" /\ e.id = At(sinks, idx) /\ e.res = FlushRes(At(sinks, idx))
      [] OTHER -> FALSE

RouterStep == Top \/ FanReady \/ FanSend \/ PollHandle \/ PollStream \/ FanFlush

\* environment events recorded by the harness (no budgets here)
FireChan == IF chanWaker THEN woken' = TRUE /\ chanWaker' = FALSE ELSE UNCHANGED <<woken, chanWaker>>
EnvEvent(e) ==
    CASE e.ev = "reg" /\ e.kind = "pub" ->
            /\ chan' = Append(chan, <<"pub", e.id>>) /\ pstat' = [pstat EXCEPT ![e.id] = "queued"] /\ FireChan
            /\ UNCHANGED <<ifaceVars, chanClosed, streams, sinks, buf, ctl, pq, pend, perr, pwk, pubd, rdy, flu, brk, swk, nBlk, nBrk, nErr>>
      [] e.ev = "reg" /\ e.kind = "sub" ->
            /\ chan' = Append(chan, <<"sub", e.id>>) /\ sstat' = [sstat EXCEPT ![e.id] = "queued"] /\ FireChan
            /\ UNCHANGED <<accepted, sent, regAt, recv, flushed, chanClosed, streams, sinks, buf, ctl, pq, pend, perr, pwk, pstat, pubd, rdy, flu, brk, swk, nBlk, nBrk, nErr>>
      [] e.ev = "env" /\ e.what = "publish" ->
            /\ pq' = [pq EXCEPT ![e.id] = Append(@, e.item)] /\ pubd' = [pubd EXCEPT ![e.id] = @ + 1]
            /\ WakePub(e.id)
            /\ UNCHANGED <<ifaceVars, chan, chanClosed, chanWaker, streams, sinks, buf, ctl, pend, perr, pstat, rdy, flu, brk, swk, nBlk, nBrk, nErr>>
      [] e.ev = "env" /\ e.what = "end" ->
            /\ pend' = [pend EXCEPT ![e.id] = TRUE] /\ WakePub(e.id)
            /\ UNCHANGED <<ifaceVars, chan, chanClosed, chanWaker, streams, sinks, buf, ctl, pq, perr, pstat, pubd, rdy, flu, brk, swk, nBlk, nBrk, nErr>>
      [] e.ev = "env" /\ e.what = "perr" ->
            /\ perr' = [perr EXCEPT ![e.id] = TRUE] /\ WakePub(e.id)
            /\ UNCHANGED <<ifaceVars, chan, chanClosed, chanWaker, streams, sinks, buf, ctl, pq, pend, pstat, pubd, rdy, flu, brk, swk, nBlk, nBrk, nErr>>
      [] e.ev = "env" /\ e.what = "block" ->
            /\ IF e.which = "ready" THEN rdy' = [rdy EXCEPT ![e.id] = FALSE] /\ flu' = flu
                                    ELSE flu' = [flu EXCEPT ![e.id] = FALSE] /\ rdy' = rdy
            /\ UNCHANGED <<ifaceVars, chan, chanClosed, chanWaker, streams, sinks, buf, ctl, pq, pend, perr, pwk, pstat, pubd, brk, swk, woken, nBlk, nBrk, nErr>>
      [] e.ev = "env" /\ e.what = "unblock" ->
            /\ IF e.which = "ready" THEN rdy' = [rdy EXCEPT ![e.id] = TRUE] /\ flu' = flu
                                    ELSE flu' = [flu EXCEPT ![e.id] = TRUE] /\ rdy' = rdy
            /\ WakeSub(e.id)
            /\ UNCHANGED <<ifaceVars, chan, chanClosed, chanWaker, streams, sinks, buf, ctl, pq, pend, perr, pwk, pstat, pubd, brk, nBlk, nBrk, nErr>>
      [] e.ev = "env" /\ e.what = "break" ->
            /\ brk' = [brk EXCEPT ![e.id] = e.which]
            /\ sstat' = [sstat EXCEPT ![e.id] = FailedStat(@)]
            /\ WakeSub(e.id)
            /\ UNCHANGED <<accepted, sent, regAt, recv, flushed, chan, chanClosed, chanWaker, streams, sinks, buf, ctl, pq, pend, perr, pwk, pstat, pubd, rdy, flu, nBlk, nBrk, nErr>>
      [] e.ev = "env" /\ e.what = "close" ->
            /\ chanClosed' = TRUE /\ FireChan
            /\ UNCHANGED <<ifaceVars, chan, streams, sinks, buf, ctl, pq, pend, perr, pwk, pstat, pubd, rdy, flu, brk, swk, nBlk, nBrk, nErr>>

EnvGuard(e) ==
    IF e.ev # "env" THEN TRUE
    ELSE CASE e.what \in {"publish", "end", "perr"} -> e.fired = pwk[e.id]
           [] e.what \in {"unblock", "break"} -> e.fired = swk[e.id]
           [] OTHER -> TRUE

IsEnv(e) == (e.ev = "reg" /\ e.res = "ok") \/ e.ev = "env"

TraceNext ==
    /\ l <= Len(Rec)
    /\ (l = Len(Rec) => TLCSet(1, TRUE))
    /\ LET e == Rec[l] IN
       IF e.ev = "reset" THEN ResetAll(e)
       ELSE IF skip THEN Consume
       ELSE IF InPoll
       THEN IF pc = "streams" /\ streams # <<>>
            THEN \* StreamMap's random start index is whatever stream was polled first
                 IF e.ev = "st_poll" /\ \E st \in 0..(Len(streams) - 1) : At(streams, st) = e.id
                 THEN /\ EnterStreams /\ At(streams, start') = e.id
                      /\ l' = l /\ Keep
                 ELSE Drift("expected a publisher stream to be polled")
            ELSE IF SilentHere THEN RouterStep /\ l' = l /\ Keep
            ELSE IF Matches(e) THEN RouterStep /\ l' = l + 1 /\ Keep
            ELSE Drift("child operation differs from the specification at pc=" \o pc)
       ELSE \* between outer polls
            IF e.ev = "poll_begin"
            THEN IF woken /\ pc = "idle" THEN StartPoll /\ l' = l + 1 /\ Keep
                 ELSE Drift("polled although the specification holds no pending wake-up")
            ELSE IF e.ev = "poll_end"
            THEN IF (pc = "idle" /\ e.res = "pending") \/ (pc = "done" /\ e.res = "ready") \/ (pc = "panic" /\ e.res = "panic")
                 THEN Consume ELSE Drift("poll result differs: pc=" \o pc \o " res=" \o e.res)
            ELSE IF IsEnv(e)
            THEN IF EnvGuard(e) THEN EnvEvent(e) /\ l' = l + 1 /\ Keep
                 ELSE Drift("environment event not explained (waker slot differs): " \o e.ev)
            ELSE IF e.ev \in {"st_poll", "si_ready", "si_send", "si_flush", "si_close", "adopt"}
            THEN Drift("child polled outside a poll the specification knows of")
            ELSE Consume

TraceSpec == TInit /\ [][TraceNext]_tvars
TraceAccepted == IF TLCGet(1) THEN TRUE ELSE Print(<<"TRACE NOT CONSUMED">>, FALSE)
=============================================================================
