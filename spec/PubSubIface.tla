--------------------------- MODULE PubSubIface ---------------------------
(***************************************************************************)
(* Layer B (property level) specification of one pub/sub topic router as  *)
(* it is observable at its interface: what publisher streams yielded,     *)
(* what every subscriber sink was handed (start_send) and how much of it  *)
(* a successful flush covered.  It allows exactly the behaviours that     *)
(* properties C01 / C08 / C16 allow and prescribes nothing about the      *)
(* router's internal order of polls.                                      *)
(*                                                                         *)
(* Items are pairs <<p, n>>: the n-th message of publisher p.              *)
(***************************************************************************)
EXTENDS Naturals, Sequences, FiniteSets, SequencesExt

CONSTANTS Pubs, Subs

VARIABLES
    accepted,   \* sequence of items the router has taken from publisher streams
    sent,       \* [Pubs -> Nat]   how many items publisher p's stream has yielded
    regAt,      \* [Subs -> Nat]   Len(accepted) when subscriber s was adopted
    sstat,      \* [Subs -> {"no","queued","qfailed","live","failed"}]
    recv,       \* [Subs -> Seq(item)]  items handed to s's sink, in order
    flushed     \* [Subs -> Nat]   prefix of recv[s] covered by a successful flush

ifaceVars == <<accepted, sent, regAt, sstat, recv, flushed>>

Item(p, n) == <<p, n>>

IfaceInit ==
    /\ accepted = <<>>
    /\ sent     = [p \in Pubs |-> 0]
    /\ regAt    = [s \in Subs |-> 0]
    /\ sstat    = [s \in Subs |-> "no"]
    /\ recv     = [s \in Subs |-> <<>>]
    /\ flushed  = [s \in Subs |-> 0]

(* The run of accepted items subscriber s is owed: everything accepted     *)
(* after its registration was processed.                                   *)
Owed(s) == SubSeq(accepted, regAt[s] + 1, Len(accepted))

Adopted(s) == sstat[s] \in {"live", "failed"}
Healthy(s) == sstat[s] = "live"

---------------------------------------------------------------------------
(* Interface actions *)

\* The router took publisher p's next message.  Per-publisher order: only
\* the next unsent item of p can be accepted.
Accept(p) ==
    /\ accepted' = Append(accepted, Item(p, sent[p] + 1))
    /\ sent' = [sent EXCEPT ![p] = @ + 1]
    /\ UNCHANGED <<regAt, sstat, recv, flushed>>

Register(s) ==
    /\ sstat[s] = "no"
    /\ sstat' = [sstat EXCEPT ![s] = "queued"]
    /\ UNCHANGED <<accepted, sent, regAt, recv, flushed>>

AdoptedStat(st) == IF st = "queued" THEN "live" ELSE IF st = "qfailed" THEN "failed" ELSE st
FailedStat(st)  == IF st = "queued" THEN "qfailed" ELSE IF st = "live" THEN "failed" ELSE st

Adopt(s) ==
    /\ sstat[s] \in {"queued", "qfailed"}
    /\ sstat' = [sstat EXCEPT ![s] = AdoptedStat(@)]
    /\ regAt' = [regAt EXCEPT ![s] = Len(accepted)]
    /\ UNCHANGED <<accepted, sent, recv, flushed>>

\* The only item that may be handed to s next is the next one it is owed:
\* contiguous, in acceptance order, exactly once.
NextOwed(s) == accepted[regAt[s] + Len(recv[s]) + 1]
CanDeliver(s) == Adopted(s) /\ regAt[s] + Len(recv[s]) + 1 <= Len(accepted)

Deliver(s) ==
    /\ CanDeliver(s)
    /\ recv' = [recv EXCEPT ![s] = Append(@, NextOwed(s))]
    /\ UNCHANGED <<accepted, sent, regAt, sstat, flushed>>

Flush(s) ==
    /\ Adopted(s)
    /\ flushed' = [flushed EXCEPT ![s] = Len(recv[s])]
    /\ UNCHANGED <<accepted, sent, regAt, sstat, recv>>

\* The environment broke s's connection: from here on s is not "healthy"
\* and the properties promise nothing about it.
Fail(s) ==
    /\ sstat[s] \in {"queued", "live"}
    /\ sstat' = [sstat EXCEPT ![s] = FailedStat(@)]
    /\ UNCHANGED <<accepted, sent, regAt, recv, flushed>>

IfaceNext ==
    \/ \E p \in Pubs : Accept(p)
    \/ \E s \in Subs : Register(s) \/ Adopt(s) \/ Deliver(s) \/ Flush(s) \/ Fail(s)

IfaceSpec == IfaceInit /\ [][IfaceNext]_ifaceVars

---------------------------------------------------------------------------
(* Properties *)

\* C01 (second sentence), C08: every healthy subscriber has received a
\* prefix of exactly the run it is owed -- nothing duplicated, reordered,
\* skipped, foreign.
Inv_OrderExactlyOnce ==
    \A s \in Subs : Healthy(s) => IsPrefix(recv[s], Owed(s))

Inv_FlushedBounded ==
    \A s \in Subs : flushed[s] <= Len(recv[s])

\* C01 (third sentence), C09 (second sentence), C16: the state predicate a
\* quiescent (or finished) router must satisfy.
Complete ==
    \A s \in Subs : Healthy(s) =>
        /\ recv[s] = Owed(s)
        /\ flushed[s] = Len(recv[s])

NoneQueued == \A s \in Subs : sstat[s] \notin {"queued", "qfailed"}
=============================================================================
