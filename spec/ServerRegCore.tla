---------------------------- MODULE ServerRegCore ----------------------------
(***************************************************************************)
(* The server's registration path (server/src/server.rs handle_stream):   *)
(* every stream a peer opens is one task that reads a first frame,         *)
(* answers Ok or Error, looks the topic up (creating it if needed) under   *)
(* the global topics lock and hands the socket to the topic's router       *)
(* through a bounded channel.  Routers are abstracted to two facts: does   *)
(* the router currently drain its channel (not while it is blocked on a    *)
(* subscriber's readiness) and which kind it is.                           *)
(* Deviations of the code as written (FALSE = as written):                 *)
(*   FixD10  a role that does not match the topic's kind is refused with   *)
(*           an error frame (as written: Ok, then the task panics)         *)
(*   FixD15  the socket is sent to the router after the lock was released  *)
(*           (as written: tx.send().await while holding the global lock)   *)
(*   FixD18  a first frame that is not a registration is refused with an   *)
(*           error frame (as written: the stream is dropped silently)      *)
(* A deviation the code does not have, named so that the model shows the   *)
(* check-and-create of a topic has to be one critical section:             *)
(*   AtomicCreate  TRUE: contains_key / insert happen under one hold of    *)
(*           the lock (the code); FALSE: the task peeks first, builds the  *)
(*           router outside the lock and inserts it on a second hold       *)
(***************************************************************************)
EXTENDS Naturals, Sequences, FiniteSets, TLC

CONSTANTS Tasks,          \* stream-open attempts
          Topics,         \* valid topic names
          Cap,            \* capacity of a topic's registration channel
          FrameSet,       \* first frames the peers may send (subset of FirstFrames)
          TopicSet,       \* topics the peers may name (subset of Topics \cup {"invalid"})
          FixD10, FixD15, FixD18, AtomicCreate

Roles == {"pub", "sub", "rep", "req"}
KindOf(role) == IF role \in {"pub", "sub"} THEN "pubsub" ELSE "reqrep"
FirstFrames == Roles \cup {"other"}          \* "other": Message / BatchMessage / Error / Ok

VARIABLES frame,     \* [Tasks -> FirstFrames]  what the peer sends first
          topic,     \* [Tasks -> Topics \cup {"invalid"}]
          pc,        \* [Tasks -> control point]
          reply,     \* [Tasks -> "none" | "ok" | "err_invalid" | "err_kind" | "err_frame"] first frame the peer sees
          lock,      \* 0 or the task holding the global topics lock
          kind,      \* [Topics -> "none" | "pubsub" | "reqrep"]
          chan,      \* [Topics -> Nat]   sockets queued for the topic's router
          drains,    \* [Topics -> BOOLEAN]  the router is polling its channel
          adopted,   \* [Topics -> SUBSET Tasks]  sockets the router has adopted
          nrouters,  \* [Topics -> Nat]  routers ever spawned for the topic name
          fresh,     \* [Tasks -> BOOLEAN]  (only ~AtomicCreate) the peek found no topic
          handed     \* [Tasks -> Nat]  the router (1..nrouters) whose channel the socket was sent to; 0 = none

svars == <<frame, topic, pc, reply, lock, kind, chan, drains, adopted, nrouters, fresh, handed>>

SInit == /\ frame \in [Tasks -> FrameSet]
         /\ topic \in [Tasks -> TopicSet]
         /\ pc = [k \in Tasks |-> "recv"]
         /\ reply = [k \in Tasks |-> "none"]
         /\ lock = 0
         /\ kind = [t \in Topics |-> "none"]
         /\ chan = [t \in Topics |-> 0]
         /\ drains = [t \in Topics |-> TRUE]
         /\ adopted = [t \in Topics |-> {}]
         /\ nrouters = [t \in Topics |-> 0]
         /\ fresh = [k \in Tasks |-> FALSE]
         /\ handed = [k \in Tasks |-> 0]

\* server.rs:164-202  first frame, validity check, reply
RecvFirst(k) ==
    /\ pc[k] = "recv"
    /\ IF frame[k] = "other"
       THEN IF FixD18 THEN reply' = [reply EXCEPT ![k] = "err_frame"] /\ pc' = [pc EXCEPT ![k] = "refused"]
                      ELSE reply' = reply /\ pc' = [pc EXCEPT ![k] = "dropped"]
       ELSE IF topic[k] = "invalid"
       THEN reply' = [reply EXCEPT ![k] = "err_invalid"] /\ pc' = [pc EXCEPT ![k] = "refused"]
       ELSE IF FixD10 THEN reply' = reply /\ pc' = [pc EXCEPT ![k] = "want_lock"]       \* Ok is sent after the kind check
                      ELSE reply' = [reply EXCEPT ![k] = "ok"] /\ pc' = [pc EXCEPT ![k] = "want_lock"]
    /\ UNCHANGED <<frame, topic, lock, kind, chan, drains, adopted, nrouters, fresh, handed>>

\* (only ~AtomicCreate) a short hold of the lock to look, released before the router is built
Peek(k) ==
    /\ ~AtomicCreate /\ pc[k] = "want_lock" /\ lock = 0
    /\ fresh' = [fresh EXCEPT ![k] = (kind[topic[k]] = "none")]
    /\ pc' = [pc EXCEPT ![k] = "peeked"]
    /\ UNCHANGED <<frame, topic, reply, lock, kind, chan, drains, adopted, nrouters, handed>>

\* server.rs:204  topics.lock().await
Acquire(k) ==
    /\ pc[k] = (IF AtomicCreate THEN "want_lock" ELSE "peeked") /\ lock = 0
    /\ lock' = k /\ pc' = [pc EXCEPT ![k] = "locked"]
    /\ UNCHANGED <<frame, topic, reply, kind, chan, drains, adopted, nrouters, fresh, handed>>

\* server.rs:207-261  create the topic if needed, check the kind, (send)
Lookup(k) ==
    /\ pc[k] = "locked"
    /\ LET t == topic[k]
           create == IF AtomicCreate THEN kind[t] = "none" ELSE fresh[k]
           k0 == IF create THEN KindOf(frame[k]) ELSE kind[t]
           r0 == IF create THEN nrouters[t] + 1 ELSE nrouters[t] IN   \* the map holds the router inserted last
       /\ kind' = [kind EXCEPT ![t] = k0]
       /\ nrouters' = [nrouters EXCEPT ![t] = r0]
       /\ handed' = [handed EXCEPT ![k] = IF k0 = KindOf(frame[k]) THEN r0 ELSE 0]
       /\ IF k0 # KindOf(frame[k])
          THEN IF FixD10
               THEN /\ reply' = [reply EXCEPT ![k] = "err_kind"]
                    /\ pc' = [pc EXCEPT ![k] = "refused"] /\ lock' = 0
               ELSE /\ pc' = [pc EXCEPT ![k] = "panicked"] /\ lock' = 0 /\ reply' = reply   \* unwrap_pubsub / unwrap_reqrep
          ELSE /\ reply' = [reply EXCEPT ![k] = "ok"]
               /\ IF FixD15 THEN lock' = 0 /\ pc' = [pc EXCEPT ![k] = "sending"]
                            ELSE lock' = lock /\ pc' = [pc EXCEPT ![k] = "sending_locked"]
    /\ UNCHANGED <<frame, topic, chan, drains, adopted, fresh>>

\* tx.send(socket).await: completes only when the bounded channel has room
Send(k) ==
    /\ pc[k] \in {"sending", "sending_locked"}
    /\ chan[topic[k]] < Cap
    /\ chan' = [chan EXCEPT ![topic[k]] = @ + 1]
    /\ adopted' = adopted
    /\ lock' = IF pc[k] = "sending_locked" THEN 0 ELSE lock
    /\ pc' = [pc EXCEPT ![k] = "served"]
    /\ UNCHANGED <<frame, topic, reply, kind, drains, nrouters, fresh, handed>>

\* the topic's router takes a socket off its channel
RouterTakes(t) ==
    /\ drains[t] /\ chan[t] > 0
    /\ chan' = [chan EXCEPT ![t] = @ - 1]
    /\ UNCHANGED <<frame, topic, pc, reply, lock, kind, drains, adopted, nrouters, fresh, handed>>

\* a subscriber of t stops reading while a message is buffered: the router stops draining
Stall(t) ==
    /\ drains[t] /\ kind[t] = "pubsub"
    /\ drains' = [drains EXCEPT ![t] = FALSE]
    /\ UNCHANGED <<frame, topic, pc, reply, lock, kind, chan, adopted, nrouters, fresh, handed>>

SNext == \/ \E k \in Tasks : RecvFirst(k) \/ Peek(k) \/ Acquire(k) \/ Lookup(k) \/ Send(k)
         \/ \E t \in Topics : RouterTakes(t) \/ Stall(t)
SSpec == SInit /\ [][SNext]_svars
\* everything but the stall is weakly fair
SFair == SSpec /\ \A k \in Tasks : WF_svars(RecvFirst(k)) /\ WF_svars(Peek(k)) /\ WF_svars(Acquire(k)) /\ WF_svars(Lookup(k)) /\ WF_svars(Send(k))
SFair2 == SFair /\ \A t \in Topics : WF_svars(RouterTakes(t))

Final == {"served", "refused", "dropped", "panicked"}

\* C11: served in the role asked for, or explicitly refused with an error frame
Inv_AnsweredTruthfully ==
    \A k \in Tasks :
        /\ pc[k] = "served" => reply[k] = "ok"
        /\ pc[k] = "refused" => reply[k] \in {"err_invalid", "err_kind", "err_frame"}
        /\ pc[k] # "dropped"                       \* never left without an answer
        /\ pc[k] # "panicked"                      \* never accepted (Ok) and then abandoned
\* C11 / C07: an Ok is only ever followed by service
Inv_OkMeansServed == \A k \in Tasks : reply[k] = "ok" => pc[k] \in {"want_lock", "locked", "sending", "sending_locked", "served"}
\* C07: a refused registration does not create its topic
Inv_InvalidRefused == \A k \in Tasks : (frame[k] # "other" /\ topic[k] = "invalid" /\ pc[k] \in Final) => pc[k] = "refused"
\* C01 / C02 ("the" router of a topic): one router per topic name, ever; all peers served on a name share it
Inv_OneRouterPerTopic ==
    /\ \A t \in Topics : nrouters[t] <= 1
    /\ \A k1, k2 \in Tasks : (pc[k1] = "served" /\ pc[k2] = "served" /\ topic[k1] = topic[k2]) => handed[k1] = handed[k2]
\* the structural reason C17 holds: nobody waits for channel room while holding the global lock
Inv_NoBlockingSendUnderLock == \A k \in Tasks : pc[k] = "sending_locked" => chan[topic[k]] < Cap \/ ~FixD15

\* C17: however topic A's peers behave, a valid registration on another topic is eventually answered and served
Live_OtherTopicProgress ==
    \A k \in Tasks : \A t \in Topics :
        (topic[k] = t /\ frame[k] # "other") ~> (pc[k] \in Final \/ ~drains[t])

=============================================================================
