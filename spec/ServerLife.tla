------------------------------ MODULE ServerLife ------------------------------
(***************************************************************************)
(* Life cycle of the server (server/src/server.rs): registrations          *)
(* (handle_stream) racing with the graceful shutdown (Server::shutdown).   *)
(* Two async mutexes exist: `topics` (name -> registration sender) and     *)
(* `topic_handles` (join handles of the router tasks).                     *)
(*   handle_stream: lock topics; if the name is new: spawn the router,     *)
(*                  lock topic_handles just to push the handle, insert;    *)
(*                  clone the sender, unlock topics; send the socket.      *)
(*   shutdown:      lock topics, lock topic_handles (kept until the end),  *)
(*                  close every registration channel, join every router,   *)
(*                  close the endpoint.                                    *)
(* A router finishes once its channel is closed, the queued registrations  *)
(* are drained and its sinks accept the final flush (PubSubRouter /        *)
(* ReqRepRouter prove that part; here it is the action RouterFinish).      *)
(* Named deviations (TRUE = the code):                                     *)
(*   LockOrderAsCode  shutdown takes topics before topic_handles           *)
(*   CloseChannels    shutdown closes the channels before joining          *)
(*   CloseForAllHandles  closing a registration channel closes it for      *)
(*                    every clone of its sender (FALSE: shutdown only      *)
(*                    drops its own handle, so the channel stays open      *)
(*                    while a registration still holds a clone)            *)
(* A registration may be stuck for good between cloning the sender and     *)
(* sending its socket (its peer does not read the Ok): it must not keep    *)
(* shutdown from finishing.                                                *)
(***************************************************************************)
EXTENDS Naturals, FiniteSets, TLC

CONSTANTS Tasks, Topics, Cap, MayStall, MayStick, LockOrderAsCode, CloseChannels, CloseForAllHandles

VARIABLES tpc,      \* [Tasks -> control point of a handle_stream task]
          ttopic,   \* [Tasks -> Topics]
          lock,     \* holder of `topics`: 0, a task, or SD (shutdown)
          hlock,    \* holder of `topic_handles`
          exists,   \* [Topics -> BOOLEAN] the name is in the map (its router was spawned)
          closed,   \* [Topics -> BOOLEAN] the registration channel was closed
          chan,     \* [Topics -> Nat] sockets queued for the router
          done,     \* [Topics -> BOOLEAN] the router task has finished
          drains,   \* [Topics -> BOOLEAN] FALSE: the router is blocked on a peer that does not read
          stuck,    \* [Tasks -> BOOLEAN] the task's peer never reads: it stays in "sending" for ever
          dropped,  \* [Topics -> BOOLEAN] shutdown has let go of the map's handle to the channel
          spc       \* shutdown: "run" | "l1" | "l2" | "close" | "join" | "closed"
SD == 99    \* the shutdown as a lock holder
lvars == <<tpc, ttopic, lock, hlock, exists, closed, chan, done, drains, stuck, dropped, spc>>

LInit == /\ tpc = [k \in Tasks |-> "want_lock"]
         /\ ttopic \in [Tasks -> Topics]
         /\ lock = 0 /\ hlock = 0
         /\ exists = [t \in Topics |-> FALSE] /\ closed = [t \in Topics |-> FALSE]
         /\ chan = [t \in Topics |-> 0] /\ done = [t \in Topics |-> FALSE]
         /\ drains = [t \in Topics |-> TRUE]
         /\ stuck \in [Tasks -> (IF MayStick THEN BOOLEAN ELSE {FALSE})]
         /\ dropped = [t \in Topics |-> FALSE]
         /\ spc = "run"

\* ---------------------------------------------------------------- handle_stream
TAcquire(k) == /\ tpc[k] = "want_lock" /\ lock = 0
               /\ lock' = k /\ tpc' = [tpc EXCEPT ![k] = "locked"]
               /\ UNCHANGED <<ttopic, hlock, exists, closed, chan, done, drains, stuck, dropped, spc>>
TLookup(k) == /\ tpc[k] = "locked"
              /\ tpc' = [tpc EXCEPT ![k] = IF exists[ttopic[k]] THEN "unlock" ELSE "want_hlock"]
              /\ UNCHANGED <<ttopic, lock, hlock, exists, closed, chan, done, drains, stuck, dropped, spc>>
\* topic_handles.lock().await.push(handle): a temporary guard, taken while `topics` is held
TPush(k) == /\ tpc[k] = "want_hlock" /\ hlock = 0
            /\ exists' = [exists EXCEPT ![ttopic[k]] = TRUE]
            /\ tpc' = [tpc EXCEPT ![k] = "unlock"]
            /\ UNCHANGED <<ttopic, lock, hlock, closed, chan, done, drains, stuck, dropped, spc>>
\* the sender is cloned under the lock; from here on the task holds a handle of its own
TUnlock(k) == /\ tpc[k] = "unlock"
              /\ lock' = 0 /\ tpc' = [tpc EXCEPT ![k] = "sending"]
              /\ UNCHANGED <<ttopic, hlock, exists, closed, chan, done, drains, stuck, dropped, spc>>
\* who still holds a clone of topic t's sender
Holders(t) == {j \in Tasks : ttopic[j] = t /\ tpc[j] = "sending"}
\* stream.send(Ok) then tx.send(socket).await: never completes if the peer does not read the Ok; fails on a
\* closed channel, else waits for room.  (Only with ~CloseForAllHandles: the last holder to let go of its
\* clone after shutdown dropped the map's handle is the one that closes the channel.)
TSend(k) == /\ tpc[k] = "sending" /\ ~stuck[k]
            /\ LET t == ttopic[k] IN
               /\ IF closed[t] THEN tpc' = [tpc EXCEPT ![k] = "failed"] /\ chan' = chan
                  ELSE /\ chan[t] < Cap
                       /\ chan' = [chan EXCEPT ![t] = @ + 1] /\ tpc' = [tpc EXCEPT ![k] = "served"]
               /\ closed' = IF ~CloseForAllHandles /\ dropped[t] /\ Holders(t) = {k}
                            THEN [closed EXCEPT ![t] = TRUE] ELSE closed
            /\ UNCHANGED <<ttopic, lock, hlock, exists, done, drains, stuck, dropped, spc>>

\* ---------------------------------------------------------------- routers
RTake(t) == /\ exists[t] /\ ~done[t] /\ drains[t] /\ chan[t] > 0
            /\ chan' = [chan EXCEPT ![t] = @ - 1]
            /\ UNCHANGED <<tpc, ttopic, lock, hlock, exists, closed, done, drains, stuck, dropped, spc>>
RFinish(t) == /\ exists[t] /\ ~done[t] /\ closed[t] /\ chan[t] = 0 /\ drains[t]
              /\ done' = [done EXCEPT ![t] = TRUE]
              /\ UNCHANGED <<tpc, ttopic, lock, hlock, exists, closed, chan, drains, stuck, dropped, spc>>
Stall(t) == /\ MayStall /\ exists[t] /\ ~done[t] /\ drains[t]
            /\ drains' = [drains EXCEPT ![t] = FALSE]
            /\ UNCHANGED <<tpc, ttopic, lock, hlock, exists, closed, chan, done, stuck, dropped, spc>>

\* ---------------------------------------------------------------- shutdown
SBegin == /\ spc = "run" /\ spc' = "l1"
          /\ UNCHANGED <<tpc, ttopic, lock, hlock, exists, closed, chan, done, drains, stuck, dropped>>
SAcq1 == /\ spc = "l1"
         /\ IF LockOrderAsCode THEN lock = 0 /\ lock' = SD /\ hlock' = hlock
                               ELSE hlock = 0 /\ hlock' = SD /\ lock' = lock
         /\ spc' = "l2"
         /\ UNCHANGED <<tpc, ttopic, exists, closed, chan, done, drains, stuck, dropped>>
SAcq2 == /\ spc = "l2"
         /\ IF LockOrderAsCode THEN hlock = 0 /\ hlock' = SD /\ lock' = lock
                               ELSE lock = 0 /\ lock' = SD /\ hlock' = hlock
         /\ spc' = "close"
         /\ UNCHANGED <<tpc, ttopic, exists, closed, chan, done, drains, stuck, dropped>>
\* close_channel() on every sender in the map
SClose == /\ spc = "close"
          /\ dropped' = IF CloseChannels THEN [t \in Topics |-> exists[t]] ELSE dropped
          /\ closed' = IF ~CloseChannels THEN closed
                       ELSE [t \in Topics |-> exists[t] /\ (CloseForAllHandles \/ Holders(t) = {})]
          /\ spc' = "join"
          /\ UNCHANGED <<tpc, ttopic, lock, hlock, exists, chan, done, drains, stuck>>
SJoin == /\ spc = "join"
         /\ \A t \in Topics : exists[t] => done[t]
         /\ spc' = "closed" /\ lock' = 0 /\ hlock' = 0
         /\ UNCHANGED <<tpc, ttopic, exists, closed, chan, done, drains, stuck, dropped>>

LNext == \/ \E k \in Tasks : TAcquire(k) \/ TLookup(k) \/ TPush(k) \/ TUnlock(k) \/ TSend(k)
         \/ \E t \in Topics : RTake(t) \/ RFinish(t) \/ Stall(t)
         \/ SBegin \/ SAcq1 \/ SAcq2 \/ SClose \/ SJoin
LSpec == LInit /\ [][LNext]_lvars
\* everything is weakly fair except the arrival of the signal and a peer that stops reading
LFair == /\ LSpec
         /\ \A k \in Tasks : WF_lvars(TAcquire(k)) /\ WF_lvars(TLookup(k)) /\ WF_lvars(TPush(k)) /\ WF_lvars(TUnlock(k)) /\ WF_lvars(TSend(k))
         /\ \A t \in Topics : WF_lvars(RTake(t)) /\ WF_lvars(RFinish(t))
         /\ WF_lvars(SAcq1) /\ WF_lvars(SAcq2) /\ WF_lvars(SClose) /\ WF_lvars(SJoin)

\* C16: shutdown cannot hang on a topic (unless a peer of that topic refuses to read)
Live_ShutdownEnds == (spc = "l1") ~> (spc = "closed" \/ \E t \in Topics : ~drains[t])
\* shutdown closes what exists and joins what it closed: at the end every router it knew is gone.  (A
\* registration that was already past accept_bi() may still create a router for a new name afterwards:
\* the code does that, the endpoint is closed right after and nothing is promised about it.)
Inv_ClosedMeansAllRoutersDone == spc = "closed" => \A t \in Topics : closed[t] => (done[t] /\ chan[t] = 0)
Prop_JoinCoversEveryTopic == [][(spc = "join" /\ spc' = "closed") => \A t \in Topics : exists[t] => closed[t]]_lvars
\* (a registration stuck behind a peer that does not read must not keep shutdown from finishing: Live_ShutdownEnds
\* has no exemption for it)
\* no registration runs its critical section, and no router is spawned, while shutdown holds the map
Inv_ShutdownExclusive == spc \in {"close", "join"} => (lock = SD /\ hlock = SD /\ \A k \in Tasks : tpc[k] \notin {"locked", "want_hlock", "unlock"})
\* a router finishes only after its channel was closed and drained
Inv_RouterEndsOnlyWhenClosed == \A t \in Topics : done[t] => (closed[t] /\ chan[t] = 0)
=============================================================================
