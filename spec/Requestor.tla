------------------------------ MODULE Requestor ------------------------------
(***************************************************************************)
(* Request/reply end to end (client/src/streams/request_reply/requestor.rs,*)
(* replier.rs, protocol/src/request_id.rs and the server's cid tagging):   *)
(* several requestor streams, each with its own req_id counter shared by   *)
(* its clones, one reply-reader task per stream matching replies to        *)
(* pending calls by req_id, a per-call timeout, and a replier that answers *)
(* in any order, late, twice or never.                                     *)
(***************************************************************************)
EXTENDS Naturals, Sequences, FiniteSets, TLC, Json

CONSTANTS Streams,        \* requestor streams (separate open() calls: independent id counters)
          MaxCalls,
          Modes,          \* how the replier treats a request: "now" | "late" | "never" | "dup"
          RouteByCid      \* TRUE: the server routes replies by the stream tag (as coded)

VARIABLES nextId,     \* [Streams -> Nat]
          calls,      \* Seq of [s, rid, mode, state, val]  state: "sent" | "done" | "timeout"
          pending,    \* [Streams -> SUBSET Nat] req_ids with a registered one-shot channel
          atReplier,  \* Seq of call indexes received by the replier, not yet answered
          replies,    \* Seq of <<s, rid, c>> replies in flight to the requestor side
          late        \* call indexes whose late reply is still to be emitted

rvars == <<nextId, calls, pending, atReplier, replies, late>>

RInit == /\ nextId = [s \in Streams |-> 0] /\ calls = <<>> /\ pending = [s \in Streams |-> {}]
         /\ atReplier = <<>> /\ replies = <<>> /\ late = {}

Call(s, m) ==
    /\ Len(calls) < MaxCalls
    /\ calls' = Append(calls, [s |-> s, rid |-> nextId[s], mode |-> m, state |-> "sent", val |-> 0])
    /\ nextId' = [nextId EXCEPT ![s] = @ + 1]
    /\ pending' = [pending EXCEPT ![s] = @ \cup {nextId[s]}]
    /\ atReplier' = Append(atReplier, Len(calls) + 1)
    /\ UNCHANGED <<replies, late>>

\* the replier answers any request it holds (any order)
Answer(i) ==
    /\ i \in 1..Len(atReplier)
    /\ LET c == atReplier[i]
           m == calls[c].mode
           r == <<calls[c].s, calls[c].rid, c>> IN
       /\ atReplier' = [k \in 1..(Len(atReplier) - 1) |-> IF k < i THEN atReplier[k] ELSE atReplier[k + 1]]
       /\ CASE m = "now" -> replies' = Append(replies, r) /\ late' = late
            [] m = "dup" -> replies' = replies \o <<r, r>> /\ late' = late
            [] m = "late" -> replies' = replies /\ late' = late \cup {c}
            [] m = "never" -> UNCHANGED <<replies, late>>
    /\ UNCHANGED <<nextId, calls, pending>>

\* a per-call timeout fires (only for calls whose reply is not coming in time)
Timeout(c) ==
    /\ c \in 1..Len(calls) /\ calls[c].state = "sent" /\ calls[c].mode \in {"late", "never"}
    /\ calls' = [calls EXCEPT ![c].state = "timeout"]
    /\ UNCHANGED <<nextId, pending, atReplier, replies, late>>

\* the late reply is finally emitted (after the call timed out)
LateReply(c) ==
    /\ c \in late /\ calls[c].state = "timeout"
    /\ replies' = Append(replies, <<calls[c].s, calls[c].rid, c>>)
    /\ late' = late \ {c}
    /\ UNCHANGED <<nextId, calls, pending, atReplier>>

\* the reply reader of a stream takes the next reply routed to it
Deliver ==
    /\ replies # <<>>
    /\ LET r == Head(replies)
           \* as coded the server routes by the stream tag; the deviation routes to every stream
           targets == IF RouteByCid THEN {r[1]} ELSE Streams IN
       /\ replies' = Tail(replies)
       /\ pending' = [s \in Streams |-> IF s \in targets THEN pending[s] \ {r[2]} ELSE pending[s]]
       /\ calls' = [c \in 1..Len(calls) |->
                      IF calls[c].s \in targets /\ calls[c].rid = r[2] /\ calls[c].rid \in pending[calls[c].s]
                         /\ calls[c].state = "sent"
                      THEN [calls[c] EXCEPT !.state = "done", !.val = r[3]]
                      ELSE calls[c]]
    /\ UNCHANGED <<nextId, atReplier, late>>

RNext == \/ \E s \in Streams, m \in Modes : Call(s, m)
         \/ \E i \in 1..MaxCalls : Answer(i)
         \/ \E c \in 1..MaxCalls : Timeout(c) \/ LateReply(c)
         \/ Deliver
RSpec == RInit /\ [][RNext]_rvars

\* C04: a call that returns Ok returns the reply produced for exactly that request
Inv_OwnReplyOnly == \A c \in 1..Len(calls) : calls[c].state = "done" => calls[c].val = c
\* C04: a call whose reply was sent in time is not reported as timed out, and vice versa
Inv_Outcome == \A c \in 1..Len(calls) :
                 /\ calls[c].state = "done" => calls[c].mode \in {"now", "dup"}
                 /\ calls[c].state = "timeout" => calls[c].mode \in {"late", "never"}
Quiet == atReplier = <<>> /\ replies = <<>> /\ late = {} /\ Len(calls) = MaxCalls
           /\ \A c \in 1..Len(calls) : calls[c].state # "sent"
EmitCase == Quiet => PrintT(<<"CASE", ToJson([calls |-> [c \in 1..Len(calls) |-> [s |-> calls[c].s, mode |-> calls[c].mode]]])>>)
=============================================================================
