\* 3 registrations on 2 topics, capacity 1, a topic may stall; safety + liveness
SPECIFICATION LFair
CONSTANTS
  Tasks = {1, 2, 3}
  Topics = {"A", "B"}
  Cap = 1
  MayStall = TRUE
  MayStick = TRUE
  LockOrderAsCode = TRUE
  CloseChannels = TRUE
  CloseForAllHandles = TRUE
INVARIANTS Inv_ClosedMeansAllRoutersDone Inv_ShutdownExclusive Inv_RouterEndsOnlyWhenClosed
PROPERTIES Live_ShutdownEnds Prop_JoinCoversEveryTopic
CHECK_DEADLOCK FALSE
