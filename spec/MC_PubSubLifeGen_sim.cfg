SPECIFICATION GenSpec
CONSTANTS
  Pubs = {1, 2, 3}
  Origins = 2
  Subs = {1, 2, 3}
  MaxItems = 6
  MaxCuts = 4
  ResubscribeAfterLoss = TRUE
  MaxSteps = 18
INVARIANT GenEmit
CHECK_DEADLOCK FALSE
