------------------------------ MODULE Backoff ------------------------------
(***************************************************************************)
(* The reconnect back-off schedule (client/src/keep_alive/backoff_strategy *)
(* .rs, BackoffStrategyIter::next): exactly max_attempts items numbered    *)
(* from 1, delay(n) per law, clamped to the configured maximum, then None  *)
(* forever.  Delays are natural numbers of an abstract time unit (the      *)
(* conformance run uses nanoseconds).                                      *)
(***************************************************************************)
EXTENDS Naturals, Sequences, FiniteSets, TLC, Json

CONSTANTS Steps, Factors, Attempts, Caps     \* finite sets of naturals

VARIABLES cfg, cur, out, exhausted

bvars == <<cfg, cur, out, exhausted>>

Pow(b, e) == LET P[k \in 0..e] == IF k = 0 THEN 1 ELSE b * P[k - 1] IN P[e]

Law(c, n) == CASE c.strat = "constant" -> c.step
               [] c.strat = "linear" -> c.step * n
               [] c.strat = "exponential" -> c.step * Pow(c.factor, n - 1)

Delay(c, n) == IF ~c.capped \/ Law(c, n) <= c.cap THEN Law(c, n) ELSE c.cap

Configs == [strat : {"constant", "linear", "exponential"}, step : Steps, factor : Factors,
            att : Attempts, capped : BOOLEAN, cap : Caps]
\* the factor only matters for the exponential strategy
Canon(c) == (c.strat = "exponential" \/ c.factor = 0) /\ (c.capped \/ c.cap = 0)

BInit == /\ cfg \in {c \in Configs : Canon(c)}
         /\ cur = 1 /\ out = <<>> /\ exhausted = FALSE

\* one call of next()
NextItem ==
    /\ cur <= cfg.att
    /\ out' = Append(out, [num |-> cur, delay |-> Delay(cfg, cur), max |-> cfg.att])
    /\ cur' = cur + 1
    /\ UNCHANGED <<cfg, exhausted>>

NextNone ==
    /\ cur > cfg.att
    /\ exhausted' = TRUE
    /\ UNCHANGED <<cfg, cur, out>>

BNext == NextItem \/ NextNone
BSpec == BInit /\ [][BNext]_bvars

Inv_Count == Len(out) <= cfg.att /\ (exhausted => Len(out) = cfg.att)
Inv_Numbered == \A i \in 1..Len(out) : out[i].num = i /\ out[i].max = cfg.att
Inv_Clamped == cfg.capped => \A i \in 1..Len(out) : out[i].delay <= cfg.cap
Inv_Law == \A i \in 1..Len(out) : out[i].delay = Delay(cfg, i)
Inv_Monotone == \A i \in 1..(Len(out) - 1) : out[i].delay <= out[i + 1].delay \/ cfg.factor = 0

\* case export for the conformance run: one line per configuration
EmitCase == (cur = 1 /\ ~exhausted) => PrintT(<<"CASE", ToJson(cfg)>>)
=============================================================================
