------------------------ MODULE Trace_ReqRepIface ------------------------
(***************************************************************************)
(* Trace validation of real executions of reqrep::Topic (recorded by the   *)
(* harness binary router_reqrep) against the property-level specification  *)
(* ReqRepIface.  Same monitor structure as Trace_PubSubIface: every        *)
(* interface event is matched to the ReqRepIface action it claims to be;   *)
(* a failing guard flags the run (VIOL line) and the monitor skips to the  *)
(* next run.                                                               *)
(***************************************************************************)
EXTENDS ReqRepIface, TLC, Json, IOUtils

Rec == ndJsonDeserialize(IOEnv.TRACE)

TraceCls == 0..8
TraceRps == 0..8

VARIABLES
    l, skip, run, nviol,
    closed,      \* registration channel closed
    regs,        \* registrations so far
    frames,      \* frames pushed into mock streams so far (work bound)
    cpend,       \* [Cls -> Nat]  frames pushed to c's stream and not yet yielded
    cended,      \* [Cls -> {"no","signalled","seen"}]
    rpend,       \* [Rps -> Nat]
    rended,      \* [Rps -> {"no","signalled","seen"}]
    cflushed,    \* [Cls -> Nat]
    rflushed,    \* [Rps -> Nat]
    rseen        \* [Rps -> BOOLEAN] the router has been told (Err) that r's connection failed

mon == <<skip, run, nviol, closed, regs, frames, cpend, cended, rpend, rended, cflushed, rflushed, rseen>>
tvars == <<rrVars, l, mon>>

MonInit ==
    /\ skip = FALSE /\ run = 0 /\ nviol = 0 /\ closed = FALSE /\ regs = 0 /\ frames = 0
    /\ cpend = [c \in Cls |-> 0] /\ cended = [c \in Cls |-> "no"]
    /\ rpend = [r \in Rps |-> 0] /\ rended = [r \in Rps |-> "no"]
    /\ cflushed = [c \in Cls |-> 0] /\ rflushed = [r \in Rps |-> 0]
    /\ rseen = [r \in Rps |-> FALSE]

TraceInit == RRInit /\ l = 1 /\ MonInit

Reset(e) ==
    /\ taken' = [c \in Cls |-> <<>>] /\ undel' = <<>>
    /\ rgot' = [r \in Rps |-> <<>>] /\ rstat' = [r \in Rps |-> "no"]
    /\ rhealthy' = [r \in Rps |-> TRUE] /\ emitted' = <<>>
    /\ crecv' = [c \in Cls |-> <<>>] /\ cstat' = [c \in Cls |-> "no"]
    /\ chealthy' = [c \in Cls |-> TRUE] /\ rej' = [r \in Rps |-> <<>>] /\ lost' = {}
    /\ skip' = FALSE /\ run' = e.run /\ nviol' = nviol /\ closed' = FALSE /\ regs' = 0 /\ frames' = 0
    /\ cpend' = [c \in Cls |-> 0] /\ cended' = [c \in Cls |-> "no"]
    /\ rpend' = [r \in Rps |-> 0] /\ rended' = [r \in Rps |-> "no"]
    /\ cflushed' = [c \in Cls |-> 0] /\ rflushed' = [r \in Rps |-> 0]
    /\ rseen' = [r \in Rps |-> FALSE]

Flag(props, kind) ==
    /\ PrintT(<<"VIOL", run, l, props, kind>>)
    /\ skip' = TRUE /\ nviol' = nviol + 1
    /\ UNCHANGED <<rrVars, run, closed, regs, frames, cpend, cended, rpend, rended, cflushed, rflushed, rseen>>

Stutter == UNCHANGED <<rrVars, mon>>
\* only monitor variables change
Mon(upd) == UNCHANGED rrVars /\ upd

WorkBound == (3 * regs + 6) * (2 * frames + 3 * regs + 8)

\* what is still open at a quiescent point, by cause
Unadopted == (\E r \in Rps : rstat[r] = "queued") \/ (\E c \in Cls : cstat[c] = "queued")
UnyieldedRequests == \E c \in Cls : cstat[c] = "live" /\ cended[c] # "seen" /\ (cpend[c] > 0 \/ cended[c] = "signalled")
BoundHealthy == {r \in Bound : rhealthy[r]}
UnyieldedReplies == \E r \in BoundHealthy : rpend[r] > 0
UnobservedReplierEnd == \E r \in BoundHealthy : rended[r] = "signalled"
\* C08: when a peer has failed in this run, what is still owed to the healthy ones is also harm done by it
PeerFailed == (\E c \in Cls : cstat[c] # "no" /\ ~chealthy[c]) \/ (\E r \in Rps : rstat[r] # "no" /\ ~rhealthy[r])
\* C10: "the bound replier's traffic is unaffected" by a replier that registers while it is bound
ReplierRejected == \E r \in Rps : rstat[r] = "rejected" \/ rej[r] # <<>>
Harm(props) == (IF PeerFailed THEN props \cup {"C08"} ELSE props) \cup (IF ReplierRejected THEN {"C10"} ELSE {})
\* C10: "the next replier to register becomes the bound one and is served" -- requests that do not reach a
\* healthy replier which bound after another one had left are that replier not being served
Successor == (\E r \in Rps : rstat[r] = "gone") /\ BoundHealthy # {}
HarmReq(props) == Harm(props) \cup (IF Successor THEN {"C10"} ELSE {})
UnflushedReplies == \E c \in Cls : cstat[c] = "live" /\ chealthy[c] /\ cflushed[c] # Len(crecv[c])
UnflushedRequests == \E r \in BoundHealthy : rflushed[r] # Len(rgot[r])
SkippedNonDroppable(c, n) ==
    \E k \in 1..Len(undel) : undel[k][1] = c /\ undel[k][2] < n /\ ~undel[k][3]

Step(e) ==
    CASE e.ev = "reg" ->
            IF e.res # "ok" THEN Stutter
            ELSE IF e.kind = "cl"
            THEN RegisterRequestor(e.id) /\ regs' = regs + 1
                 /\ UNCHANGED <<skip, run, nviol, closed, frames, cpend, cended, rpend, rended, cflushed, rflushed, rseen>>
            ELSE RegisterReplier(e.id) /\ regs' = regs + 1
                 /\ UNCHANGED <<skip, run, nviol, closed, frames, cpend, cended, rpend, rended, cflushed, rflushed, rseen>>
      [] e.ev = "adopt" ->
            IF ~e.fifo_ok \/ cstat[e.id] # "queued" THEN Flag({"C02", "C11"}, "adoption_does_not_match_registration")
            ELSE AdoptRequestor(e.id) /\ UNCHANGED mon
      [] e.ev = "bind" ->
            IF ~e.fifo_ok \/ rstat[e.id] # "queued" THEN Flag({"C10", "C11"}, "adoption_does_not_match_registration")
            ELSE IF ~NoBound THEN Flag({"C10"}, "second_replier_bound")
            ELSE Bind(e.id) /\ UNCHANGED mon
      [] e.ev = "reject" ->
            IF ~e.fifo_ok \/ rstat[e.id] # "queued" THEN Flag({"C10", "C11"}, "adoption_does_not_match_registration")
            ELSE IF NoBound THEN Flag({"C10"}, "replier_rejected_while_none_bound")
            ELSE Reject(e.id) /\ UNCHANGED mon
      [] e.ev = "unbind" ->
            IF e.id \notin Rps \/ rstat[e.id] # "bound" THEN Flag({"C10"}, "unbind_of_unbound_replier")
            ELSE IF rhealthy[e.id] /\ rended[e.id] = "no"
            THEN Flag({"C10", "C08"}, "healthy_connected_replier_unbound")
            ELSE Unbind(e.id) /\ UNCHANGED mon
      [] e.ev = "env" ->
            CASE e.what \in {"request", "junk", "cl_err"} ->
                    Mon(/\ cpend' = [cpend EXCEPT ![e.id] = @ + 1] /\ frames' = frames + 1
                        /\ UNCHANGED <<skip, run, nviol, closed, regs, cended, rpend, rended, cflushed, rflushed, rseen>>)
              [] e.what = "cl_end" ->
                    Mon(/\ cended' = [cended EXCEPT ![e.id] = "signalled"]
                        /\ UNCHANGED <<skip, run, nviol, closed, regs, frames, cpend, rpend, rended, cflushed, rflushed, rseen>>)
              [] e.what \in {"reply", "bad_reply", "sv_err"} ->
                    Mon(/\ rpend' = [rpend EXCEPT ![e.id] = @ + 1] /\ frames' = frames + 1
                        /\ UNCHANGED <<skip, run, nviol, closed, regs, cpend, cended, rended, cflushed, rflushed, rseen>>)
              [] e.what = "sv_end" ->
                    Mon(/\ rended' = [rended EXCEPT ![e.id] = "signalled"]
                        /\ UNCHANGED <<skip, run, nviol, closed, regs, frames, cpend, cended, rpend, cflushed, rflushed, rseen>>)
              [] e.what = "break_cl" -> RequestorFails(e.id) /\ UNCHANGED mon
              [] e.what = "break_sv" -> ReplierFails(e.id) /\ UNCHANGED mon
              [] e.what = "close" ->
                    Mon(/\ closed' = TRUE
                        /\ UNCHANGED <<skip, run, nviol, regs, frames, cpend, cended, rpend, rended, cflushed, rflushed, rseen>>)
              [] OTHER -> Stutter
      [] e.ev = "st_poll" /\ e.role = "cl" ->
            IF cstat[e.id] # "live" THEN Flag({"C02"}, "polled_unadopted_requestor_stream")
            ELSE IF e.res = "pending" THEN Stutter
            ELSE IF e.res = "end"
            THEN Mon(/\ cended' = [cended EXCEPT ![e.id] = "seen"]
                     /\ UNCHANGED <<skip, run, nviol, closed, regs, frames, cpend, rpend, rended, cflushed, rflushed, rseen>>)
            ELSE IF e.res = "err" \/ e.what = "junk"
            THEN Mon(/\ cpend' = [cpend EXCEPT ![e.id] = @ - 1]
                     /\ UNCHANGED <<skip, run, nviol, closed, regs, frames, cended, rpend, rended, cflushed, rflushed, rseen>>)
            ELSE IF e.item # <<e.id, Len(taken[e.id]) + 1>> THEN Flag({"C02"}, "requestor_stream_order")
            ELSE /\ TakeRequest(e.id, e.fits)
                 /\ cpend' = [cpend EXCEPT ![e.id] = @ - 1]
                 /\ UNCHANGED <<skip, run, nviol, closed, regs, frames, cended, rpend, rended, cflushed, rflushed, rseen>>
      [] e.ev = "st_poll" /\ e.role = "sv" ->
            IF rstat[e.id] # "bound" THEN Flag({"C10"}, "polled_stream_of_unbound_replier")
            ELSE IF e.res = "pending" THEN Stutter
            ELSE IF e.res = "end"
            THEN Mon(/\ rended' = [rended EXCEPT ![e.id] = "seen"]
                     /\ UNCHANGED <<skip, run, nviol, closed, regs, frames, cpend, cended, rpend, cflushed, rflushed, rseen>>)
            ELSE IF e.res = "err"
            THEN Mon(/\ rpend' = [rpend EXCEPT ![e.id] = @ - 1]
                     /\ UNCHANGED <<skip, run, nviol, closed, regs, frames, cpend, cended, rended, cflushed, rflushed, rseen>>)
            ELSE /\ TakeReply(e.item[1], e.item[2], e.tag)
                 /\ rpend' = [rpend EXCEPT ![e.id] = @ - 1]
                 /\ UNCHANGED <<skip, run, nviol, closed, regs, frames, cpend, cended, rended, cflushed, rflushed, rseen>>
      [] e.ev = "si_send" /\ e.role = "sv" ->
            IF rstat[e.id] = "rejected"
            THEN IF ~rhealthy[e.id] THEN Stutter
                 ELSE IF e.what = "error" /\ e.code = 5 /\ rej[e.id] = <<>>
                 THEN IF e.res = "ok" THEN RejectOp(e.id, "err") /\ UNCHANGED mon ELSE Stutter
                 ELSE Flag({"C10", "C11"}, "rejected_replier_not_told_properly")
            ELSE IF rstat[e.id] # "bound" THEN Flag({"C10"}, "frame_sent_to_unbound_replier")
            ELSE IF e.what # "req" THEN Flag({"C10", "C02"}, "non_request_frame_to_bound_replier")
            ELSE IF ~(\E i \in UndelIdx(e.item[1], e.item[2]) : TRUE)
            THEN Flag({"C02"}, "request_handed_over_twice_or_never_taken")
            ELSE IF e.res # "ok"
            THEN \* the sink refused it (oversize, or the connection failed): the request is gone
                 IF IsDroppableReq(e.item[1], e.item[2])
                 THEN DropRequest(CHOOSE i \in UndelIdx(e.item[1], e.item[2]) : TRUE) /\ UNCHANGED mon
                 ELSE Flag({"C02", "C08"}, "request_lost_on_healthy_replier")
            ELSE IF ~e.cid_ok THEN Flag({"C02"}, "origin_tag_not_the_stream_key")
            ELSE IF ~e.intact THEN Flag(IF "wire_ok" \in DOMAIN e THEN {"C02", "C08"} ELSE {"C02"},     \* (the byte stream was
                                            IF "wire_ok" \in DOMAIN e THEN "replier_stream_corrupted_by_an_earlier_refused_frame"   \* damaged by another peer's frame)
                                            ELSE "request_not_intact")
            ELSE IF SkippedNonDroppable(e.item[1], e.item[2])
            THEN Flag({"C02"}, "earlier_request_lost_while_replier_bound")
            \* Inv_AtMostOnce and Inv_RequestOrder for the element that is being added (TraceInv re-evaluates
            \* them in full only while the run is short: they are quadratic in what has been handed over)
            ELSE IF \E r2 \in Rps : \E j \in 1..Len(rgot[r2]) : rgot[r2][j] = <<e.item[1], e.item[2]>>
            THEN Flag({"C02"}, "request_handed_over_twice")
            ELSE IF \E j \in 1..Len(rgot[e.id]) : rgot[e.id][j][1] = e.item[1] /\ rgot[e.id][j][2] >= e.item[2]
            THEN Flag({"C02"}, "request_order_inverted_at_replier")
            ELSE HandRequest(e.id, e.item[1], e.item[2]) /\ UNCHANGED mon
      [] e.ev = "si_close" /\ e.role = "sv" ->
            IF e.res # "ok" THEN Stutter
            ELSE IF rstat[e.id] # "rejected" THEN Flag({"C10"}, "closed_a_replier_that_was_not_rejected")
            ELSE IF ~rhealthy[e.id] THEN Stutter
            ELSE IF rej[e.id] = <<"err">> THEN RejectOp(e.id, "close") /\ UNCHANGED mon
            ELSE Flag({"C10", "C11"}, "rejected_replier_closed_without_error_frame")
      [] e.ev = "si_send" /\ e.role = "cl" ->
            IF ~chealthy[e.id] THEN Stutter
            ELSE IF e.res # "ok" THEN Flag({"C02", "C08"}, "healthy_requestor_sink_send_failed")
            ELSE IF e.what # "rep" THEN Flag({"C02"}, "non_reply_frame_to_requestor")
            ELSE IF e.item[1] # e.id THEN Flag({"C02"}, "reply_delivered_to_wrong_requestor")
            ELSE IF ~e.tag_stripped THEN Flag({"C02"}, "routing_tag_not_stripped")
            ELSE IF ~e.intact THEN Flag(IF "wire_ok" \in DOMAIN e THEN {"C02", "C08"} ELSE {"C02"},
                                            IF "wire_ok" \in DOMAIN e THEN "requestor_stream_corrupted_by_an_earlier_refused_frame"
                                            ELSE "reply_not_intact")
            ELSE IF CanHandReply(e.id, e.item[2]) THEN HandReply(e.id, e.item[2]) /\ UNCHANGED mon
            ELSE Flag(Harm({"C02"}), IF \E i \in 1..Len(crecv[e.id]) : crecv[e.id][i] = <<e.id, e.item[2]>>
                                     THEN "duplicate_reply" ELSE "reply_skipped_or_reordered")
      [] e.ev \in {"si_ready", "si_flush"} /\ e.role = "sv" /\ e.res = "err" ->
            \* the replier's connection failed and the router has now been told
            IF e.id \in Rps /\ ~rhealthy[e.id]
            THEN Mon(/\ rseen' = [rseen EXCEPT ![e.id] = TRUE]
                     /\ UNCHANGED <<skip, run, nviol, closed, regs, frames, cpend, cended, rpend, rended, cflushed, rflushed>>)
            ELSE Stutter
      [] e.ev = "si_flush" /\ e.res = "ok" ->
            IF e.role = "cl"
            THEN Mon(/\ cflushed' = [cflushed EXCEPT ![e.id] = Len(crecv[e.id])]
                     /\ UNCHANGED <<skip, run, nviol, closed, regs, frames, cpend, cended, rpend, rended, rflushed, rseen>>)
            ELSE Mon(/\ rflushed' = [rflushed EXCEPT ![e.id] = Len(rgot[e.id])]
                     /\ UNCHANGED <<skip, run, nviol, closed, regs, frames, cpend, cended, rpend, rended, cflushed, rseen>>)
      [] e.ev = "poll_end" ->
            IF e.res = "panic" THEN Flag({"C08", "C11"}, "router_panic")
            ELSE IF e.res = "spin" THEN Flag({"C09"}, "spin")
            ELSE IF e.inner > WorkBound THEN Flag({"C09"}, "work_not_bounded")
            ELSE Stutter
      [] e.ev = "livelock" -> Flag({"C09"}, "self_wake_livelock")
      [] e.ev = "quiescent" ->
            IF \E r \in Bound : rseen[r]
            THEN Flag({"C08", "C10"}, "replier_whose_failure_was_reported_is_still_bound")
            ELSE IF closed THEN Flag({"C16", "C09"}, "closed_channel_not_finished")
            ELSE IF Unadopted THEN Flag({"C09", "C10"}, "quiescent_unadopted_registration")
            ELSE IF ~RejectedComplete THEN Flag({"C10", "C09", "C11"}, "quiescent_rejected_replier_not_told_and_closed")
            ELSE IF UnobservedReplierEnd THEN Flag({"C09", "C10"}, "quiescent_replier_end_unobserved")
            ELSE IF UnyieldedReplies THEN Flag(Harm({"C09", "C02"}), "quiescent_unyielded_reply")
            ELSE IF ~RepliesComplete THEN Flag(Harm({"C02", "C09"}), "quiescent_reply_undelivered")
            ELSE IF UnyieldedRequests THEN Flag(HarmReq({"C09", "C02"}), "quiescent_unyielded_request")
            ELSE IF ~RequestsComplete THEN Flag(HarmReq({"C02", "C09"}), "quiescent_request_undelivered")
            ELSE IF UnflushedReplies THEN Flag(Harm({"C02", "C09"}), "quiescent_reply_unflushed")
            ELSE IF UnflushedRequests THEN Flag(HarmReq({"C02", "C09"}), "quiescent_request_unflushed")
            ELSE Stutter
      [] e.ev = "finished" ->
            \* a router that ends while its registration channel is open is a dead topic: nobody who registers
            \* afterwards is served (C11: every open is answered *truthfully*; C08 when a peer's failure led to it)
            IF ~closed THEN Flag(Harm({"C16", "C11"}), "finished_without_close")
            ELSE IF UnflushedReplies THEN Flag(Harm({"C16"}), "finished_reply_unflushed")
            ELSE Stutter
      [] OTHER -> Stutter

TraceNext ==
    /\ l <= Len(Rec)
    /\ l' = l + 1
    /\ LET e == Rec[l] IN
       IF e.ev = "reset" THEN Reset(e)
       ELSE IF skip THEN Stutter
       ELSE Step(e)

TraceSpec == TraceInit /\ [][TraceNext]_tvars

TraceAccepted ==
    LET d == TLCGet("stats").diameter IN
    IF d - 1 = Len(Rec) THEN TRUE
    ELSE Print(<<"TRACE NOT CONSUMED", d, Len(Rec)>>, FALSE)

LongRun == \E r \in Rps : Len(rgot[r]) > 48
TraceInv == skip \/ (Inv_OneReplier /\ Inv_ReplyRouting /\ Inv_RejectedProtocol /\ Inv_NoLostRequest
                     /\ (LongRun \/ (Inv_AtMostOnce /\ Inv_RequestOrder)))
=============================================================================
