SPECIFICATION GenSpec
CONSTANTS
  Pubs = {1, 2}
  Subs = {1, 2, 3}
  MaxItems = 3
  MaxBlocks = 3
  MaxBreaks = 1
  MaxErrs = 1
  AllowClose = TRUE
  FixD1 = TRUE
  FixD2 = TRUE
  FixD6 = TRUE
  MaxEnv = 16
INVARIANT GenEmit
CHECK_DEADLOCK FALSE
