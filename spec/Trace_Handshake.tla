--------------------------- MODULE Trace_Handshake ---------------------------
(* Trace validation of real connection + registration attempts for every     *)
(* identity pairing (fresh keys each run) against Handshake.tla.              *)
EXTENDS Handshake, Sequences, IOUtils
Rec == ndJsonDeserialize(IOEnv.TRACE)
VARIABLES l, nviol
tvars == <<hvars, l, nviol>>
TraceInit == cid = "trusted" /\ sid = "trusted" /\ ctrust = "T" /\ state = "start" /\ via = "raw" /\ l = 1 /\ nviol = 0
Flag(k, kind) == PrintT(<<"VIOL", k, l, {"C15"}, kind>>) /\ nviol' = nviol + 1
Check(e) ==
    \* every server of the run is configured with files the bundled generator wrote (sets regenerated
    \* in place, see the harness): it must come up
    IF e.ev = "server_start" THEN (IF e.ok THEN nviol' = nviol ELSE Flag(0, "server_cannot_start_with_generated_set_" \o e.server))
    ELSE IF e.ev # "tls" THEN nviol' = nviol
    ELSE IF e.registered /\ ~MayRegister(e.client, e.server, e.trust)
    THEN Flag(e.case, "untrusted_pairing_registered_client_" \o e.client \o "_server_" \o e.server \o "_trust_" \o e.trust \o "_" \o e.via)
    ELSE IF ~e.registered /\ MayRegister(e.client, e.server, e.trust)
    THEN Flag(e.case, "trusted_pairing_refused_" \o e.via)
    ELSE nviol' = nviol
TraceNext == /\ l <= Len(Rec) /\ l' = l + 1 /\ UNCHANGED hvars /\ Check(Rec[l])
TraceSpec == TraceInit /\ [][TraceNext]_tvars
TraceAccepted == LET d == TLCGet("stats").diameter IN
                 IF d - 1 = Len(Rec) THEN TRUE ELSE Print(<<"TRACE NOT CONSUMED", d, Len(Rec)>>, FALSE)
=============================================================================
