--------------------------- MODULE Trace_Requestor ---------------------------
(* Trace validation of real concurrent request() calls (harness: e2e reqrep, *)
(* scripted wire-level replier) against the outcomes Requestor.tla allows.   *)
EXTENDS Naturals, Sequences, TLC, Json, IOUtils
Rec == ndJsonDeserialize(IOEnv.TRACE)
VARIABLES l, skip, run, nviol, modes, nret
tvars == <<l, skip, run, nviol, modes, nret>>
TraceInit == l = 1 /\ skip = TRUE /\ run = 0 /\ nviol = 0 /\ modes = <<>> /\ nret = 0
Flag(kind) == /\ PrintT(<<"VIOL", run, l, {"C04"}, kind>>)
              /\ skip' = TRUE /\ nviol' = nviol + 1 /\ UNCHANGED <<run, modes, nret>>
Stutter == UNCHANGED <<skip, run, nviol, modes, nret>>
Step(e) ==
    CASE e.ev = "call_ret" ->
            LET m == modes[e.c].mode IN
            IF e.res = "ok" /\ e.val_call # e.c THEN Flag("reply_of_another_request_returned")
            ELSE IF m \in {"now", "dup"} /\ e.res # "ok" THEN Flag("answered_request_reported_" \o (IF e.res = "timeout" THEN "timeout" ELSE "error"))
            ELSE IF m \in {"late", "never"} /\ e.res = "ok" THEN Flag("unanswered_request_returned_ok")
            ELSE IF m \in {"late", "never"} /\ e.res # "timeout" THEN Flag("unanswered_request_not_reported_as_timeout")
            \* "a timely error": not before the configured timeout, and not an order of magnitude after it
            ELSE IF e.res = "timeout" /\ "ms" \in DOMAIN e /\ e.ms + 25 < e.timeout_ms THEN Flag("timeout_reported_before_the_configured_time")
            ELSE IF e.res = "timeout" /\ "ms" \in DOMAIN e /\ e.ms > 10 * e.timeout_ms + 3000 THEN Flag("timeout_reported_far_too_late")
            ELSE nret' = nret + 1 /\ UNCHANGED <<skip, run, nviol, modes>>
      [] e.ev = "later_ret" ->
            IF e.res = "ok" /\ ~e.own THEN Flag("late_reply_handed_to_later_request")
            ELSE IF e.res # "ok" THEN Flag("later_request_failed")
            ELSE Stutter
      \* degenerate request timeouts (0, below a millisecond, 1 ms) and a replier that never answers: "a timely error"
      [] e.ev = "edge_timeout" ->
            IF e.res = "timeout" /\ e.ms <= 3000 THEN Stutter
            ELSE IF e.res = "timeout" THEN Flag("timeout_reported_far_too_late")
            ELSE IF e.res = "ok" THEN Flag("unanswered_request_returned_ok")
            ELSE Flag("request_with_tiny_timeout_did_not_report_a_timeout")
      [] e.ev = "harness_error" -> Flag("exchange_could_not_be_set_up")
      [] e.ev = "done" -> IF nret # Len(modes) THEN Flag("calls_never_returned") ELSE Stutter
      [] OTHER -> Stutter
NewCase(e) == skip' = FALSE /\ run' = e.run /\ nviol' = nviol /\ modes' = e.calls /\ nret' = 0
TraceNext == /\ l <= Len(Rec) /\ l' = l + 1
             /\ LET e == Rec[l] IN IF e.ev = "case" THEN NewCase(e) ELSE IF skip THEN Stutter ELSE Step(e)
TraceSpec == TraceInit /\ [][TraceNext]_tvars
TraceAccepted == LET d == TLCGet("stats").diameter IN
                 IF d - 1 = Len(Rec) THEN TRUE ELSE Print(<<"TRACE NOT CONSUMED", d, Len(Rec)>>, FALSE)
=============================================================================
