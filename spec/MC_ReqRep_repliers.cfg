\* replier group: 1 requestor x 1 request, 3 repliers (bind / reject / rebind), 1 block
SPECIFICATION Spec
CONSTANTS
  Cls = {1}
  Rps = {1, 2, 3}
  MaxReqs = 1
  MaxBlocks = 1
  MaxBreaks = 0
  MaxErrs = 0
  MaxBad = 0
  MaxJunk = 0
  MaxBig = 0
  AllowClose = FALSE
  MaxAhead = 3
  FixD3 = TRUE
  FixD4 = TRUE
  FixD5 = TRUE
  FixD6 = TRUE
  FixD9 = TRUE
  FixD16 = TRUE
INVARIANTS
  Inv_NoPanic
  Inv_OneReplier
  Inv_AtMostOnce
  Inv_RequestOrder
  Inv_ReplyRouting
  Inv_RejectedProtocol
  Inv_NoLostRequest
  Inv_ServerMatchesBound
  Inv_QuiescentComplete
  Inv_ShutdownFlushed
PROPERTIES
  Prop_NoReplyOverwrite
  Prop_RefinesIface

CHECK_DEADLOCK FALSE
