SPECIFICATION TraceSpec
CONSTANTS
  Repliers = {1, 2, 3}
  MaxReq = 100
  BindErrorRecoverable = TRUE
INVARIANT TraceInv
POSTCONDITION TraceAccepted
CHECK_DEADLOCK FALSE
