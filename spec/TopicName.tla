----------------------------- MODULE TopicName -----------------------------
(***************************************************************************)
(* The topic-name grammar (protocol/src/topic_name.rs) as a decision       *)
(* procedure over abstract strings, and the structured case space TLC      *)
(* enumerates for the conformance run.                                      *)
(*                                                                         *)
(* An abstract string is a sequence of segments [c |-> class, n |-> count]:*)
(*   S  '/'            W  one-byte word character (letter, digit, '_')     *)
(*   D  '-'            N  one-byte non-word character (space ! . NUL ...)  *)
(*   WM multi-byte word character (e-acute, CJK, ...)                      *)
(*   NM multi-byte non-word character (euro sign, emoji, ...)              *)
(*   R  the reserved word "selium" (six word characters, n = 1)            *)
(*   RV a case variant of it ("Selium"): ordinary word characters          *)
(* A name is accepted iff it is  / ns / topic  with both parts 3..64       *)
(* characters from W, D, WM (and the letters of R), and ns does not begin  *)
(* with the reserved word.                                                 *)
(***************************************************************************)
(* The verdict is a function of the name alone: the conformance run decides every   *)
(* pair twice, the second time after the same words were validated in the opposite *)
(* roles (a validator that remembers earlier answers must still agree).            *)
EXTENDS Naturals, Sequences, FiniteSets, TLC, Json

Seg(c, n) == [c |-> c, n |-> n]
NonEmpty(segs) == SelectSeq(segs, LAMBDA g : g.n > 0)

\* flatten to one class per character
RECURSIVE Flat(_)
Flat(segs) ==
    IF segs = <<>> THEN <<>>
    ELSE LET g == Head(segs) IN
         (IF g.c = "R" THEN <<"R1", "R2", "R3", "R4", "R5", "R6">>
          ELSE IF g.c = "RV" THEN <<"W", "W", "W", "W", "W", "W">>
          ELSE [i \in 1..g.n |-> g.c]) \o Flat(Tail(segs))

WordCls == {"W", "D", "WM", "R1", "R2", "R3", "R4", "R5", "R6"}
ValidComp(cs) == Len(cs) >= 3 /\ Len(cs) <= 64 /\ \A i \in 1..Len(cs) : cs[i] \in WordCls
StartsReserved(cs) == Len(cs) >= 6 /\ SubSeq(cs, 1, 6) = <<"R1", "R2", "R3", "R4", "R5", "R6">>
SlashPos(cs) == {i \in 1..Len(cs) : cs[i] = "S"}

\* the grammar
Accepts(segs) ==
    LET cs == Flat(segs) IN
    /\ Len(cs) >= 1 /\ cs[1] = "S"
    /\ Cardinality(SlashPos(cs)) = 2
    /\ LET j == CHOOSE k \in SlashPos(cs) : k > 1
           ns == SubSeq(cs, 2, j - 1)
           tp == SubSeq(cs, j + 1, Len(cs)) IN
       ValidComp(ns) /\ ValidComp(tp) /\ ~StartsReserved(ns)
Verdict(segs) == IF Accepts(segs) THEN "accept" ELSE "reject"

\* components given separately (TopicName::create)
AcceptsPair(ns, tp) == LET a == Flat(ns) b == Flat(tp) IN ValidComp(a) /\ ValidComp(b) /\ ~StartsReserved(a)

---------------------------------------------------------------------------
(* Case space *)

Lens == {0, 1, 2, 3, 4, 7, 63, 64, 65, 200}
Kinds == {"w", "dash", "wm", "res_start", "res_mid", "res_variant"}
BadPos == {"none", "first", "mid", "last"}
BadCls == {"N", "NM", "S"}

Body(kind, len) ==
    NonEmpty(CASE kind = "w" -> <<Seg("W", len)>>
               [] kind = "dash" -> IF len >= 2 THEN <<Seg("W", 1), Seg("D", 1), Seg("W", len - 2)>> ELSE <<Seg("D", len)>>
               [] kind = "wm" -> IF len >= 1 THEN <<Seg("WM", 1), Seg("W", len - 1)>> ELSE <<>>
               [] kind = "res_start" -> IF len >= 6 THEN <<Seg("R", 1), Seg("W", len - 6)>> ELSE <<Seg("W", len)>>
               [] kind = "res_mid" -> IF len >= 7 THEN <<Seg("W", 1), Seg("R", 1), Seg("W", len - 7)>> ELSE <<Seg("W", len)>>
               [] kind = "res_variant" -> IF len >= 6 THEN <<Seg("RV", 1), Seg("W", len - 6)>> ELSE <<Seg("W", len)>>)

Comp(kind, len, pos, bc) ==
    CASE pos = "none" -> Body(kind, len)
      [] pos = "first" -> IF len >= 1 THEN <<Seg(bc, 1)>> \o Body(kind, len - 1) ELSE <<>>
      [] pos = "last" -> IF len >= 1 THEN Body(kind, len - 1) \o <<Seg(bc, 1)>> ELSE <<>>
      [] pos = "mid" -> IF len >= 2 THEN <<Seg("W", 1), Seg(bc, 1)>> \o Body(kind, len - 2) ELSE Body(kind, len)

CompSpecs == {<<k, n, p, b>> \in Kinds \X Lens \X BadPos \X BadCls : p # "none" \/ b = "N"}
Good == <<Seg("W", 5)>>
Slash == <<Seg("S", 1)>>

\* a case: [shape, ns, tp, segs]; shape "std" = / ns / tp (ns, tp without structural damage)
StdCases ==
    {[shape |-> "std", ns |-> Comp(c[1], c[2], c[3], c[4]), tp |-> Good,
      segs |-> Slash \o Comp(c[1], c[2], c[3], c[4]) \o Slash \o Good] : c \in CompSpecs}
    \cup
    {[shape |-> "std", ns |-> Good, tp |-> Comp(c[1], c[2], c[3], c[4]),
      segs |-> Slash \o Good \o Slash \o Comp(c[1], c[2], c[3], c[4])] : c \in CompSpecs}

Raw(segs) == [shape |-> "raw", ns |-> <<>>, tp |-> <<>>, segs |-> NonEmpty(segs)]
StructCases ==
    { Raw(<<>>),                                                   \* empty string
      Raw(Slash), Raw(Slash \o Slash), Raw(Slash \o Slash \o Slash),
      Raw(Good \o Slash \o Good),                                  \* no leading slash
      Raw(Slash \o Good),                                          \* one component
      Raw(Slash \o Good \o Slash),                                 \* empty topic
      Raw(Slash \o Good \o Slash \o Good \o Slash),                \* trailing slash
      Raw(Slash \o Good \o Slash \o Slash \o Good),                \* double slash
      Raw(Slash \o Good \o Slash \o Good \o Slash \o Good),        \* three components
      Raw(Slash \o Slash \o Good \o Slash \o Good),                \* leading double slash
      Raw(<<Seg("N", 1)>> \o Slash \o Good \o Slash \o Good),      \* junk before the slash
      Raw(<<Seg("WM", 1)>> \o Slash \o Good \o Slash \o Good),     \* multi-byte first character
      Raw(<<Seg("NM", 1)>> \o Slash \o Good \o Slash \o Good),
      Raw(<<Seg("WM", 1), Seg("R", 1)>> \o Slash \o Good),         \* multi-byte, then the reserved word
      Raw(<<Seg("NM", 1), Seg("R", 1), Seg("W", 2)>> \o Slash \o Good),
      Raw(<<Seg("W", 1), Seg("R", 1)>> \o Slash \o Good),          \* one byte, then the reserved word
      Raw(<<Seg("R", 1)>> \o Slash \o Good),                       \* reserved word without slash
      Raw(<<Seg("WM", 1)>>), Raw(<<Seg("NM", 1)>>), Raw(<<Seg("N", 1)>>), Raw(<<Seg("W", 1)>>),
      Raw(Slash \o Good \o Slash \o Good \o <<Seg("N", 1)>>),      \* trailing junk (newline, NUL)
      Raw(Slash \o <<Seg("R", 1)>> \o Slash \o Good),              \* exactly the reserved word
      Raw(Slash \o <<Seg("R", 1), Seg("D", 1), Seg("W", 3)>> \o Slash \o Good),
      Raw(Slash \o Good \o Slash \o <<Seg("R", 1), Seg("W", 2)>>)  \* reserved word as topic: allowed
    }

Cases == StdCases \cup StructCases

VARIABLE case
TNInit == case \in Cases
TNNext == UNCHANGED case
TNSpec == TNInit /\ [][TNNext]_case

\* sanity of the case space and the grammar (checked by TLC over every case)
Inv_StdConsistent == case.shape = "std" =>
        (\A i \in 1..Len(Flat(case.ns) \o Flat(case.tp)) : TRUE)
        /\ ((~\E i \in 1..Len(Flat(case.ns)) : Flat(case.ns)[i] = "S")
            /\ (~\E i \in 1..Len(Flat(case.tp)) : Flat(case.tp)[i] = "S")
              => (Accepts(case.segs) <=> AcceptsPair(case.ns, case.tp)))
Inv_AcceptedShape == Accepts(case.segs) => Flat(case.segs)[1] = "S" /\ Len(Flat(case.segs)) >= 8 /\ Len(Flat(case.segs)) <= 130

EmitCase == PrintT(<<"CASE", ToJson([shape |-> case.shape, ns |-> case.ns, tp |-> case.tp, segs |-> case.segs,
                                     expect |-> Verdict(case.segs)])>>)
=============================================================================
