------------------------------ MODULE PubSubLife ------------------------------
(***************************************************************************)
(* Publisher and subscriber handles over time, client library and server   *)
(* together (client/src/keep_alive/pubsub.rs, streams/pubsub/publisher.rs  *)
(* `duplicate`, `finish`, subscriber.rs; server pub/sub router).           *)
(* Every handle belongs to a client connection; a connection may be lost   *)
(* while the server stays up.  A subscriber notices at once (it is being   *)
(* polled) and re-registers; a publisher notices at its next send, which   *)
(* re-registers it -- the message of that send stays behind in the old     *)
(* stream's buffer (recorded as the code behaves: it may be lost).         *)
(* What a subscriber is owed: every message published while it was         *)
(* registered, per publisher in publishing order, each once; only the      *)
(* messages that detect an outage are optional.                            *)
(* Named deviation (TRUE = the code):                                      *)
(*   ResubscribeAfterLoss   a subscriber whose connection was lost         *)
(*                          re-registers (FALSE: its stream just ends)     *)
(***************************************************************************)
EXTENDS Naturals, Sequences, FiniteSets, TLC

CONSTANTS Pubs,            \* publisher handles 1..n; handle p > Origins is a duplicate of handle DupOf(p)
          Origins,         \* how many of them are opened directly (the rest are `duplicate()`s of handle 1)
          Subs, MaxItems, MaxCuts, ResubscribeAfterLoss

VARIABLES pstat,     \* [Pubs -> "off" | "up" | "down" | "finished"]   down: connection lost, not yet noticed
          sstat,     \* [Subs -> "off" | "up" | "gone"]
          sentn,     \* [Pubs -> Nat] messages handed to send() so far
          owed,      \* [Subs -> [Pubs -> Seq(Nat)]] messages still to arrive, in order
          opt,       \* [Pubs -> SUBSET Nat] messages that may have been lost (they detected an outage)
          got,       \* [Subs -> [Pubs -> Nat]] number of the last message received
          ncuts
lvars == <<pstat, sstat, sentn, owed, opt, got, ncuts>>

ConnOf(p) == IF p > Origins THEN 1 ELSE p        \* duplicates share the connection of handle 1
LInit == /\ pstat = [p \in Pubs |-> "off"] /\ sstat = [s \in Subs |-> "off"]
         /\ sentn = [p \in Pubs |-> 0]
         /\ owed = [s \in Subs |-> [p \in Pubs |-> <<>>]]
         /\ opt = [p \in Pubs |-> {}]
         /\ got = [s \in Subs |-> [p \in Pubs |-> 0]]
         /\ ncuts = 0

OpenPub(p) == /\ pstat[p] = "off"
              /\ IF p > Origins THEN pstat[1] = "up" ELSE TRUE      \* duplicate(): needs a working original
              /\ pstat' = [pstat EXCEPT ![p] = "up"]
              /\ UNCHANGED <<sstat, sentn, owed, opt, got, ncuts>>
OpenSub(s) == /\ sstat[s] = "off"
              /\ sstat' = [sstat EXCEPT ![s] = "up"]
              /\ UNCHANGED <<pstat, sentn, owed, opt, got, ncuts>>
\* send(): on a lost connection the handle re-registers and the message may stay behind
Publish(p) ==
    /\ pstat[p] \in {"up", "down"} /\ sentn[p] < MaxItems
    /\ LET n == sentn[p] + 1 IN
       /\ sentn' = [sentn EXCEPT ![p] = n]
       /\ opt' = IF pstat[p] = "down" THEN [opt EXCEPT ![p] = @ \cup {n}] ELSE opt
       /\ owed' = [s \in Subs |-> IF sstat[s] = "up" THEN [owed[s] EXCEPT ![p] = Append(@, n)] ELSE owed[s]]
    /\ pstat' = [pstat EXCEPT ![p] = "up"]
    /\ UNCHANGED <<sstat, got, ncuts>>
\* (the harness lets everything published so far arrive before a handle ends or a connection is cut)
Quiet == \A s \in Subs, p \in Pubs : \A i \in 1..Len(owed[s][p]) : owed[s][p][i] \in opt[p]
Finish(p) == /\ pstat[p] = "up" /\ Quiet
             /\ pstat' = [pstat EXCEPT ![p] = "finished"]
             /\ UNCHANGED <<sstat, sentn, owed, opt, got, ncuts>>
\* the publishers' connection c is lost (everything published so far has arrived: the harness waits)
CutPub(c) == /\ Quiet /\ ncuts < MaxCuts /\ \E p \in Pubs : ConnOf(p) = c /\ pstat[p] = "up"
             /\ pstat' = [p \in Pubs |-> IF ConnOf(p) = c /\ pstat[p] = "up" THEN "down" ELSE pstat[p]]
             /\ ncuts' = ncuts + 1
             /\ UNCHANGED <<sstat, sentn, owed, opt, got>>
\* The connection of handle p is lost in the middle of a write: m large messages have been handed to p and
\* only part of their bytes has left -- a frame may be cut anywhere.  What was handed over and has not
\* arrived may be lost, like the message that detects the outage; nothing else may, and whatever the old
\* stream still held stays behind with it (the new stream starts on a frame boundary).
CutPubMid(p, m) ==
    /\ Quiet /\ ncuts < MaxCuts /\ pstat[p] = "up" /\ m \in 1..3 /\ sentn[p] + m <= MaxItems
    /\ LET c == ConnOf(p)
           new == [i \in 1..m |-> sentn[p] + i] IN
       /\ sentn' = [sentn EXCEPT ![p] = @ + m]
       /\ opt' = [opt EXCEPT ![p] = @ \cup {new[i] : i \in 1..m}]
       /\ owed' = [s \in Subs |-> IF sstat[s] = "up" THEN [owed[s] EXCEPT ![p] = @ \o new] ELSE owed[s]]
       /\ pstat' = [q \in Pubs |-> IF ConnOf(q) = c /\ pstat[q] = "up" THEN "down" ELSE pstat[q]]
    /\ ncuts' = ncuts + 1
    /\ UNCHANGED <<sstat, got>>
\* flush() on a handle whose connection was lost: it notices and re-registers, without a message being at stake
Notice(p) == /\ pstat[p] = "down"
             /\ pstat' = [pstat EXCEPT ![p] = "up"]
             /\ UNCHANGED <<sstat, sentn, owed, opt, got, ncuts>>
\* a subscriber's connection is lost; it re-registers before anything else is published
CutSub(s) == /\ Quiet /\ ncuts < MaxCuts /\ sstat[s] = "up"
             /\ sstat' = [sstat EXCEPT ![s] = IF ResubscribeAfterLoss THEN "up" ELSE "gone"]
             /\ ncuts' = ncuts + 1
             /\ UNCHANGED <<pstat, sentn, owed, opt, got>>
\* a message arrives at a subscriber: the next one owed, optional ones may be skipped
Skippable(s, p, n) == \E i \in 1..Len(owed[s][p]) :
                         /\ owed[s][p][i] = n
                         /\ \A j \in 1..(i - 1) : owed[s][p][j] \in opt[p]
Receive(s, p, n) ==
    /\ Skippable(s, p, n)
    /\ LET i == CHOOSE i \in 1..Len(owed[s][p]) : owed[s][p][i] = n /\ \A j \in 1..(i - 1) : owed[s][p][j] \in opt[p] IN
       owed' = [owed EXCEPT ![s][p] = SubSeq(@, i + 1, Len(@))]
    /\ got' = [got EXCEPT ![s][p] = n]
    /\ UNCHANGED <<pstat, sstat, sentn, opt, ncuts>>

LNext == \/ \E p \in Pubs : OpenPub(p) \/ Publish(p) \/ Finish(p) \/ CutPub(p)
         \/ \E p \in Pubs, m \in 1..3 : CutPubMid(p, m)
         \/ \E p \in Pubs : Notice(p)
         \/ \E s \in Subs : OpenSub(s) \/ CutSub(s)
         \/ \E s \in Subs, p \in Pubs, n \in 1..MaxItems : Receive(s, p, n)
LSpec == LInit /\ [][LNext]_lvars

\* C01 / C12: per publisher strictly increasing at every subscriber (no duplicate, no reordering)
Inv_Increasing == \A s \in Subs, p \in Pubs : \A i \in 1..Len(owed[s][p]) : owed[s][p][i] > got[s][p]
\* C12: a subscriber that has been registered stays registered across connection losses
Inv_SubscriberSurvives == \A s \in Subs : sstat[s] # "gone"
\* C12 / C01: everything owed arrives (what may be lost is only what detected an outage)
Complete == Quiet
=============================================================================
