--------------------------- MODULE ServerLifeCases ---------------------------
(* Enumeration of the situations in which the real server is interrupted      *)
(* (e2e shutdown): one or two live topics in every state the property names   *)
(* (idle, mid-delivery, only one side connected), a subscriber that has left, *)
(* a subscriber that does not read, registrations arriving during shutdown.   *)
EXTENDS Naturals, Sequences, TLC, Json
T(kind, subs, pubs, traffic, stall, big, replier, requestors) ==
    [kind |-> kind, subs |-> subs, pubs |-> pubs, traffic |-> traffic, stall |-> stall, big |-> big,
     replier |-> replier, requestors |-> requestors]
PubSubTopics ==
    {T("pubsub", s, p, tr, st, bg, FALSE, 0) : s \in 0..3, p \in 0..2, tr \in {"none", "finished", "flowing"},
                                               st \in BOOLEAN, bg \in BOOLEAN}
GoodPubSub(t) == /\ (t.traffic # "none" => t.pubs > 0)
                 /\ (t.stall => t.subs > 0 /\ t.traffic = "flowing" /\ t.big)
                 /\ (t.big => t.traffic = "flowing")
                 /\ t.subs + t.pubs > 0
ReqRepTopics ==
    {T("reqrep", 0, 0, tr, FALSE, FALSE, r, q) : tr \in {"none", "flowing"}, r \in BOOLEAN, q \in 0..2}
GoodReqRep(t) == /\ (t.traffic = "flowing" => t.requestors > 0)
                 /\ (t.replier \/ t.requestors > 0)
Topics == {t \in PubSubTopics : GoodPubSub(t)} \cup {t \in ReqRepTopics : GoodReqRep(t)}
\* stuck_reg: a registration whose peer never reads its Ok is in flight (it holds a clone of the topic's sender)
Cases == {[topics |-> ts, leaver |-> lv, late_regs |-> lr, settle_ms |-> sm, stuck_reg |-> sr] :
            ts \in {<<a>> : a \in Topics} \cup {<<a, b>> : a \in Topics, b \in Topics},
            lv \in BOOLEAN, lr \in {0, 2, 5}, sm \in {0, 30}, sr \in BOOLEAN}
VARIABLE c
Init == c \in Cases
Next == UNCHANGED c
Spec == Init /\ [][Next]_c
EmitCase == PrintT(<<"CASE", ToJson(c)>>)
=============================================================================
