--------------------------- MODULE ReqRepRouter ---------------------------
(***************************************************************************)
(* Layer A (implementation shaped) specification of the request/reply     *)
(* topic router  server/src/topic/reqrep.rs (Topic::poll)  with           *)
(* server/src/sink/router.rs, the futures-mpsc registration channel and   *)
(* tokio-stream's StreamMap.  One action per inner poll of a child; `pc`  *)
(* walks the blocks (A)..(G) of the Rust poll body:                       *)
(*   A  write buffered request to the bound replier                       *)
(*   B  tell / close a rejected replier (buffered_err)                    *)
(*   C  poll the registration channel                                     *)
(*   D  poll the bound replier's stream                                   *)
(*   E  write the buffered reply through the Router sink                  *)
(*   F  poll the requestor streams                                        *)
(*   G  exit test                                                         *)
(*                                                                         *)
(* The state of router and environment is one record `s`; the interface   *)
(* history of ReqRepIface is the record `h` (mapped onto ReqRepIface by   *)
(* INSTANCE for the refinement and invariant checks).                     *)
(*                                                                         *)
(* Deviations of the code as originally written (FALSE = as written):     *)
(*   FixD3  replier stream is not polled while a reply is still buffered  *)
(*   FixD4  an absent replier / empty requestor map counts as "pending"   *)
(*   FixD5  errors of the replier's sink unbind it instead of unwrap()    *)
(*   FixD6  the channel is polled again after a socket was adopted        *)
(*   FixD9  a rejected replier is closed before the channel is polled     *)
(*   FixD16 non-Message frames / oversize requests are dropped, no panic  *)
(***************************************************************************)
EXTENDS Naturals, Sequences, FiniteSets, SequencesExt, TLC

CONSTANTS Cls, Rps,
          MaxReqs,     \* requests per requestor
          MaxBlocks, MaxBreaks, MaxErrs, MaxBad, MaxJunk, MaxBig,
          AllowClose,
          MaxAhead,    \* environment steps allowed while a wake-up is pending (bounds run-ahead)
          FixD3, FixD4, FixD5, FixD6, FixD9, FixD16

VARIABLES s, h, ahead
vars == <<s, h, ahead>>

None == <<>>

B == INSTANCE ReqRepIface WITH
        taken <- h.taken, undel <- h.undel, rgot <- h.rgot, rstat <- h.rstat,
        rhealthy <- h.rhealthy, emitted <- h.emitted, crecv <- h.crecv, cstat <- h.cstat,
        chealthy <- h.chealthy, rej <- h.rej, lost <- h.lost

At(seq, i0) == seq[i0 + 1]
SwapRemove(seq, i0) ==
    LET n == Len(seq) IN [k \in 1..(n - 1) |-> IF k = i0 + 1 THEN seq[n] ELSE seq[k]]

Init ==
    /\ s = [ chan |-> <<>>, closed |-> FALSE, chanWk |-> FALSE,
             server |-> 0, streams |-> <<>>, rsinks |-> {},
             bufReq |-> None, bufRep |-> None, bufErr |-> None,
             pc |-> "idle", idx |-> 0, cap |-> 0, start |-> 0, ret |-> "park", todo |-> {},
             srvPend |-> FALSE, strPend |-> FALSE,
             cq |-> [c \in Cls |-> <<>>], cend |-> [c \in Cls |-> FALSE],
             cerr |-> [c \in Cls |-> FALSE], cwk |-> [c \in Cls |-> FALSE],
             cpub |-> [c \in Cls |-> 0],
             crdy |-> [c \in Cls |-> TRUE], cflu |-> [c \in Cls |-> TRUE],
             cbrk |-> [c \in Cls |-> "no"], cswk |-> [c \in Cls |-> FALSE],
             cflushed |-> [c \in Cls |-> 0],
             rq |-> [r \in Rps |-> <<>>], rend |-> [r \in Rps |-> FALSE],
             rerr |-> [r \in Rps |-> FALSE], rwk |-> [r \in Rps |-> FALSE],
             answered |-> [r \in Rps |-> {}],
             rrdy |-> [r \in Rps |-> TRUE], rflu |-> [r \in Rps |-> TRUE],
             rbrk |-> [r \in Rps |-> FALSE], rswk |-> [r \in Rps |-> FALSE],
             rflushed |-> [r \in Rps |-> 0],
             woken |-> TRUE,
             nBlk |-> MaxBlocks, nBrk |-> MaxBreaks, nErr |-> MaxErrs, nBad |-> MaxBad,
             nJunk |-> MaxJunk, nBig |-> MaxBig ]
    /\ h = [ taken |-> [c \in Cls |-> <<>>], undel |-> <<>>,
             rgot |-> [r \in Rps |-> <<>>], rstat |-> [r \in Rps |-> "no"],
             rhealthy |-> [r \in Rps |-> TRUE], emitted |-> <<>>,
             crecv |-> [c \in Cls |-> <<>>], cstat |-> [c \in Cls |-> "no"],
             chealthy |-> [c \in Cls |-> TRUE], rej |-> [r \in Rps |-> <<>>], lost |-> {} ]
    /\ ahead = 0

---------------------------------------------------------------------------
(* history helpers *)

DroppableAll(u) == [i \in 1..Len(u) |-> <<u[i][1], u[i][2], TRUE>>]
Without(u, c, n) == SelectSeq(u, LAMBDA e : ~(e[1] = c /\ e[2] = n))
IsDroppable(u, c, n) == \A i \in 1..Len(u) : (u[i][1] = c /\ u[i][2] = n) => u[i][3]
\* giving up on request <<c,n>>
HDrop(hh, c, n) == [hh EXCEPT !.undel = Without(@, c, n),
                              !.lost = IF IsDroppable(hh.undel, c, n) THEN @ ELSE @ \cup {<<c, n>>}]
\* handing request <<c,n>> to replier r (older undelivered requests of c are skipped)
HHand(hh, r, c, n) ==
    LET older == {<<hh.undel[i][1], hh.undel[i][2]>> : i \in {j \in 1..Len(hh.undel) :
                        hh.undel[j][1] = c /\ hh.undel[j][2] < n /\ ~hh.undel[j][3]}} IN
    [hh EXCEPT !.undel = SelectSeq(@, LAMBDA e : ~(e[1] = c /\ e[2] <= n)),
               !.rgot[r] = Append(@, <<c, n>>),
               !.lost = @ \cup older]
HUnbind(hh, r) == [hh EXCEPT !.rstat[r] = "gone", !.undel = DroppableAll(@)]

---------------------------------------------------------------------------
(* Router steps *)

InPoll == s.pc \notin {"idle", "done", "panic"}
Goto(st, p) == [st EXCEPT !.pc = p]

StartPoll ==
    /\ s.pc = "idle" /\ s.woken
    /\ s' = [s EXCEPT !.woken = FALSE, !.pc = "A", !.srvPend = FALSE, !.strPend = FALSE]
    /\ h' = h

\* (A) reqrep.rs:96-101  buffered request -> replier: poll_ready
StepA ==
    /\ s.pc = "A"
    /\ IF s.bufReq # None /\ s.server # 0
       THEN LET r == s.server IN
            IF s.rbrk[r]
            THEN IF FixD5
                 THEN /\ s' = [s EXCEPT !.server = 0, !.pc = "B"]        \* unbind, keep the request
                      /\ h' = HUnbind(h, r)
                 ELSE s' = Goto(s, "panic") /\ h' = h                     \* unwrap() on Err
            ELSE IF s.rrdy[r]
            THEN s' = Goto(s, "A2") /\ h' = h
            ELSE s' = [s EXCEPT !.rswk[r] = TRUE, !.pc = "idle"] /\ h' = h
       ELSE s' = Goto(s, "B") /\ h' = h

\* (A) start_send of the buffered request on the replier's sink
StepA2 ==
    /\ s.pc = "A2"
    /\ LET r == s.server
           c == s.bufReq[1]
           n == s.bufReq[2]
           fits == s.bufReq[3] IN
       IF ~fits
       THEN \* the wire encoder refuses the frame: it exceeds the limit with the tag added
            IF FixD16
            THEN s' = [s EXCEPT !.bufReq = None, !.pc = "B"] /\ h' = HDrop(h, c, n)
            ELSE s' = Goto(s, "panic") /\ h' = h
       ELSE /\ s' = [s EXCEPT !.bufReq = None, !.pc = "B"]
            /\ h' = HHand(h, r, c, n)

\* (B) reqrep.rs:105-129  buffered_err: rejected replier
StepB ==
    /\ s.pc = "B"
    /\ IF s.bufErr = None THEN s' = Goto(s, "C") /\ h' = h
       ELSE LET ph == s.bufErr[1]
                r == s.bufErr[2] IN
            IF ph = "err"
            THEN IF s.rbrk[r] THEN s' = [s EXCEPT !.bufErr = None, !.pc = "C"] /\ h' = h
                 ELSE IF s.rrdy[r] THEN s' = Goto(s, "B2") /\ h' = h
                 ELSE s' = [s EXCEPT !.rswk[r] = TRUE, !.pc = "idle"] /\ h' = h
            ELSE \* poll_close
                 IF s.rbrk[r] THEN s' = [s EXCEPT !.bufErr = None, !.pc = "C"] /\ h' = h
                 ELSE IF s.rflu[r]
                 THEN /\ s' = [s EXCEPT !.bufErr = None, !.pc = "C"]
                      /\ h' = [h EXCEPT !.rej[r] = Append(@, "close")]
                 ELSE s' = [s EXCEPT !.rswk[r] = TRUE, !.pc = "idle"] /\ h' = h

\* (B) start_send(Frame::Error) on the rejected replier's sink
StepB2 ==
    /\ s.pc = "B2"
    /\ LET r == s.bufErr[2] IN
       /\ s' = [s EXCEPT !.bufErr = <<"close", r>>, !.pc = IF FixD9 THEN "A" ELSE "C"]
       /\ h' = [h EXCEPT !.rej[r] = Append(@, "err")]

\* (C) reqrep.rs:131-174  handle.poll_next
StepC ==
    /\ s.pc = "C"
    /\ IF s.chan # <<>>
       THEN LET k == Head(s.chan)
                nxt == IF FixD6 THEN "A" ELSE "D" IN
            IF k[1] = "cl"
            THEN /\ s' = [s EXCEPT !.chan = Tail(@), !.streams = Append(@, k[2]),
                                   !.rsinks = @ \cup {k[2]}, !.pc = nxt]
                 /\ h' = [h EXCEPT !.cstat[k[2]] = "live"]
            ELSE IF s.server # 0
            THEN \* reject: single buffered_err slot -- an earlier occupant is overwritten
                 /\ s' = [s EXCEPT !.chan = Tail(@), !.bufErr = <<"err", k[2]>>, !.pc = nxt]
                 /\ h' = [h EXCEPT !.rstat[k[2]] = "rejected"]
            ELSE /\ s' = [s EXCEPT !.chan = Tail(@), !.server = k[2], !.pc = nxt]
                 /\ h' = [h EXCEPT !.rstat[k[2]] = "bound"]
       ELSE IF s.closed
       THEN s' = [s EXCEPT !.pc = "flush", !.ret = "done", !.todo = s.rsinks] /\ h' = h
       ELSE IF s.streams = <<>> /\ s.server = 0 /\ s.bufReq = None /\ s.bufRep = None
       THEN \* nothing to do: park (the requestor sinks were flushed on the way here)
            /\ s' = [s EXCEPT !.chanWk = TRUE, !.pc = "idle"]
            /\ h' = h
       ELSE s' = [s EXCEPT !.chanWk = TRUE, !.pc = "D"] /\ h' = h

\* (D) reqrep.rs:176-200  poll the bound replier's stream
StepD ==
    /\ s.pc = "D"
    /\ IF s.server = 0
       THEN s' = [s EXCEPT !.srvPend = IF FixD4 THEN TRUE ELSE @, !.pc = "E"] /\ h' = h
       ELSE IF FixD3 /\ s.bufRep # None
       THEN s' = Goto(s, "E") /\ h' = h
       ELSE LET r == s.server IN
            IF s.rerr[r]
            THEN s' = [s EXCEPT !.rerr[r] = FALSE, !.pc = "E"] /\ h' = h
            ELSE IF s.rq[r] # <<>>
            THEN \* Ready(Some(Ok(item))): assigned to buffered_rep (an occupant is overwritten)
                 /\ s' = [s EXCEPT !.bufRep = Head(s.rq[r]), !.rq[r] = Tail(@), !.pc = "E"]
                 /\ h' = [h EXCEPT !.emitted = Append(@, Head(s.rq[r]))]
            ELSE IF s.rend[r]
            THEN s' = Goto(s, "Dend") /\ h' = h
            ELSE s' = [s EXCEPT !.rwk[r] = TRUE, !.srvPend = TRUE, !.pc = "E"] /\ h' = h

\* flush of the replier's own sink (three call sites: replier stream ended,
\* requestor map empty, exit) -- `after` says what follows
SrvFlush(here, okNext, okUpd(_), unbindOnErr) ==
    /\ s.pc = here
    /\ LET r == s.server IN
       IF s.rbrk[r]
       THEN IF FixD5
            THEN IF unbindOnErr
                 THEN \* the replier's connection failed: unbind it
                      /\ s' = okUpd([s EXCEPT !.server = 0, !.pc = okNext])
                      /\ h' = HUnbind(h, r)
                 ELSE \* (replier stream ended) the error is ignored, the replier is unbound below anyway
                      /\ s' = okUpd([s EXCEPT !.pc = okNext])
                      /\ h' = h
            ELSE s' = Goto(s, "panic") /\ h' = h
       ELSE IF s.rflu[r]
       THEN /\ s' = okUpd([s EXCEPT !.rflushed[r] = Len(h.rgot[r]), !.pc = okNext])
            /\ h' = h
       ELSE s' = [s EXCEPT !.rswk[r] = TRUE, !.pc = "idle"] /\ h' = h

Id(x) == x
\* replier stream ended: flush its sink, then the Router sink, then unbind
StepDend == SrvFlush("Dend", "flush", LAMBDA st : [st EXCEPT !.ret = "srvend", !.todo = st.rsinks], FALSE)

\* poll_flush of one requestor sink
FlushOn(c) ==
    IF s.cbrk[c] = "flush"
    THEN s' = [s EXCEPT !.rsinks = @ \ {c}, !.todo = @ \ {c}] /\ h' = h
    ELSE IF s.cflu[c]
    THEN s' = [s EXCEPT !.cflushed[c] = Len(h.crecv[c]), !.todo = @ \ {c}] /\ h' = h
    ELSE s' = [s EXCEPT !.cswk[c] = TRUE, !.pc = "idle"] /\ h' = h

\* Router::poll_flush (router.rs:139-161) over the requestor sinks in HashMap order
StepFlush ==
    /\ s.pc = "flush"
    /\ IF s.todo = {}
       THEN CASE s.ret = "park" -> s' = Goto(s, "idle") /\ h' = h
              [] s.ret = "done" -> s' = Goto(s, "done") /\ h' = h
              [] s.ret = "srvend" ->
                    \* *server = None (if the flush above has not unbound it already)
                    /\ s' = [s EXCEPT !.server = 0, !.pc = "E"]
                    /\ h' = IF s.server # 0 THEN HUnbind(h, s.server) ELSE h
              [] s.ret = "cend" ->
                    /\ s' = IF s.server # 0 THEN Goto(s, "Fend2")
                            ELSE [s EXCEPT !.strPend = IF FixD4 THEN TRUE ELSE @, !.pc = "G"]
                    /\ h' = h
              [] s.ret = "exit" ->
                    /\ s' = IF s.server # 0 THEN Goto(s, "Gend2") ELSE Goto(s, "idle")
                    /\ h' = h
       ELSE \E c \in s.todo : FlushOn(c)

\* (E) reqrep.rs:204-213  buffered reply -> Router sink: poll_ready over all sinks
StepE ==
    /\ s.pc = "E"
    /\ IF s.bufRep # None THEN s' = [s EXCEPT !.pc = "Erdy", !.todo = s.rsinks] /\ h' = h
                          ELSE s' = Goto(s, "F") /\ h' = h

\* poll_ready of one requestor sink
ReadyOn(c) ==
    IF s.cbrk[c] = "ready"
    THEN s' = [s EXCEPT !.rsinks = @ \ {c}, !.todo = @ \ {c}] /\ h' = h
    ELSE IF s.crdy[c]
    THEN s' = [s EXCEPT !.todo = @ \ {c}] /\ h' = h
    ELSE s' = [s EXCEPT !.cswk[c] = TRUE, !.pc = "idle"] /\ h' = h

StepErdy ==
    /\ s.pc = "Erdy"
    /\ IF s.todo = {} THEN s' = Goto(s, "Esend") /\ h' = h
       ELSE \E c \in s.todo : ReadyOn(c)

\* Router::start_send (router.rs:104-137)
StepEsend ==
    /\ s.pc = "Esend"
    /\ LET c == s.bufRep[1]
           n == s.bufRep[2]
           tag == s.bufRep[3] IN
       IF tag = "junk" /\ ~FixD16
       THEN s' = Goto(s, "panic") /\ h' = h                  \* unwrap_message on a non-Message frame
       ELSE IF tag # "ok" \/ c \notin s.rsinks
       THEN s' = [s EXCEPT !.bufRep = None, !.pc = "F"] /\ h' = h     \* Err: logged, reply discarded
       ELSE IF s.cbrk[c] = "send"
       THEN s' = [s EXCEPT !.bufRep = None, !.rsinks = @ \ {c}, !.pc = "F"] /\ h' = h
       ELSE /\ s' = [s EXCEPT !.bufRep = None, !.pc = "F"]
            /\ h' = [h EXCEPT !.crecv[c] = Append(@, <<c, n>>)]

StartAt(st) == /\ s' = [s EXCEPT !.start = st, !.idx = st, !.cap = Len(s.streams), !.pc = "Fpoll"]
               /\ h' = h

\* (F) reqrep.rs:215-243  StreamMap of requestor streams
StepF ==
    /\ s.pc = "F"
    /\ IF s.streams = <<>>
       THEN s' = [s EXCEPT !.pc = "flush", !.ret = "cend", !.todo = s.rsinks] /\ h' = h
       ELSE \E st \in 0..(Len(s.streams) - 1) : StartAt(st)

StepFpoll ==
    /\ s.pc = "Fpoll"
    /\ IF s.cap = 0
       THEN IF s.streams = <<>>
            THEN s' = [s EXCEPT !.pc = "flush", !.ret = "cend", !.todo = s.rsinks] /\ h' = h
            ELSE s' = [s EXCEPT !.strPend = TRUE, !.pc = "G"] /\ h' = h
       ELSE LET c == At(s.streams, s.idx) IN
            IF s.cerr[c]
            THEN s' = [s EXCEPT !.cerr[c] = FALSE, !.pc = "G"] /\ h' = h
            ELSE IF s.cq[c] # <<>>
            THEN LET f == Head(s.cq[c]) IN
                 IF f[1] = "junk"
                 THEN IF FixD16 THEN s' = [s EXCEPT !.cq[c] = Tail(@), !.pc = "G"] /\ h' = h
                                ELSE s' = Goto(s, "panic") /\ h' = h
                 ELSE IF s.bufReq # None
                 THEN \* (modelling split) the occupant of buffered_req is about to be overwritten
                      /\ s' = [s EXCEPT !.bufReq = None]
                      /\ h' = HDrop(h, s.bufReq[1], s.bufReq[2])
                 ELSE \* a request: tagged with the stream key and assigned to buffered_req
                      LET n == f[2]
                          fits == f[3]
                          drop == s.server = 0 \/ s.rbrk[s.server] \/ ~fits IN
                      /\ s' = [s EXCEPT !.cq[c] = Tail(@), !.bufReq = <<c, n, fits>>, !.pc = "G"]
                      /\ h' = [h EXCEPT !.taken[c] = Append(@, n),
                                        !.undel = Append(@, <<c, n, drop>>)]
            ELSE IF s.cend[c]
            THEN LET ns == SwapRemove(s.streams, s.idx)
                     m == Len(ns) IN
                 /\ s' = [s EXCEPT !.streams = ns, !.cap = @ - 1,
                                   !.idx = IF s.idx = m THEN 0
                                           ELSE IF s.idx < s.start /\ s.start <= m THEN (s.idx + 1) % m
                                           ELSE s.idx]
                 /\ h' = h
            ELSE /\ s' = [s EXCEPT !.cwk[c] = TRUE, !.cap = @ - 1,
                                   !.idx = (s.idx + 1) % Len(s.streams)]
                 /\ h' = h

StepFend2 == SrvFlush("Fend2", "G", LAMBDA st : [st EXCEPT !.strPend = IF FixD4 THEN TRUE ELSE @], TRUE)

\* (G) reqrep.rs:245-255
StepG ==
    /\ s.pc = "G"
    /\ IF s.srvPend /\ s.strPend
       THEN s' = [s EXCEPT !.pc = "flush", !.ret = "exit", !.todo = s.rsinks] /\ h' = h
       ELSE s' = [s EXCEPT !.pc = "A", !.srvPend = FALSE, !.strPend = FALSE] /\ h' = h

StepGend2 == SrvFlush("Gend2", "idle", Id, TRUE)

RouterNext ==
    \/ StartPoll /\ ahead' = 0
    \/ /\ \/ StepA \/ StepA2 \/ StepB \/ StepB2 \/ StepC \/ StepD \/ StepDend
          \/ StepFlush \/ StepE \/ StepErdy \/ StepEsend \/ StepF \/ StepFpoll
          \/ StepFend2 \/ StepG \/ StepGend2
       /\ UNCHANGED ahead

---------------------------------------------------------------------------
(* Environment (only between outer polls) *)

Idle == s.pc = "idle"
WakeChan(st) == IF st.chanWk THEN [st EXCEPT !.chanWk = FALSE, !.woken = TRUE] ELSE st
WakeCl(st, c) == IF st.cwk[c] THEN [st EXCEPT !.cwk[c] = FALSE, !.woken = TRUE] ELSE st
WakeClS(st, c) == IF st.cswk[c] THEN [st EXCEPT !.cswk[c] = FALSE, !.woken = TRUE] ELSE st
WakeRp(st, r) == IF st.rwk[r] THEN [st EXCEPT !.rwk[r] = FALSE, !.woken = TRUE] ELSE st
WakeRpS(st, r) == IF st.rswk[r] THEN [st EXCEPT !.rswk[r] = FALSE, !.woken = TRUE] ELSE st

RegisterCl(c) ==
    /\ Idle /\ ~s.closed /\ h.cstat[c] = "no"
    /\ s' = WakeChan([s EXCEPT !.chan = Append(@, <<"cl", c>>)])
    /\ h' = [h EXCEPT !.cstat[c] = "queued"]

RegisterSv(r) ==
    /\ Idle /\ ~s.closed /\ h.rstat[r] = "no"
    /\ s' = WakeChan([s EXCEPT !.chan = Append(@, <<"sv", r>>)])
    /\ h' = [h EXCEPT !.rstat[r] = "queued"]

CloseChannel ==
    /\ Idle /\ AllowClose /\ ~s.closed
    /\ s' = WakeChan([s EXCEPT !.closed = TRUE])
    /\ h' = h

ClActive(c) == h.cstat[c] \in {"queued", "live"} /\ ~s.cend[c]

Request(c, fits) ==
    /\ Idle /\ ClActive(c) /\ s.cpub[c] < MaxReqs /\ (fits \/ s.nBig > 0)
    /\ s' = WakeCl([s EXCEPT !.cq[c] = Append(@, <<"req", s.cpub[c] + 1, fits>>),
                             !.cpub[c] = @ + 1,
                             !.nBig = IF fits THEN @ ELSE @ - 1], c)
    /\ h' = h

Junk(c) ==
    /\ Idle /\ ClActive(c) /\ s.nJunk > 0
    /\ s' = WakeCl([s EXCEPT !.cq[c] = Append(@, <<"junk">>), !.nJunk = @ - 1], c)
    /\ h' = h

ClEnds(c) ==
    /\ Idle /\ ClActive(c)
    /\ s' = WakeCl([s EXCEPT !.cend[c] = TRUE], c)
    /\ h' = h

ClErrs(c) ==
    /\ Idle /\ ClActive(c) /\ ~s.cerr[c] /\ s.nErr > 0
    /\ s' = WakeCl([s EXCEPT !.cerr[c] = TRUE, !.nErr = @ - 1], c)
    /\ h' = h

RpActive(r) == h.rstat[r] \in {"queued", "bound"} /\ ~s.rend[r]

\* the replier answers the i-th request it was handed (any order, each once)
Reply(r, i) ==
    /\ Idle /\ RpActive(r) /\ i \in 1..Len(h.rgot[r]) /\ i \notin s.answered[r]
    /\ s' = WakeRp([s EXCEPT !.rq[r] = Append(@, <<h.rgot[r][i][1], h.rgot[r][i][2], "ok">>),
                             !.answered[r] = @ \cup {i}], r)
    /\ h' = h

BadReply(r, tag) ==
    /\ Idle /\ RpActive(r) /\ s.nBad > 0
    /\ s' = WakeRp([s EXCEPT !.rq[r] = Append(@, <<0, 0, tag>>), !.nBad = @ - 1], r)
    /\ h' = h

SvEnds(r) ==
    /\ Idle /\ RpActive(r)
    /\ s' = WakeRp([s EXCEPT !.rend[r] = TRUE], r)
    /\ h' = h

SvErrs(r) ==
    /\ Idle /\ RpActive(r) /\ ~s.rerr[r] /\ s.nErr > 0
    /\ s' = WakeRp([s EXCEPT !.rerr[r] = TRUE, !.nErr = @ - 1], r)
    /\ h' = h

ClBlocks(c, w) ==
    /\ Idle /\ h.cstat[c] \in {"queued", "live"} /\ s.nBlk > 0
    /\ \/ w = "ready" /\ s.crdy[c] /\ s' = [s EXCEPT !.crdy[c] = FALSE, !.nBlk = @ - 1]
       \/ w = "flush" /\ s.cflu[c] /\ s' = [s EXCEPT !.cflu[c] = FALSE, !.nBlk = @ - 1]
    /\ h' = h

ClUnblocks(c, w) ==
    /\ Idle
    /\ \/ w = "ready" /\ ~s.crdy[c] /\ s' = WakeClS([s EXCEPT !.crdy[c] = TRUE], c)
       \/ w = "flush" /\ ~s.cflu[c] /\ s' = WakeClS([s EXCEPT !.cflu[c] = TRUE], c)
    /\ h' = h

SvBlocks(r, w) ==
    /\ Idle /\ h.rstat[r] \in {"queued", "bound", "rejected"} /\ s.nBlk > 0
    /\ \/ w = "ready" /\ s.rrdy[r] /\ s' = [s EXCEPT !.rrdy[r] = FALSE, !.nBlk = @ - 1]
       \/ w = "flush" /\ s.rflu[r] /\ s' = [s EXCEPT !.rflu[r] = FALSE, !.nBlk = @ - 1]
    /\ h' = h

SvUnblocks(r, w) ==
    /\ Idle
    /\ \/ w = "ready" /\ ~s.rrdy[r] /\ s' = WakeRpS([s EXCEPT !.rrdy[r] = TRUE], r)
       \/ w = "flush" /\ ~s.rflu[r] /\ s' = WakeRpS([s EXCEPT !.rflu[r] = TRUE], r)
    /\ h' = h

\* a requestor's connection fails: its sink errs at the given operation
ClBreaks(c, op) ==
    /\ Idle /\ h.cstat[c] \in {"queued", "live"} /\ s.cbrk[c] = "no" /\ s.nBrk > 0
    /\ s' = WakeClS([s EXCEPT !.cbrk[c] = op, !.nBrk = @ - 1], c)
    /\ h' = [h EXCEPT !.chealthy[c] = FALSE]

\* a replier's connection fails: every operation of its sink errs from now on
SvBreaks(r) ==
    /\ Idle /\ h.rstat[r] \in {"queued", "bound", "rejected"} /\ ~s.rbrk[r] /\ s.nBrk > 0
    /\ s' = WakeRpS([s EXCEPT !.rbrk[r] = TRUE, !.nBrk = @ - 1], r)
    /\ h' = [h EXCEPT !.rhealthy[r] = FALSE,
                      !.undel = IF h.rstat[r] = "bound" THEN DroppableAll(@) ELSE @]

EnvStep ==
    \/ \E c \in Cls : RegisterCl(c) \/ Junk(c) \/ ClEnds(c) \/ ClErrs(c)
    \/ \E c \in Cls, f \in BOOLEAN : Request(c, f)
    \/ \E r \in Rps : RegisterSv(r) \/ SvEnds(r) \/ SvErrs(r) \/ SvBreaks(r)
    \/ \E r \in Rps, i \in 1..(MaxReqs * Cardinality(Cls)) : Reply(r, i)
    \/ \E r \in Rps, t \in {"missing", "unknown", "malformed", "junk"} : BadReply(r, t)
    \/ \E c \in Cls, w \in {"ready", "flush"} : ClBlocks(c, w) \/ ClUnblocks(c, w)
    \/ \E r \in Rps, w \in {"ready", "flush"} : SvBlocks(r, w) \/ SvUnblocks(r, w)
    \/ \E c \in Cls, op \in {"ready", "send", "flush"} : ClBreaks(c, op)
    \/ CloseChannel

Wrap(A) == /\ ahead < MaxAhead
           /\ A
           /\ ahead' = IF s'.woken THEN ahead + 1 ELSE 0
EnvNext == Wrap(EnvStep)

\* Time.  No variable of this module is a clock and no action is enabled or disabled by one: the router has
\* no timers, so the passing of any amount of time between two steps is a stuttering step ([Next]_vars allows
\* it).  The harness holds the implementation to that: in a quarter of the schedules the process clock jumps
\* ahead by seconds, minutes or hours between the steps (`tick` events, harness/src/clock.rs), and the recorded
\* behaviour must still be one of this module's.
TimePasses == UNCHANGED vars
Next == RouterNext \/ EnvNext
Spec == Init /\ [][Next]_vars
FairSpec == Spec /\ WF_vars(RouterNext)
                 /\ (\A c \in Cls, w \in {"ready", "flush"} : WF_vars(Wrap(ClUnblocks(c, w))))
                 /\ (\A r \in Rps, w2 \in {"ready", "flush"} : WF_vars(Wrap(SvUnblocks(r, w2))))

---------------------------------------------------------------------------
(* Properties *)

Inv_NoPanic == s.pc # "panic"                                      \* C08, C11
Inv_OneReplier == B!Inv_OneReplier                                 \* C10
Inv_AtMostOnce == B!Inv_AtMostOnce                                 \* C02
Inv_RequestOrder == B!Inv_RequestOrder                             \* C02
Inv_ReplyRouting == B!Inv_ReplyRouting                             \* C02
Inv_RejectedProtocol == B!Inv_RejectedProtocol                     \* C10
Inv_NoLostRequest == B!Inv_NoLostRequest                           \* C02
Inv_ServerMatchesBound ==
    (s.server = 0 /\ B!Bound = {}) \/ (s.server # 0 /\ B!Bound = {s.server})

\* C02: a buffered reply is never overwritten
Prop_NoReplyOverwrite == [][s.bufRep # None => s'.bufRep \in {s.bufRep, None}]_vars
\* every step is a step (or stutter) of the interface specification
Prop_RefinesIface == [][B!RRNext]_(B!rrVars)

AllWritable == (\A c \in Cls : s.crdy[c] /\ s.cflu[c]) /\ (\A r \in Rps : s.rrdy[r] /\ s.rflu[r])
Quiet == s.pc = "idle" /\ ~s.woken /\ AllWritable

InStreams(c) == \E i \in 1..Len(s.streams) : s.streams[i] = c

\* C02 / C09 / C10: an idle, un-woken router whose peers can all accept data
\* has nothing left to do
Inv_QuiescentComplete ==
    Quiet =>
        /\ s.chan = <<>> /\ ~s.closed
        /\ s.bufRep = None /\ s.bufErr = None
        /\ (s.server # 0 /\ ~s.rbrk[s.server]) =>
                /\ s.bufReq = None
                /\ s.rq[s.server] = <<>> /\ ~s.rend[s.server] /\ ~s.rerr[s.server]
                /\ s.rflushed[s.server] = Len(h.rgot[s.server])
        /\ \A c \in Cls : InStreams(c) => (s.cq[c] = <<>> /\ ~s.cend[c] /\ ~s.cerr[c])
        /\ B!RepliesComplete /\ B!RequestsComplete /\ B!RejectedComplete
        /\ \A c \in Cls : (h.cstat[c] = "live" /\ h.chealthy[c]) => s.cflushed[c] = Len(h.crecv[c])

\* C16: completion implies the replies handed over were flushed
Inv_ShutdownFlushed ==
    s.pc = "done" => \A c \in Cls : (h.cstat[c] = "live" /\ h.chealthy[c] /\ c \in s.rsinks)
                                        => s.cflushed[c] = Len(h.crecv[c])

Live_PollTerminates == []<>(s.pc \in {"idle", "done", "panic"})           \* C09
Live_ShutdownTerminates == s.closed ~> (s.pc \in {"done", "panic"})       \* C16
\* C10: a queued replier is eventually bound or rejected
Live_ReplierDecided == \A r \in Rps : (h.rstat[r] = "queued") ~> (h.rstat[r] # "queued" \/ s.pc = "panic")
=============================================================================
