SPECIFICATION TraceSpec
CONSTANTS
  MaxLen = 1048576
  MaxFrames = 3
  MaxChunks = 8
POSTCONDITION TraceAccepted
CHECK_DEADLOCK FALSE
