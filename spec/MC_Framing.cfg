SPECIFICATION FSpec
CONSTANTS
  MaxLen = 2
  MaxFrames = 2
  MaxChunks = 3
INVARIANTS Inv_Reassembly Inv_LimitBeforeBuffering Inv_BoundedBuffer EmitCase
CHECK_DEADLOCK FALSE
