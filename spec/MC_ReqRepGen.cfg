SPECIFICATION GenSpec
CONSTANTS
  Cls = {1}
  Rps = {1, 2}
  MaxReqs = 1
  MaxBlocks = 1
  MaxBreaks = 1
  MaxErrs = 0
  MaxBad = 1
  MaxJunk = 0
  MaxBig = 0
  AllowClose = TRUE
  MaxAhead = 3
  FixD3 = TRUE
  FixD4 = TRUE
  FixD5 = TRUE
  FixD6 = TRUE
  FixD9 = TRUE
  FixD16 = TRUE
  MaxEnv = 5
INVARIANT GenEmit
CHECK_DEADLOCK FALSE
