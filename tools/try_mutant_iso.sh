#!/bin/bash
# try_mutant_iso.sh <patch.diff> <property ids...>: run the quick checks against a scratch worktree of
# /repo with the patch applied and a scratch copy of /verif (so /repo and /verif stay untouched and
# other checks may run at the same time).  Everything is removed afterwards.
patch=$(readlink -f "$1"); shift
iso=/tmp/iso-$$
mkdir -p $iso
git -C /repo worktree add --detach $iso/repo HEAD >/dev/null 2>&1 || { echo "worktree failed"; exit 2; }
( cd $iso/repo && git apply "$patch" ) || { echo "patch does not apply"; git -C /repo worktree remove --force $iso/repo; rm -rf $iso; exit 2; }
rsync -a --exclude .work --exclude .cache --exclude .git --exclude replays --exclude harness/target/release /verif/ $iso/verif/
sed -i "s|/repo/|$iso/repo/|" $iso/verif/harness/Cargo.toml
cd $iso/verif
for p in "$@"; do
  echo "=== $p"
  VERIF_REPO=$iso/repo ./check "$p" ${TIER:+--tier $TIER} 2>&1 | grep -E "VIOLATION|signature|KNOWN|TOOL-ERROR|done in|flagged|NOTE " | head -12
done
cd /
git -C /repo worktree remove --force $iso/repo
rm -rf $iso
git -C /repo worktree prune
