#!/usr/bin/env python3
"""Regenerates /verif/MANIFEST.json from the table below (kept next to the checks it describes)."""
import json, os, subprocess
V = os.path.dirname(os.path.dirname(os.path.abspath(__file__)))
props = [json.loads(l) for l in open(os.path.join(V, "properties.jsonl"))]

ROUTER_NOTE = ("Bounded constants (listed in the evidence per configuration); mocks stand in for QUIC streams; "
               "futures-mpsc and StreamMap semantics are modelled from their source; environment steps occur between outer polls.")
CLAIMS = {
 "C01": dict(level="model_checking", tech="TLC model checking of PubSubRouter.tla (one action per inner poll, waker slots) against PubSubIface.tla; TLC-generated + random schedules replayed on the real pubsub::Topic; TLC trace validation (Trace_PubSubIface.tla); system level: the same schedules replayed with real publishers/subscribers over QUIC (Trace_Fanout.tla); ServerReg.tla one-router-per-topic + concurrent first registrations (Trace_ServerReg.tla)",
             text="Exhaustive exploration of the implementation-shaped pub/sub router model for small constants (order, exactly-once, quiescent completeness, refinement of the interface spec, liveness of a poll), bound to the code by replaying TLC-generated and random schedules on the real router future and validating every recorded trace with TLC against the interface specification.",
             note=ROUTER_NOTE, ref="DESIGN.md 4 C01"),
 "C02": dict(level="model_checking", tech="TLC model checking of ReqRepRouter.tla against ReqRepIface.tla (4 configurations); schedules replayed on the real reqrep::Topic; TLC trace validation (Trace_ReqRepIface.tla); ServerReg.tla one-router-per-topic + concurrent first registrations over QUIC (Trace_ServerReg.tla)",
             text="Exhaustive exploration of the implementation-shaped request/reply router model (routing, at-most-once, per-requestor order, origin tag, reply overwrite, bad tags) for small constants; conformance by replaying generated/random schedules on the real router with real Frames and header maps and validating traces with TLC.",
             note=ROUTER_NOTE, ref="DESIGN.md 4 C02"),
 "C08": dict(level="model_checking", tech="TLC model checking of both router modules with failure injection (per position x operation) + trace validation of replayed fault schedules",
             text="Failure of any subscriber/requestor sink at ready/send/flush, of the replier's connection, and error/end of publisher/requestor/replier streams are environment actions of both router models; TLC explores every placement for the bound; fault schedules are replayed on the real routers and validated (healthy peers' histories, no panic, rebind).",
             note=ROUTER_NOTE, ref="DESIGN.md 4 C08"),
 "C09": dict(level="model_checking", tech="TLC liveness (poll terminates) + quiescent-completeness invariant on both router modules with explicit waker slots; wake-driven executor replay + trace validation (spin budget, work bound, quiescent obligations)",
             text="The router models carry the waker slots of every child and a wake-driven executor; TLC checks that every outer poll terminates and that an idle un-woken router has no undone work; the harness executor re-polls only on wake-up, counts inner polls, and every quiescent point of every replayed schedule is validated.",
             note=ROUTER_NOTE, ref="DESIGN.md 4 C09"),
 "C10": dict(level="model_checking", tech="TLC model checking of ReqRepRouter.tla (3 repliers: bind/reject/rebind, liveness of the decision) + trace validation against ReqRepIface.tla; ReplierLife.tla (bound / standby / take-over with the client library's keep-alive; liveness) model-checked and its schedules replayed with real repliers against the real server (Trace_ReplierLife.tla)",
             text="At most one bound replier, reject = error frame then close and nothing else, bound replier unaffected, rebind after departure: invariants and refinement checked exhaustively for 3 repliers; replayed schedules validated.",
             note=ROUTER_NOTE, ref="DESIGN.md 4 C10"),
 "C16": dict(level="model_checking", tech="TLC: CloseChannel enabled in every idle state of both router models; Live_ShutdownTerminates + Inv_ShutdownFlushed; close schedules replayed on the real routers and validated; ServerLife.tla (registrations racing with Server::shutdown, two locks, close-then-join; liveness) model-checked and TLC-enumerated situations built with a real server that receives the interrupt signal (Trace_ServerLife.tla)",
             text="Shutdown from every reachable router state of the bounded models terminates and flushes; the real routers are driven through close_channel() at TLC-chosen points under the wake-driven executor and must report `finished` with everything flushed.",
             note=ROUTER_NOTE, ref="DESIGN.md 4 C16"),
}
EXTRA = os.path.join(V, "tools", "claims_extra.json")
if os.path.exists(EXTRA):
    CLAIMS.update(json.load(open(EXTRA)))

checks = []
for pid in sorted(CLAIMS):
    c = CLAIMS[pid]
    checks.append({
        "property_id": pid,
        "quick_cmd": "./check %s --tier quick" % pid,
        "thorough_cmd": "./check %s --tier thorough" % pid,
        "evidence_file": "/verif/evidence/%s.json" % pid,
        "replay_cmd_template": "./check %s --replay {path}" % pid,
        "engine": "tlc+harness",
        "technique": c["tech"],
        "level_claimed": {"category": c["level"], "text": c["text"], "design_ref": c["ref"]},
        "level_note": c["note"],
    })
hooks = subprocess.run(["git", "-C", "/repo", "log", "--format=%h %s"], capture_output=True, text=True).stdout.splitlines()
hook_commits = [l.split()[0] for l in hooks if l.split(" ", 1)[1].startswith("verif hooks")]
m = {
 "version": 1,
 "setup_cmd": "./setup.sh",
 "hooks": {"guard": "--cfg selium_verif",
           "enable": "harness/.cargo/config.toml passes --cfg selium_verif to rustc for the harness build, which compiles the /repo crates as path dependencies",
           "baseline_off_cmd": "cd /repo && cargo test --workspace --no-fail-fast --offline",
           "source_commits": hook_commits, "add_only": True},
 "engines": [{"name": "tlc+harness", "path": "/verif/check", "serves_properties": sorted(CLAIMS),
              "kind_free_text": "explicit TLA+ specifications (spec/) checked with TLC; Rust conformance harness (harness/) replays TLC-generated schedules/cases on the real code; TLC validates the recorded traces against the specifications"}],
 "checks": checks,
 "not_applicable": [{"property_id": p["id"], "reason": "check not built yet in this round (planned, see DESIGN.md section 4)"}
                    for p in props if p["id"] not in CLAIMS],
 "notes": "DESIGN.md explains the approach; known_findings.json lists fixed/open findings; ./check --selftest demonstrates the binding (corrupted traces rejected, deviation constants produce counterexamples).",
}
json.dump(m, open(os.path.join(V, "MANIFEST.json"), "w"), indent=1)
print("claimed:", sorted(CLAIMS))
