#!/bin/bash
# verify_mutant.sh <worktree> <demo cargo args...>
# Confirms in the scratch worktree: builds, pinned unit tests pass with the change,
# demo fails with the change and passes without it.
wt=$1; shift
cd "$wt" || exit 2
export CARGO_NET_OFFLINE=true
git diff --stat -- . ':!MUTANT' | tail -3
echo "== pinned unit tests with the change"
cargo test --workspace --offline --lib 2>&1 | grep -E "^test result" | awk '{p+=$4; f+=$6} END {print "passed="p" failed="f}'
echo "== demo with the change (must fail)"
cargo test --offline "$@" 2>&1 | grep -E "^test result|^test .* (ok|FAILED)" | tail -6
echo "== demo without the change (must pass)"
git apply -R MUTANT/patch.diff || { echo "cannot revert"; exit 2; }
cargo test --offline "$@" 2>&1 | grep -E "^test result|^test .* (ok|FAILED)" | tail -6
git apply MUTANT/patch.diff
