#!/bin/bash
# try_mutant.sh <patch.diff> <property ids...>: apply to /repo, run the quick checks, undo.
patch=$1; shift
cd /repo && git apply "$patch" || { echo "patch does not apply"; exit 2; }
cd /verif
for p in "$@"; do
  echo "=== $p"
  ./check "$p" 2>&1 | grep -E "VIOLATION|signature|KNOWN|TOOL-ERROR|done in|flagged|NOTE spec-drift" | head -12
done
cd /repo && git checkout -- . && git status --short | head -3
