//! Conformance harness shared code: event log (ndjson), wake-driven executor,
//! scripted mock streams/sinks.
pub mod clock;
pub mod evlog;
pub mod exec;
pub mod mock;
pub mod e2e;

/// Inner polls allowed inside one outer poll of a router before the mocks abort the poll
/// (reported as a `spin` outcome). Far above the work bound the specification allows.
pub const SPIN_BUDGET: u64 = 20_000;
pub const SPIN_MARKER: &str = "VERIF_SPIN_BUDGET_EXCEEDED";

pub fn seed_from_env() -> u64 {
    std::env::var("VERIF_SEED")
        .ok()
        .and_then(|s| s.parse::<u64>().ok())
        .unwrap_or(1)
}

/// Silence the default panic printer: a panic in code under test is data.
pub fn quiet_panics() {
    if std::env::var("VERIF_LOUD").is_ok() {
        return;
    }
    std::panic::set_hook(Box::new(|_| {}));
}

pub fn panic_message(e: &Box<dyn std::any::Any + Send>) -> String {
    if let Some(s) = e.downcast_ref::<&str>() {
        s.to_string()
    } else if let Some(s) = e.downcast_ref::<String>() {
        s.clone()
    } else {
        "<non-string panic>".to_string()
    }
}

/// `decode_message_batch` returned a bare `Vec` before the defect repair and a `Result` after it;
/// the harness must build (and judge) both shapes.
pub trait BatchResult {
    fn into_res(self) -> Result<Vec<bytes::Bytes>, String>;
}
impl BatchResult for Vec<bytes::Bytes> {
    fn into_res(self) -> Result<Vec<bytes::Bytes>, String> {
        Ok(self)
    }
}
impl<E: std::fmt::Display> BatchResult for Result<Vec<bytes::Bytes>, E> {
    fn into_res(self) -> Result<Vec<bytes::Bytes>, String> {
        self.map_err(|e| e.to_string())
    }
}
