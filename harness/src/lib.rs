//! Conformance harness shared code: event log (ndjson), wake-driven executor,
//! scripted mock streams/sinks.
pub mod clock;
pub mod evlog;
pub mod exec;
pub mod mock;
pub mod e2e;

/// Inner polls allowed inside one outer poll of a router before the mocks abort the poll
/// (reported as a `spin` outcome). Far above the work bound the specification allows.
pub const SPIN_BUDGET: u64 = 20_000;
pub const SPIN_MARKER: &str = "VERIF_SPIN_BUDGET_EXCEEDED";

pub fn seed_from_env() -> u64 {
    std::env::var("VERIF_SEED")
        .ok()
        .and_then(|s| s.parse::<u64>().ok())
        .unwrap_or(1)
}

/// Silence the default panic printer: a panic in code under test is data.
pub fn quiet_panics() {
    if std::env::var("VERIF_LOUD").is_ok() {
        return;
    }
    std::panic::set_hook(Box::new(|_| {}));
}

pub fn panic_message(e: &Box<dyn std::any::Any + Send>) -> String {
    if let Some(s) = e.downcast_ref::<&str>() {
        s.to_string()
    } else if let Some(s) = e.downcast_ref::<String>() {
        s.clone()
    } else {
        "<non-string panic>".to_string()
    }
}

/// `decode_message_batch` returned a bare `Vec` before the defect repair and a `Result` after it;
/// the harness must build (and judge) both shapes.
pub trait BatchResult {
    fn into_res(self) -> Result<Vec<bytes::Bytes>, String>;
}
impl BatchResult for Vec<bytes::Bytes> {
    fn into_res(self) -> Result<Vec<bytes::Bytes>, String> {
        Ok(self)
    }
}
impl<E: std::fmt::Display> BatchResult for Result<Vec<bytes::Bytes>, E> {
    fn into_res(self) -> Result<Vec<bytes::Bytes>, String> {
        self.map_err(|e| e.to_string())
    }
}

/// Watchdog for the mock-driven router harnesses.  The spin budget counts the router's calls into its children;
/// a router that loops *without* touching a child never spends it.  `POLL_SEQ` is odd while an outer poll is
/// running; a thread started with `start_watchdog` ends the process (exit code 3, after recording a `poll_end`
/// with `res = "spin"` and a summary line) when one outer poll has been running for five seconds of real time.
pub static POLL_SEQ: std::sync::atomic::AtomicU64 = std::sync::atomic::AtomicU64::new(0);
pub static CUR_RUN: std::sync::atomic::AtomicU64 = std::sync::atomic::AtomicU64::new(0);

pub fn start_watchdog(log: evlog::EvLog, total: usize) {
    use std::sync::atomic::Ordering;
    std::thread::spawn(move || {
        let (mut last, mut same) = (0u64, 0u32);
        loop {
            std::thread::sleep(std::time::Duration::from_millis(100));
            let seq = POLL_SEQ.load(Ordering::SeqCst);
            if seq % 2 == 1 && seq == last {
                same += 1;
            } else {
                same = 0;
                last = seq;
            }
            if same >= 50 {
                log.emit("poll_end", serde_json::json!({"res": "spin", "inner": 0, "msg": "one poll has been running for 5 s without returning (watchdog)"}));
                log.flush();
                println!("{}", serde_json::json!({"runs": CUR_RUN.load(Ordering::SeqCst), "of": total, "events": log.lines(), "dead": 1, "watchdog": true}));
                std::process::exit(3);
            }
        }
    });
}

