//! Scripted mock `Stream`s and `Sink`s over `Frame`. Their answers are decided by a mode
//! the driver sets between outer polls; they register the task's waker only when they
//! answer `Pending`, and firing a waker consumes it -- like the real transports.
use crate::evlog::EvLog;
use crate::{SPIN_BUDGET, SPIN_MARKER};
use bytes::BytesMut;
use futures::{Sink, Stream};
use selium_protocol::{Frame, MessageCodec};
use serde_json::{json, Value};
use std::collections::VecDeque;
use std::pin::Pin;
use std::sync::{Arc, Mutex};
use std::task::{Context, Poll, Waker};
use tokio_util::codec::{Decoder, Encoder};

#[derive(Debug, Clone)]
pub struct MockErr(pub String);
impl std::fmt::Display for MockErr {
    fn fmt(&self, f: &mut std::fmt::Formatter<'_>) -> std::fmt::Result {
        write!(f, "{}", self.0)
    }
}
impl std::error::Error for MockErr {}

pub type Describe = Arc<dyn Fn(&Frame) -> Value + Send + Sync>;

fn merge(mut base: Value, extra: Value) -> Value {
    if let (Value::Object(b), Value::Object(e)) = (&mut base, extra) {
        for (k, v) in e {
            b.insert(k, v);
        }
    }
    base
}

fn count(log: &EvLog) {
    if log.count_inner() > SPIN_BUDGET {
        panic!("{}", SPIN_MARKER);
    }
}

// ---------------------------------------------------------------- sink

pub struct SinkState {
    pub role: &'static str,
    pub id: u64,
    pub ready_ok: bool,
    pub flush_ok: bool,
    /// operation at which the sink fails: "ready" | "send" | "flush" | "close" | "all"
    pub brk: Option<String>,
    /// run the real wire encoder on start_send and fail like the real sink if it refuses
    pub encode_check: bool,
    /// with `encode_check`: the bytes written and not yet looked at -- the write buffer of the real
    /// framed writer persists across sends, so whatever a refused frame leaves behind goes out too
    pub wire: BytesMut,
    /// the byte stream no longer decodes to the frames that were accepted
    pub wire_broken: bool,
    pub waker: Option<Waker>,
    pub recv: Vec<Frame>,
    pub flushed: usize,
    pub closed: bool,
    pub dropped: bool,
}

#[derive(Clone)]
pub struct SinkHandle(pub Arc<Mutex<SinkState>>);

impl SinkHandle {
    pub fn new(role: &'static str, id: u64) -> Self {
        SinkHandle(Arc::new(Mutex::new(SinkState {
            role,
            id,
            ready_ok: true,
            flush_ok: true,
            brk: None,
            encode_check: false,
            wire: BytesMut::new(),
            wire_broken: false,
            waker: None,
            recv: vec![],
            flushed: 0,
            closed: false,
            dropped: false,
        })))
    }
    pub fn st(&self) -> std::sync::MutexGuard<'_, SinkState> {
        self.0.lock().unwrap_or_else(|e| e.into_inner())
    }
    /// fire the waker this sink holds, if any; returns whether one fired
    pub fn fire(&self) -> bool {
        let w = self.st().waker.take();
        match w {
            Some(w) => {
                w.wake();
                true
            }
            None => false,
        }
    }
    pub fn writable(&self) -> bool {
        let s = self.st();
        s.ready_ok && s.flush_ok
    }
}

pub struct MockSink {
    pub h: SinkHandle,
    pub log: EvLog,
    pub describe: Describe,
}

impl MockSink {
    fn fails(&self, op: &str) -> bool {
        match self.h.st().brk.as_deref() {
            Some("all") => true,
            Some(o) => o == op,
            None => false,
        }
    }
    fn ev(&self, name: &str, res: &str, extra: Value) {
        let (role, id) = {
            let s = self.h.st();
            (s.role, s.id)
        };
        self.log.emit(
            name,
            merge(json!({"role": role, "id": id, "res": res}), extra),
        );
    }
}

impl Drop for MockSink {
    fn drop(&mut self) {
        self.h.st().dropped = true;
    }
}

impl Sink<Frame> for MockSink {
    type Error = MockErr;

    fn poll_ready(self: Pin<&mut Self>, cx: &mut Context<'_>) -> Poll<Result<(), MockErr>> {
        count(&self.log);
        if self.fails("ready") {
            self.ev("si_ready", "err", json!({}));
            return Poll::Ready(Err(MockErr("ready".into())));
        }
        let ok = self.h.st().ready_ok;
        if ok {
            self.ev("si_ready", "ok", json!({}));
            Poll::Ready(Ok(()))
        } else {
            self.h.st().waker = Some(cx.waker().clone());
            self.ev("si_ready", "pending", json!({}));
            Poll::Pending
        }
    }

    fn start_send(self: Pin<&mut Self>, item: Frame) -> Result<(), MockErr> {
        count(&self.log);
        let d = (self.describe)(&item);
        if self.fails("send") {
            self.ev("si_send", "err", d);
            return Err(MockErr("send".into()));
        }
        let mut d = d;
        if self.h.st().encode_check {
            let r = {
                let mut st = self.h.st();
                MessageCodec.encode(item.clone(), &mut st.wire)
            };
            if let Err(e) = r {
                self.ev("si_send", "err", merge(d, json!({"why": e.to_string()})));
                return Err(MockErr(format!("encode: {e}")));
            }
            // what the peer reads from the bytes written since the last look: exactly this frame
            let wire_ok = {
                let mut st = self.h.st();
                if !st.wire_broken {
                    let got = MessageCodec.decode(&mut st.wire);
                    let ok = matches!(&got, Ok(Some(f)) if *f == item) && st.wire.is_empty();
                    if !ok {
                        st.wire_broken = true;
                    }
                }
                !st.wire_broken
            };
            if !wire_ok {
                d = merge(d, json!({"intact": false, "wire_ok": false}));
            }
        }
        self.h.st().recv.push(item);
        self.ev("si_send", "ok", d);
        Ok(())
    }

    fn poll_flush(self: Pin<&mut Self>, cx: &mut Context<'_>) -> Poll<Result<(), MockErr>> {
        count(&self.log);
        if self.fails("flush") {
            self.ev("si_flush", "err", json!({}));
            return Poll::Ready(Err(MockErr("flush".into())));
        }
        let ok = self.h.st().flush_ok;
        if ok {
            let n = {
                let mut s = self.h.st();
                s.flushed = s.recv.len();
                s.flushed
            };
            self.ev("si_flush", "ok", json!({"n": n}));
            Poll::Ready(Ok(()))
        } else {
            self.h.st().waker = Some(cx.waker().clone());
            self.ev("si_flush", "pending", json!({}));
            Poll::Pending
        }
    }

    fn poll_close(self: Pin<&mut Self>, cx: &mut Context<'_>) -> Poll<Result<(), MockErr>> {
        count(&self.log);
        if self.fails("close") || self.fails("flush") {
            self.ev("si_close", "err", json!({}));
            return Poll::Ready(Err(MockErr("close".into())));
        }
        let ok = self.h.st().flush_ok;
        if ok {
            let n = {
                let mut s = self.h.st();
                s.flushed = s.recv.len();
                s.closed = true;
                s.flushed
            };
            self.ev("si_close", "ok", json!({"n": n}));
            Poll::Ready(Ok(()))
        } else {
            self.h.st().waker = Some(cx.waker().clone());
            self.ev("si_close", "pending", json!({}));
            Poll::Pending
        }
    }
}

// ---------------------------------------------------------------- stream

pub struct StreamState {
    pub role: &'static str,
    pub id: u64,
    pub queue: VecDeque<Frame>,
    pub ended: bool,
    pub err_next: bool,
    pub waker: Option<Waker>,
    pub yielded: u64,
    pub dropped: bool,
}

#[derive(Clone)]
pub struct StreamHandle(pub Arc<Mutex<StreamState>>);

impl StreamHandle {
    pub fn new(role: &'static str, id: u64) -> Self {
        StreamHandle(Arc::new(Mutex::new(StreamState {
            role,
            id,
            queue: VecDeque::new(),
            ended: false,
            err_next: false,
            waker: None,
            yielded: 0,
            dropped: false,
        })))
    }
    pub fn st(&self) -> std::sync::MutexGuard<'_, StreamState> {
        self.0.lock().unwrap_or_else(|e| e.into_inner())
    }
    pub fn fire(&self) -> bool {
        let w = self.st().waker.take();
        match w {
            Some(w) => {
                w.wake();
                true
            }
            None => false,
        }
    }
}

pub struct MockStream {
    pub h: StreamHandle,
    pub log: EvLog,
    pub describe: Describe,
}

impl Drop for MockStream {
    fn drop(&mut self) {
        self.h.st().dropped = true;
    }
}

impl Stream for MockStream {
    type Item = selium_std::errors::Result<Frame>;

    fn poll_next(self: Pin<&mut Self>, cx: &mut Context<'_>) -> Poll<Option<Self::Item>> {
        count(&self.log);
        let (role, id) = {
            let s = self.h.st();
            (s.role, s.id)
        };
        let mut s = self.h.st();
        if s.err_next {
            s.err_next = false;
            drop(s);
            self.log
                .emit("st_poll", json!({"role": role, "id": id, "res": "err"}));
            return Poll::Ready(Some(Err(selium_std::errors::SeliumError::RequestFailed)));
        }
        if let Some(f) = s.queue.pop_front() {
            s.yielded += 1;
            drop(s);
            let d = (self.describe)(&f);
            self.log.emit(
                "st_poll",
                merge(json!({"role": role, "id": id, "res": "item"}), d),
            );
            return Poll::Ready(Some(Ok(f)));
        }
        if s.ended {
            drop(s);
            self.log
                .emit("st_poll", json!({"role": role, "id": id, "res": "end"}));
            return Poll::Ready(None);
        }
        s.waker = Some(cx.waker().clone());
        drop(s);
        self.log
            .emit("st_poll", json!({"role": role, "id": id, "res": "pending"}));
        Poll::Pending
    }
}
