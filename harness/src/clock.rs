//! Virtual time for the mock-driven router harnesses.
//!
//! The routers have no timers: nothing in PubSubRouter.tla / ReqRepRouter.tla depends on a clock, so
//! letting time pass between two steps of a schedule is a stuttering step of the specification.  To
//! hold the implementation to that, a harness binary that invokes `virtual_clock!()` answers the
//! process's `clock_gettime` calls itself (the definition in the executable takes precedence over
//! libc's; std's `Instant`/`SystemTime` and everything built on them go through it) and adds an
//! offset that `advance()` moves forward -- seconds to hours in no real time.
use std::sync::atomic::{AtomicI64, Ordering};
use std::time::Duration;

pub static OFFSET_NS: AtomicI64 = AtomicI64::new(0);

/// let `d` pass for everything in this process that reads a clock
pub fn advance(d: Duration) {
    OFFSET_NS.fetch_add(d.as_nanos() as i64, Ordering::SeqCst);
}

#[macro_export]
macro_rules! virtual_clock {
    () => {
        #[no_mangle]
        pub unsafe extern "C" fn clock_gettime(clk: libc::clockid_t, ts: *mut libc::timespec) -> libc::c_int {
            let r = libc::syscall(libc::SYS_clock_gettime, clk as libc::c_long, ts) as libc::c_int;
            if r == 0 && !ts.is_null() {
                let off = $crate::clock::OFFSET_NS.load(std::sync::atomic::Ordering::SeqCst);
                if off != 0 && (clk == libc::CLOCK_MONOTONIC || clk == libc::CLOCK_MONOTONIC_RAW || clk == libc::CLOCK_MONOTONIC_COARSE
                    || clk == libc::CLOCK_BOOTTIME || clk == libc::CLOCK_REALTIME || clk == libc::CLOCK_REALTIME_COARSE)
                {
                    let total = (*ts).tv_nsec as i64 + off % 1_000_000_000;
                    (*ts).tv_sec += (off / 1_000_000_000 + total / 1_000_000_000) as libc::time_t;
                    (*ts).tv_nsec = (total % 1_000_000_000) as _;
                }
            }
            r
        }
    };
}
