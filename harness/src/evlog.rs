//! ndjson event log. One object per line, sequence-numbered on the driver thread.
use serde_json::{json, Map, Value};
use std::io::Write;
use std::sync::{Arc, Mutex};

pub struct EvLogInner {
    out: Box<dyn Write + Send>,
    pub seq: u64,
    pub run: u64,
    /// inner polls since the last poll_begin
    pub inner: u64,
    pub lines: u64,
    /// mock events of a runaway poll are not recorded past this many inner polls
    pub muted: bool,
    /// the events of the current run (kept for replay files)
    pub current: Vec<String>,
}

/// inner polls of one outer poll after which the trace is muted (a spinning router would otherwise
/// write the spin budget's worth of events); bursts of several hundred ready items stay below it
pub const MUTE_AT: u64 = 10_000;

#[derive(Clone)]
pub struct EvLog(pub Arc<Mutex<EvLogInner>>);

impl EvLog {
    pub fn to_file(path: &str) -> std::io::Result<Self> {
        let f = std::fs::File::create(path)?;
        Ok(Self::new(Box::new(std::io::BufWriter::new(f))))
    }

    pub fn new(out: Box<dyn Write + Send>) -> Self {
        EvLog(Arc::new(Mutex::new(EvLogInner {
            out,
            seq: 0,
            run: 0,
            inner: 0,
            lines: 0,
            muted: false,
            current: vec![],
        })))
    }

    fn lock(&self) -> std::sync::MutexGuard<'_, EvLogInner> {
        self.0.lock().unwrap_or_else(|e| e.into_inner())
    }

    /// Emit one event. `fields` must be a JSON object; `ev`, `run`, `seq` are added.
    pub fn emit(&self, ev: &str, fields: Value) {
        let mut g = self.lock();
        if g.muted {
            return;
        }
        g.seq += 1;
        let mut m = Map::new();
        m.insert("ev".into(), json!(ev));
        m.insert("run".into(), json!(g.run));
        m.insert("seq".into(), json!(g.seq));
        if let Value::Object(o) = fields {
            for (k, v) in o {
                m.insert(k, v);
            }
        }
        let line = Value::Object(m).to_string();
        let _ = writeln!(g.out, "{}", line);
        g.lines += 1;
        g.current.push(line);
    }

    pub fn reset(&self, run: u64, meta: Value) {
        {
            let mut g = self.lock();
            g.run = run;
            g.seq = 0;
            g.inner = 0;
            g.current.clear();
        }
        self.emit("reset", meta);
    }

    pub fn count_inner(&self) -> u64 {
        let mut g = self.lock();
        g.inner += 1;
        if g.inner == MUTE_AT {
            drop(g);
            self.emit("muted", json!({"after_inner": MUTE_AT}));
            g = self.lock();
            g.muted = true;
        }
        g.inner
    }

    pub fn take_inner(&self) -> u64 {
        let mut g = self.lock();
        let n = g.inner;
        g.inner = 0;
        g.muted = false;
        n
    }

    /// Appends the events recorded by another (private) log as one contiguous block.
    pub fn append_block(&self, other: &EvLog) {
        let lines = other.lock().current.clone();
        let mut g = self.lock();
        for l in lines {
            let _ = writeln!(g.out, "{}", l);
            g.lines += 1;
        }
    }

    pub fn lines(&self) -> u64 {
        self.lock().lines
    }

    pub fn flush(&self) {
        let _ = self.lock().out.flush();
    }
}
