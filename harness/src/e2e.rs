// e2e helpers (filled in later)
