//! Loopback-QUIC helpers: fresh certificates from the bundled generator, an in-process
//! server on its own runtime, client connections, raw (library-bypassing) peers.
use anyhow::{anyhow, Context, Result};
use clap::Parser;
use quinn::{ClientConfig, Connection, Endpoint, TransportConfig};
use rustls::{Certificate, PrivateKey, RootCertStore};
use selium::keep_alive::BackoffStrategy;
use selium::Client;
use selium_protocol::BiStream;
use selium_server::args::UserArgs;
use selium_server::server::Server;
use std::net::SocketAddr;
use std::path::{Path, PathBuf};
use std::sync::Arc;
use std::time::Duration;

/// Generates `dir/client/*` and `dir/server/*` with the bundled generator, in a child process
/// (the generator prints to stdout).
pub fn gen_certs(dir: &Path) -> Result<()> {
    gen_certs_opts(dir, false)
}

/// the same with the generator's `--no-expiry` choice; the directory may hold an earlier set
pub fn gen_certs_opts(dir: &Path, no_expiry: bool) -> Result<()> {
    let exe = std::env::current_exe()?;
    let st = std::process::Command::new(exe)
        .args(["gen-certs", dir.to_str().unwrap(), if no_expiry { "no-expiry" } else { "expiring" }])
        .stdout(std::process::Stdio::null())
        .stderr(std::process::Stdio::null())
        .status()?;
    if !st.success() {
        return Err(anyhow!("certificate generation failed"));
    }
    Ok(())
}

/// to be called by the binary's `gen-certs` subcommand
pub fn gen_certs_here(dir: &Path, no_expiry: bool) -> Result<()> {
    use selium_tools::cli::GenCertsArgs;
    use selium_tools::commands::gen_certs::GenCertsRunner;
    use selium_tools::traits::CommandRunner;
    GenCertsRunner::from(GenCertsArgs {
        server_out_path: dir.join("server"),
        client_out_path: dir.join("client"),
        no_expiry,
    })
    .run()
}

pub struct ServerHandle {
    pub addr: SocketAddr,
    rt: Option<tokio::runtime::Runtime>,
    /// receives one message when `Server::listen` returns (graceful shutdown finished)
    pub listen_done: Option<std::sync::mpsc::Receiver<std::result::Result<(), String>>>,
}

impl ServerHandle {
    /// a handle that owns no server (used while swapping servers on a port)
    pub fn placeholder(addr: SocketAddr) -> Self {
        ServerHandle { addr, rt: None, listen_done: None }
    }
    /// stop the server at once (drops its runtime, releasing the UDP port)
    pub fn stop(mut self) {
        if let Some(rt) = self.rt.take() {
            rt.shutdown_background();
        }
    }
}
impl Drop for ServerHandle {
    fn drop(&mut self) {
        if let Some(rt) = self.rt.take() {
            rt.shutdown_background();
        }
    }
}

/// Starts the real server (selium_server::server::Server) on its own runtime.
pub fn start_server(certs: &Path, bind: &str) -> Result<ServerHandle> {
    let args = UserArgs::parse_from([
        "",
        "--bind-addr",
        bind,
        "--cert",
        certs.join("server/localhost.der").to_str().unwrap(),
        "--key",
        certs.join("server/localhost.key.der").to_str().unwrap(),
        "--ca",
        certs.join("server/ca.der").to_str().unwrap(),
    ]);
    let rt = tokio::runtime::Builder::new_multi_thread().worker_threads(4).enable_all().build()?;
    let (tx, rx) = std::sync::mpsc::channel();
    let (done_tx, done_rx) = std::sync::mpsc::channel();
    rt.spawn(async move {
        match Server::try_from(args) {
            Ok(server) => {
                let _ = tx.send(server.addr().map_err(|e| e.to_string()));
                let r = server.listen().await;
                let _ = done_tx.send(r.map_err(|e| e.to_string()));
            }
            Err(e) => {
                let _ = tx.send(Err(e.to_string()));
            }
        }
    });
    // never drop the runtime implicitly: that panics when called from an asynchronous context
    match rx.recv_timeout(Duration::from_secs(10)) {
        Ok(Ok(addr)) => Ok(ServerHandle { addr, rt: Some(rt), listen_done: Some(done_rx) }),
        Ok(Err(e)) => {
            rt.shutdown_background();
            Err(anyhow!(e))
        }
        Err(e) => {
            rt.shutdown_background();
            Err(anyhow!("server start: {e}"))
        }
    }
}

pub async fn connect_client(addr: SocketAddr, certs: &Path, backoff: BackoffStrategy) -> Result<Client> {
    Ok(selium::custom()
        .keep_alive(5_000u64)?
        .backoff_strategy(backoff)
        .endpoint(&addr.to_string())
        .with_certificate_authority(certs.join("client/ca.der"))?
        .with_cert_and_key(certs.join("client/localhost.der"), certs.join("client/localhost.key.der"))?
        .connect()
        .await?)
}

pub fn read_der(p: PathBuf) -> Result<Vec<u8>> {
    std::fs::read(&p).with_context(|| format!("read {p:?}"))
}

/// A raw QUIC connection with explicit identity material (None = no client certificate).
pub async fn raw_connect(addr: SocketAddr, ca_der: &[u8], identity: Option<(Vec<u8>, Vec<u8>)>) -> Result<Connection> {
    raw_connect_chain(addr, ca_der, identity.map(|(c, k)| (vec![c], k))).await
}

/// like `raw_connect`, presenting an arbitrary certificate chain
pub async fn raw_connect_chain(addr: SocketAddr, ca_der: &[u8], identity: Option<(Vec<Vec<u8>>, Vec<u8>)>) -> Result<Connection> {
    raw_connect_opts(addr, ca_der, identity, None).await
}

/// a trusted raw peer that advertises a tiny per-stream receive window: whatever the server
/// writes to one of its streams blocks on flow control unless the peer reads
pub async fn raw_connect_tiny_window(addr: SocketAddr, certs: &Path, window: u32) -> Result<Connection> {
    raw_connect_opts(
        addr,
        &read_der(certs.join("client/ca.der"))?,
        Some((vec![read_der(certs.join("client/localhost.der"))?], read_der(certs.join("client/localhost.key.der"))?)),
        Some(window),
    )
    .await
}

pub async fn raw_connect_opts(addr: SocketAddr, ca_der: &[u8], identity: Option<(Vec<Vec<u8>>, Vec<u8>)>, stream_window: Option<u32>) -> Result<Connection> {
    let mut roots = RootCertStore::empty();
    roots.add(&Certificate(ca_der.to_vec()))?;
    let builder = rustls::ClientConfig::builder().with_safe_defaults().with_root_certificates(roots);
    let mut crypto = match identity {
        Some((chain, key)) => builder.with_client_auth_cert(chain.into_iter().map(Certificate).collect(), PrivateKey(key))?,
        None => builder.with_no_client_auth(),
    };
    crypto.alpn_protocols = vec![b"hq-29".to_vec()];
    let mut config = ClientConfig::new(Arc::new(crypto));
    let mut transport = TransportConfig::default();
    transport.keep_alive_interval(Some(Duration::from_secs(5)));
    if let Some(w) = stream_window {
        transport.stream_receive_window(w.into());
    }
    config.transport_config(Arc::new(transport));
    let mut endpoint = Endpoint::client("0.0.0.0:0".parse().unwrap())?;
    endpoint.set_default_client_config(config);
    let conn = endpoint.connect(addr, "localhost")?.await?;
    Ok(conn)
}

pub async fn raw_connect_trusted(addr: SocketAddr, certs: &Path) -> Result<Connection> {
    raw_connect(
        addr,
        &read_der(certs.join("client/ca.der"))?,
        Some((read_der(certs.join("client/localhost.der"))?, read_der(certs.join("client/localhost.key.der"))?)),
    )
    .await
}

pub async fn raw_stream(conn: &Connection) -> Result<BiStream> {
    Ok(BiStream::try_from_connection(conn).await?)
}
