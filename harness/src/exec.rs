//! Wake-driven single-threaded executor pieces: a waker that only sets a flag.
//! The driver polls the future under test **only** when the flag is set.
use futures::task::{waker, ArcWake};
use std::sync::atomic::{AtomicBool, AtomicU64, Ordering};
use std::sync::Arc;
use std::task::Waker;

#[derive(Default)]
pub struct WakeFlag {
    pub woken: AtomicBool,
    pub wakes: AtomicU64,
}

impl ArcWake for WakeFlag {
    fn wake_by_ref(arc_self: &Arc<Self>) {
        arc_self.woken.store(true, Ordering::SeqCst);
        arc_self.wakes.fetch_add(1, Ordering::SeqCst);
    }
}

impl WakeFlag {
    pub fn new_woken() -> Arc<Self> {
        let f = Arc::new(WakeFlag::default());
        f.woken.store(true, Ordering::SeqCst); // a freshly spawned task is polled once
        f
    }
    pub fn is_woken(&self) -> bool {
        self.woken.load(Ordering::SeqCst)
    }
    pub fn clear(&self) {
        self.woken.store(false, Ordering::SeqCst);
    }
    pub fn waker(self: &Arc<Self>) -> Waker {
        waker(self.clone())
    }
}
