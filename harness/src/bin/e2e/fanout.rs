//! System-level pub/sub conformance (C01 over the real server and client library): the
//! schedules TLC generates from PubSubGen -- publishers and subscribers joining at any point,
//! publishers ending, subscribers that stop reading for a while or go away -- are replayed
//! with real `Publisher`s / `Subscriber`s over loopback QUIC on one topic per schedule.
//! A dedicated sync publisher (publisher 0) establishes, for every subscriber, a point after
//! which its registration is known to have been processed; its markers are ordinary messages
//! and subject to the same obligations.
use super::*;
use selium::keep_alive::pubsub::KeepAlive;
use selium::pubsub::Publisher;
use std::collections::BTreeMap;
use tokio::sync::{mpsc, watch};

type Pub = KeepAlive<Publisher<StringCodec, String>>;

struct Sub {
    gate: watch::Sender<bool>,
    rx: mpsc::UnboundedReceiver<(u64, u64)>,
    reader: tokio::task::JoinHandle<()>,
    live: bool,
    last: BTreeMap<u64, u64>,
    snap: BTreeMap<u64, u64>,
}

fn parse(s: &str) -> Option<(u64, u64)> {
    let mut it = s.split(':');
    let p = it.next()?.strip_prefix('P')?.parse().ok()?;
    let n = it.next()?.parse().ok()?;
    Some((p, n))
}

async fn fanout_case(client: &Client, log: &EvLog, run: u64, sched: &Value, topic: &str) -> Result<()> {
    let steps = sched["steps"].as_array().unwrap();
    log.emit("case", json!({"run": run, "sched": sched["id"]}));
    let mut pubs: BTreeMap<u64, Option<Pub>> = BTreeMap::new();
    let mut sent: BTreeMap<u64, u64> = BTreeMap::new();
    let mut subs: BTreeMap<u64, Sub> = BTreeMap::new();
    // the client configuration of the schedule: what the server fans out is plain message frames, batch
    // frames (batches of one, so that every send leaves at once), compressed payloads, or compressed batches
    let mode = run % 4;
    let comp = ["", "", "gzip:fastest", "zstd:fastest"][mode as usize];
    macro_rules! open_pub {
        () => {{
            let mut pb = client.publisher(topic).with_encoder(StringCodec);
            if let Some((c, _)) = compression(comp) {
                pb = pb.with_compression(c);
            }
            if mode % 2 == 1 {
                pb = pb.with_batching(selium::batching::BatchConfig::new(1, Duration::from_millis(1)));
            }
            pb.open().await?
        }};
    }
    log.emit("config", json!({"batching": mode % 2 == 1, "comp": comp}));
    // publisher 0: sync markers
    let mut sync_pub = Some(open_pub!());
    sent.insert(0, 0);
    macro_rules! publish {
        ($p:expr, $id:expr) => {{
            let n = sent.get(&$id).copied().unwrap_or(0) + 1;
            let r = $p.send(format!("P{}:{}:{:08x}", $id, n, run.wrapping_mul(2654435761).wrapping_add(n))).await;
            if r.is_ok() {
                sent.insert($id, n);
                log.emit("published", json!({"pub": $id, "n": n}));
            } else {
                log.emit("publish_failed", json!({"pub": $id, "n": n, "err": r.unwrap_err().to_string()}));
            }
        }};
    }
    for st in steps {
        let op = st["op"].as_str().unwrap_or("");
        let id = st["id"].as_u64().unwrap_or(0);
        match op {
            "reg_pub" => {
                if !pubs.contains_key(&id) {
                    pubs.insert(id, Some(open_pub!()));
                    sent.insert(id, 0);
                    log.emit("reg", json!({"kind": "pub", "id": id}));
                }
            }
            "reg_sub" => {
                if subs.contains_key(&id) {
                    continue;
                }
                let mut sb = client.subscriber(topic).with_decoder(StringCodec);
                if let Some((_, d)) = compression(comp) {
                    sb = sb.with_decompression(d);
                }
                let mut stream = sb.open().await?;
                let (gate, mut gate_rx) = watch::channel(false);
                let (tx, mut rx) = mpsc::unbounded_channel();
                let reader = tokio::spawn(async move {
                    loop {
                        while *gate_rx.borrow_and_update() {
                            if gate_rx.changed().await.is_err() {
                                return;
                            }
                        }
                        match stream.next().await {
                            Some(Ok(s)) => {
                                if tx.send(parse(&s).unwrap_or((u64::MAX, 0))).is_err() {
                                    return;
                                }
                            }
                            _ => {
                                let _ = tx.send((u64::MAX, 1));
                                return;
                            }
                        }
                    }
                });
                log.emit("reg", json!({"kind": "sub", "id": id}));
                // sync: markers until this subscriber sees one
                let deadline = tokio::time::Instant::now() + Duration::from_secs(15);
                let mut synced = false;
                let mut last = BTreeMap::new();
                while !synced {
                    if tokio::time::Instant::now() > deadline {
                        break;
                    }
                    let before = sent.get(&0).copied().unwrap_or(0);
                    publish!(sync_pub.as_mut().unwrap(), 0u64);
                    let t_round = tokio::time::Instant::now();
                    while let Ok(Some((p, n))) = tokio::time::timeout(Duration::from_millis(25), rx.recv()).await {
                        log.emit("sub_item", json!({"sub": id, "pub": p, "n": n}));
                        last.insert(p, n);
                        if p == 0 {
                            synced = true;
                            break;
                        }
                        if p == u64::MAX {
                            break;
                        }
                    }
                    // a marker that could not be sent, or a subscriber that has ended, comes back at once: one
                    // round takes its 25 ms all the same (no flood of events, no busy loop)
                    if !synced && (sent.get(&0).copied().unwrap_or(0) == before || t_round.elapsed() < Duration::from_millis(20)) {
                        tokio::time::sleep(Duration::from_millis(25)).await;
                    }
                }
                // everything published from now on is owed to this subscriber
                log.emit("synced", json!({"sub": id, "ok": synced, "sent": sent.iter().map(|(k, v)| json!([k, v])).collect::<Vec<_>>()}));
                subs.insert(id, Sub { gate, rx, reader, live: true, last, snap: sent.clone() });
            }
            "publish" => {
                if let Some(Some(p)) = pubs.get_mut(&id) {
                    for _ in 0..st["count"].as_u64().unwrap_or(1) {
                        publish!(p, id);
                    }
                }
            }
            "end" => {
                if let Some(slot) = pubs.get_mut(&id) {
                    if let Some(p) = slot.take() {
                        let r = p.finish().await;
                        log.emit("finished", json!({"pub": id, "res": if r.is_ok() { "ok".to_string() } else { r.unwrap_err().to_string() }}));
                    }
                }
            }
            "block" | "unblock" => {
                if let Some(s) = subs.get(&id) {
                    let _ = s.gate.send(op == "block");
                    log.emit("pause", json!({"sub": id, "on": op == "block"}));
                }
            }
            "break" => {
                if let Some(s) = subs.get_mut(&id) {
                    if s.live {
                        s.live = false;
                        s.reader.abort();
                        log.emit("left", json!({"sub": id}));
                    }
                }
            }
            _ => {}
        }
        // drain what has arrived (keeps the event order close to real time)
        for (sid, s) in subs.iter_mut() {
            while let Ok((p, n)) = s.rx.try_recv() {
                log.emit("sub_item", json!({"sub": sid, "pub": p, "n": n}));
                s.last.insert(p, n);
            }
        }
    }
    // the end: everybody reads again, all publishers finish, everything owed must arrive
    for s in subs.values() {
        let _ = s.gate.send(false);
    }
    publish!(sync_pub.as_mut().unwrap(), 0u64);
    for (id, slot) in pubs.iter_mut() {
        if let Some(p) = slot.take() {
            let r = p.finish().await;
            log.emit("finished", json!({"pub": id, "res": if r.is_ok() { "ok".to_string() } else { r.unwrap_err().to_string() }}));
        }
    }
    let _ = sync_pub.take().unwrap().finish().await;
    let total: BTreeMap<u64, u64> = sent.clone();
    for (sid, s) in subs.iter_mut() {
        if !s.live {
            continue;
        }
        // wait until the last item of every publisher has been seen (or the time is up)
        let deadline = tokio::time::Instant::now() + Duration::from_secs(6);
        loop {
            let done = total.iter().all(|(p, n)| *n == s.snap.get(p).copied().unwrap_or(0) || s.last.get(p).copied().unwrap_or(0) >= *n) || s.last.contains_key(&u64::MAX);
            if done {
                break;
            }
            match tokio::time::timeout_at(deadline, s.rx.recv()).await {
                Ok(Some((p, n))) => {
                    log.emit("sub_item", json!({"sub": sid, "pub": p, "n": n}));
                    s.last.insert(p, n);
                }
                _ => break,
            }
        }
        // the items recorded earlier also count: the monitor keeps the per-publisher position
        log.emit("sub_done", json!({"sub": sid}));
        s.reader.abort();
    }
    log.emit("done", json!({"total": total.iter().map(|(k, v)| json!([k, v])).collect::<Vec<_>>()}));
    Ok(())
}

static SLOW: std::sync::atomic::AtomicUsize = std::sync::atomic::AtomicUsize::new(0);
static DONE: std::sync::atomic::AtomicUsize = std::sync::atomic::AtomicUsize::new(0);

pub async fn cmd_fanout(args: Vec<String>) -> Result<()> {
    let env = setup(&args, "fanout")?;
    let seed: u64 = arg(&args, "--seed").and_then(|s| s.parse().ok()).unwrap_or_else(seed_from_env);
    let cases = std::sync::Arc::new(read_cases(&arg(&args, "--cases").unwrap()));
    let par: usize = arg(&args, "--par").and_then(|s| s.parse().ok()).unwrap_or(8);
    let mut handles = vec![];
    for w in 0..par {
        let cases = cases.clone();
        let log = env.log.clone();
        let certs = env.certs.clone();
        let addr = env.server.addr;
        handles.push(tokio::spawn(async move {
            let mut client = connect_client(addr, &certs, BackoffStrategy::constant().with_max_attempts(0)).await?;
            let mut k = w;
            let mut n = 0;
            while k < cases.len() {
                n += 1;
                if n % 8 == 0 {
                    client = connect_client(addr, &certs, BackoffStrategy::constant().with_max_attempts(0)).await?;
                }
                let run = k as u64 + 1;
                let topic = format!("/vfan{}/case{}", seed % 1000, run);
                let clog = EvLog::new(Box::new(std::io::sink()));
                // a change that breaks delivery for a whole class of schedules makes each of them wait for
                // its time limits: once that has happened often enough the verdicts are in, stop there
                if SLOW.load(std::sync::atomic::Ordering::SeqCst) >= 40 {
                    break;
                }
                let t0 = std::time::Instant::now();
                DONE.fetch_add(1, std::sync::atomic::Ordering::SeqCst);
                let r = tokio::time::timeout(Duration::from_secs(60), fanout_case(&client, &clog, run, &cases[k], &topic)).await;
                if t0.elapsed() > Duration::from_secs(14) {
                    SLOW.fetch_add(1, std::sync::atomic::Ordering::SeqCst);
                }
                match r {
                    Ok(Ok(())) => {}
                    Ok(Err(e)) => clog.emit("harness_error", json!({"err": e.to_string()})),
                    Err(_) => clog.emit("harness_error", json!({"err": "case did not finish within 60 s"})),
                }
                log.append_block(&clog);
                k += par;
            }
            Ok::<(), anyhow::Error>(())
        }));
    }
    for h in handles {
        h.await??;
    }
    env.log.flush();
    let _ = std::fs::remove_dir_all(&env.certs);
    println!("{}", json!({"runs": DONE.load(std::sync::atomic::Ordering::SeqCst), "of": cases.len(), "events": env.log.lines(), "slow_cases": SLOW.load(std::sync::atomic::Ordering::SeqCst)}));
    Ok(())
}
