//! C06 at the consuming client: a real `Subscriber` (in a child process, so that an abort is an
//! observation and not the end of the harness) is sent long runs of frames that carry no message
//! -- empty batches, control frames -- while it is not polling, then one valid message.  Every
//! decoding step has to yield a value or an error; the process must survive.
use super::*;
use selium_protocol::{Frame, MessagePayload, PublisherPayload, TopicName};

/// child: subscribe, stay away from the stream for a while, then read until "end" arrives
pub async fn cmd_subflood_child(args: Vec<String>) -> Result<()> {
    let addr: std::net::SocketAddr = arg(&args, "--addr").unwrap().parse()?;
    let certs = PathBuf::from(arg(&args, "--certs").unwrap());
    let topic = arg(&args, "--topic").unwrap();
    let client = connect_client(addr, &certs, BackoffStrategy::constant().with_max_attempts(2).with_step(Duration::from_millis(50))).await?;
    let mut sub = client.subscriber(&topic).with_decoder(StringCodec).open().await?;
    println!("subscribed");
    // wait for the go-ahead (the flood is in the receive buffer by then)
    let mut line = String::new();
    std::io::stdin().read_line(&mut line)?;
    let mut errors = 0;
    let deadline = tokio::time::Instant::now() + Duration::from_secs(20);
    loop {
        match tokio::time::timeout_at(deadline, sub.next()).await {
            Ok(Some(Ok(s))) if s == "end" => {
                println!("got_end errors={errors}");
                return Ok(());
            }
            Ok(Some(Ok(_))) => {}
            Ok(Some(Err(_))) => errors += 1,
            Ok(None) => {
                println!("stream_ended errors={errors}");
                return Ok(());
            }
            Err(_) => {
                println!("no_end_within_20s errors={errors}");
                return Ok(());
            }
        }
        if errors > 1000 {
            println!("many_errors");
            return Ok(());
        }
    }
}

pub async fn cmd_subflood(args: Vec<String>) -> Result<()> {
    let env = setup(&args, "subflood")?;
    let n: usize = arg(&args, "--frames").and_then(|s| s.parse().ok()).unwrap_or(60_000);
    let raw = raw_connect_trusted(env.server.addr, &env.certs).await?;
    for (k, kind) in ["empty_batch", "control_ok", "empty_message_batch_mix"].iter().enumerate() {
        let topic = format!("/vflood/kind{k}");
        env.log.emit("case", json!({"run": k + 1, "kind": kind, "frames": n}));
        let exe = std::env::current_exe()?;
        let mut child = std::process::Command::new(exe)
            .args(["subflood-child", "--addr", &env.server.addr.to_string(), "--certs", env.certs.to_str().unwrap(), "--topic", &topic])
            .stdin(std::process::Stdio::piped())
            .stdout(std::process::Stdio::piped())
            .stderr(std::process::Stdio::null())
            .spawn()?;
        // wait until it has subscribed
        let mut out = std::io::BufReader::new(child.stdout.take().unwrap());
        let mut first = String::new();
        let _ = tokio::task::block_in_place(|| std::io::BufRead::read_line(&mut out, &mut first));
        tokio::time::sleep(Duration::from_millis(200)).await;
        let mut st = raw_stream(&raw).await?;
        st.send(Frame::RegisterPublisher(PublisherPayload { topic: TopicName::try_from(topic.as_str())?, retention_policy: 0, operations: vec![] })).await?;
        let _ = st.next().await;
        for i in 0..n {
            let f = match *kind {
                "empty_batch" => Frame::BatchMessage(Bytes::from(vec![0u8; 8])),
                "control_ok" => Frame::Ok,
                _ => {
                    if i % 2 == 0 {
                        Frame::BatchMessage(Bytes::from(vec![0u8; 8]))
                    } else {
                        Frame::Message(MessagePayload { headers: None, message: Bytes::from_static(b"x") })
                    }
                }
            };
            st.feed(f).await?;
            if i % 2000 == 1999 {
                st.flush().await?;
            }
        }
        st.send(Frame::Message(MessagePayload { headers: None, message: Bytes::from_static(b"end") })).await?;
        // let everything reach the subscriber's receive buffer, then let it read
        tokio::time::sleep(Duration::from_millis(1500)).await;
        {
            use std::io::Write;
            let mut sin = child.stdin.take().unwrap();
            let _ = sin.write_all(b"go\n");
        }
        let mut rest = String::new();
        let _ = tokio::task::block_in_place(|| std::io::Read::read_to_string(&mut out, &mut rest));
        let status = tokio::task::block_in_place(|| child.wait())?;
        let how = if status.success() {
            "exit_0".to_string()
        } else {
            use std::os::unix::process::ExitStatusExt;
            match status.signal() {
                Some(s) => format!("killed_by_signal_{s}"),
                None => format!("exit_{}", status.code().unwrap_or(-1)),
            }
        };
        env.log.emit("subflood", json!({"kind": kind, "frames": n, "child": how, "said": rest.trim().chars().take(80).collect::<String>()}));
        let _ = st.finish().await;
    }
    env.log.flush();
    let _ = std::fs::remove_dir_all(&env.certs);
    println!("{}", json!({"runs": 3, "events": env.log.lines()}));
    Ok(())
}
