//! Repliers of one topic over time with the real client library and the real server (C10, spec
//! ReplierLife.tla): repliers start while another is bound (rejected, they keep re-registering),
//! the bound one goes away, a standby takes over; every request says who answered it.
use super::*;
use std::collections::BTreeMap;

async fn ask(req: &mut selium::keep_alive::reqrep::KeepAlive<selium::request_reply::Requestor<StringCodec, StringCodec, String, String>>, k: u64, patience: Duration) -> (i64, u32) {
    // a hand-over takes a moment (the standby's next registration): ask again for a while
    let t0 = std::time::Instant::now();
    let mut attempts = 0;
    loop {
        attempts += 1;
        match req.request(format!("q{k}")).await {
            Ok(v) => {
                let by = v.rsplit(":R").next().and_then(|x| x.parse::<i64>().ok()).unwrap_or(-1);
                let own = v.starts_with(&format!("re:q{k}:"));
                return (if own { by } else { -2 }, attempts);
            }
            Err(selium::std::errors::SeliumError::RequestTimeout) => {
                if t0.elapsed() > patience {
                    return (0, attempts);
                }
            }
            Err(_) => return (-1, attempts),
        }
    }
}

async fn replife_case(addr: std::net::SocketAddr, certs: &Path, log: &EvLog, run: u64, case: &Value, topic: &str) -> Result<()> {
    log.emit("case", json!({"run": run, "sched": case["id"]}));
    let steps = case["steps"].as_array().unwrap();
    let backoff = BackoffStrategy::constant().with_max_attempts(5).with_step(Duration::from_millis(50));
    let client = connect_client(addr, certs, backoff.clone()).await?;
    let rclient = connect_client(addr, certs, backoff).await?;
    let mut req = client
        .requestor(topic)
        .with_request_encoder(StringCodec)
        .with_reply_decoder(StringCodec)
        .with_request_timeout(Duration::from_millis(400))?
        .open()
        .await?;
    let mut running: BTreeMap<u64, tokio::task::JoinHandle<String>> = BTreeMap::new();
    let mut k = 0u64;
    for st in steps {
        let op = st["op"].as_str().unwrap_or("");
        let r = st["r"].as_u64().unwrap_or(0);
        match op {
            "start" => {
                let opened = rclient
                    .replier(topic)
                    .with_request_decoder(StringCodec)
                    .with_reply_encoder(StringCodec)
                    .with_handler(move |q: String| async move { Ok::<String, anyhow::Error>(format!("re:{q}:R{r}")) })
                    .open()
                    .await;
                match opened {
                    Ok(mut replier) => {
                        running.insert(r, tokio::spawn(async move {
                            match replier.listen().await {
                                Ok(()) => "listen returned".to_string(),
                                Err(e) => format!("listen failed: {e}"),
                            }
                        }));
                        log.emit("op", json!({"op": "start", "r": r, "res": "ok"}));
                    }
                    Err(e) => log.emit("op", json!({"op": "start", "r": r, "res": format!("open failed: {e}")})),
                }
            }
            "stop" => {
                if let Some(t) = running.remove(&r) {
                    let ended = if t.is_finished() { t.await.unwrap_or_else(|_| "panicked".into()) } else { t.abort(); "running".to_string() };
                    log.emit("op", json!({"op": "stop", "r": r, "was": ended}));
                } else {
                    log.emit("op", json!({"op": "stop", "r": r, "was": "never started"}));
                }
            }
            "request" => {
                k += 1;
                let (by, attempts) = ask(&mut req, k, Duration::from_millis(if running.is_empty() { 0 } else { 8000 })).await;
                log.emit("result", json!({"k": k, "by": by, "attempts": attempts, "probe": false}));
                continue;
            }
            _ => continue,
        }
        // after every change the topic is probed: who serves now?
        tokio::time::sleep(Duration::from_millis(60)).await;
        k += 1;
        let (by, attempts) = ask(&mut req, k, Duration::from_millis(if running.is_empty() { 0 } else { 8000 })).await;
        log.emit("result", json!({"k": k, "by": by, "attempts": attempts, "probe": true}));
    }
    for (r, t) in running.iter() {
        if t.is_finished() {
            log.emit("replier_ended", json!({"r": r}));
        }
    }
    for (_, t) in running {
        t.abort();
    }
    log.emit("done", json!({}));
    Ok(())
}

pub async fn cmd_replife(args: Vec<String>) -> Result<()> {
    let env = setup(&args, "replife")?;
    let seed: u64 = arg(&args, "--seed").and_then(|s| s.parse().ok()).unwrap_or_else(seed_from_env);
    let cases = std::sync::Arc::new(read_cases(&arg(&args, "--cases").unwrap()));
    let par: usize = arg(&args, "--par").and_then(|s| s.parse().ok()).unwrap_or(12);
    let mut handles = vec![];
    for w in 0..par {
        let cases = cases.clone();
        let log = env.log.clone();
        let certs = env.certs.clone();
        let addr = env.server.addr;
        handles.push(tokio::spawn(async move {
            let mut k = w;
            while k < cases.len() {
                let run = k as u64 + 1;
                let topic = format!("/vreplife{}/case{}", seed % 1000, run);
                let clog = EvLog::new(Box::new(std::io::sink()));
                match tokio::time::timeout(Duration::from_secs(120), replife_case(addr, &certs, &clog, run, &cases[k], &topic)).await {
                    Ok(Ok(())) => {}
                    Ok(Err(e)) => clog.emit("harness_error", json!({"err": e.to_string()})),
                    Err(_) => clog.emit("harness_error", json!({"err": "case did not finish within 120 s"})),
                }
                log.append_block(&clog);
                k += par;
            }
            Ok::<(), anyhow::Error>(())
        }));
    }
    for h in handles {
        h.await??;
    }
    env.log.flush();
    let _ = std::fs::remove_dir_all(&env.certs);
    println!("{}", json!({"runs": cases.len(), "events": env.log.lines()}));
    Ok(())
}
