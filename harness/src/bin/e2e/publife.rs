//! Publisher / subscriber handles over time with the real client library and server (C12, C01;
//! spec PubSubLife.tla): publishers (and `duplicate()`s) and subscribers on their own client
//! connections, connection losses while the server stays up, recovery, exact delivery afterwards.
//! The harness lets deliveries happen before it ends a handle or cuts a connection (pacing); the
//! verdict is Trace_PubSubLife's.
use super::*;
use selium::keep_alive::pubsub::KeepAlive;
use selium::pubsub::Publisher;
use std::collections::BTreeMap;
use std::sync::atomic::{AtomicBool, Ordering};
use std::sync::Arc;

type Pub = KeepAlive<Publisher<StringCodec, String>>;

struct SubH {
    client: Client,
    seen: Arc<std::sync::Mutex<Vec<(u64, u64)>>>,
    ended: Arc<AtomicBool>,
    reported: usize,
    task: tokio::task::JoinHandle<()>,
}

fn parse(s: &str) -> Option<(u64, u64)> {
    let mut it = s.split(':');
    let p = it.next()?.strip_prefix('P')?.parse().ok()?;
    let n = it.next()?.parse().ok()?;
    Some((p, n))
}

async fn publife_case(addr: std::net::SocketAddr, certs: &Path, log: &EvLog, run: u64, case: &Value, topic: &str) -> Result<()> {
    log.emit("case", json!({"run": run, "sched": case["id"]}));
    let steps = case["steps"].as_array().unwrap();
    let origins = case["origins"].as_u64().unwrap_or(2);
    let backoff = BackoffStrategy::constant().with_max_attempts(4).with_step(Duration::from_millis(20));
    // "re-registers with the same settings": every handle of a case uses the same compression setting,
    // which has to be in force again after every recovery
    // (a schedule that cuts a connection in mid-write needs frames as large as the messages: no compression)
    let mid = steps.iter().any(|s| s["op"] == "cut_pub_mid");
    let comp = if mid { "none" } else { ["none", "lz4", "zstd:balanced", "gzip:fastest", "brotli_text:balanced"][(run % 5) as usize] };
    log.emit("settings", json!({"compression": comp}));
    let sync_client = connect_client(addr, certs, backoff.clone()).await?;
    let mut sync_pub: Pub = {
        let mut b = sync_client.publisher(topic).with_encoder(StringCodec);
        if let Some((c, _)) = compression(comp) {
            b = b.with_compression(c);
        }
        b.open().await?
    };
    let mut sync_n = 0u64;
    let mut pub_clients: BTreeMap<u64, Client> = BTreeMap::new(); // by connection id
    let mut pubs: BTreeMap<u64, Option<Pub>> = BTreeMap::new();
    let mut sent: BTreeMap<u64, u64> = BTreeMap::new();
    let mut subs: BTreeMap<u64, SubH> = BTreeMap::new();
    // harness bookkeeping for pacing only: (sub, pub) -> highest number that must still arrive
    let mut must: BTreeMap<(u64, u64), u64> = BTreeMap::new();
    let mut down: Vec<u64> = vec![];

    // report what has arrived, in arrival order
    fn report(subs: &mut BTreeMap<u64, SubH>, log: &EvLog) {
        for (sid, s) in subs.iter_mut() {
            let seen = s.seen.lock().unwrap().clone();
            for (p, n) in seen.iter().skip(s.reported) {
                if *p != 0 {
                    log.emit("recv", json!({"s": sid, "p": p, "n": n}));
                }
            }
            s.reported = seen.len();
        }
    }
    // a marker from the sync publisher seen by subscriber `sid` after `after` markers: its registration is in effect
    async fn sync_sub(sync_pub: &mut Pub, sync_n: &mut u64, subs: &BTreeMap<u64, SubH>, sid: u64) -> Result<bool> {
        let start = *sync_n;
        let deadline = tokio::time::Instant::now() + Duration::from_secs(8);
        loop {
            *sync_n += 1;
            sync_pub.send(format!("P0:{}", *sync_n)).await?;
            tokio::time::sleep(Duration::from_millis(25)).await;
            if subs[&sid].seen.lock().unwrap().iter().any(|(p, n)| *p == 0 && *n > start) {
                return Ok(true);
            }
            if tokio::time::Instant::now() > deadline {
                return Ok(false);
            }
        }
    }
    async fn quiesce(subs: &BTreeMap<u64, SubH>, must: &BTreeMap<(u64, u64), u64>) {
        let deadline = tokio::time::Instant::now() + Duration::from_secs(5);
        loop {
            let ok = must.iter().all(|((s, p), n)| subs.get(s).map(|h| h.seen.lock().unwrap().iter().any(|(pp, nn)| pp == p && nn >= n)).unwrap_or(true));
            if ok || tokio::time::Instant::now() > deadline {
                break;
            }
            tokio::time::sleep(Duration::from_millis(10)).await;
        }
        tokio::time::sleep(Duration::from_millis(15)).await;
    }

    for st in steps {
        let op = st["op"].as_str().unwrap_or("");
        let id = st["id"].as_u64().unwrap_or(0);
        let conn = if id > origins { 1 } else { id };
        match op {
            "open_pub" => {
                let c = connect_client(addr, certs, backoff.clone()).await?;
                let mut b = c.publisher(topic).with_encoder(StringCodec);
                if let Some((cc, _)) = compression(comp) {
                    b = b.with_compression(cc);
                }
                let p: Pub = b.open().await?;
                pub_clients.insert(conn, c);
                pubs.insert(id, Some(p));
                sent.insert(id, 0);
                log.emit("op", json!({"op": op, "id": id}));
            }
            "dup" => {
                // (`duplicate(&self)` borrows a handle that is not `Sync`, so its future is not `Send`:
                // it is driven to completion on this thread)
                let r = match pubs.get(&1) {
                    Some(Some(orig)) => tokio::task::block_in_place(|| tokio::runtime::Handle::current().block_on(orig.duplicate())),
                    _ => return Err(anyhow!("no original to duplicate")),
                };
                match r {
                    Ok(p) => {
                        pubs.insert(id, Some(p));
                        sent.insert(id, 0);
                        log.emit("op", json!({"op": op, "id": id}));
                    }
                    Err(e) => {
                        log.emit("dup_failed", json!({"id": id, "err": e.to_string()}));
                        return Ok(());
                    }
                }
            }
            "publish" => {
                let n = sent[&id] + 1;
                let p = pubs.get_mut(&id).and_then(|x| x.as_mut()).ok_or(anyhow!("publisher not open"))?;
                let r = tokio::time::timeout(Duration::from_secs(10), p.send(format!("P{id}:{n}:{:06x}", run & 0xffffff))).await;
                match r {
                    Ok(Ok(())) => {
                        sent.insert(id, n);
                        let was_down = down.contains(&id);
                        down.retain(|x| *x != id);
                        if !was_down {
                            for (sid, _) in subs.iter() {
                                must.insert((*sid, id), n);
                            }
                        }
                        log.emit("op", json!({"op": op, "id": id, "n": n}));
                    }
                    Ok(Err(e)) => {
                        log.emit("publish_failed", json!({"id": id, "n": n, "err": e.to_string()}));
                        return Ok(());
                    }
                    Err(_) => {
                        log.emit("publish_failed", json!({"id": id, "n": n, "err": "send() did not return within 10 s"}));
                        return Ok(());
                    }
                }
                // let it arrive (pacing), then report in arrival order
                quiesce(&subs, &must).await;
                report(&mut subs, log);
            }
            "finish" => {
                quiesce(&subs, &must).await;
                report(&mut subs, log);
                if let Some(p) = pubs.get_mut(&id).and_then(|x| x.take()) {
                    let r = tokio::time::timeout(Duration::from_secs(10), p.finish()).await;
                    log.emit("op", json!({"op": op, "id": id, "res": match r { Ok(Ok(())) => "ok".to_string(), Ok(Err(e)) => format!("err: {e}"), Err(_) => "hung".to_string() }}));
                }
            }
            "cut_pub" => {
                quiesce(&subs, &must).await;
                report(&mut subs, log);
                if let Some(c) = pub_clients.get(&conn) {
                    c.verif_close_connection().await;
                }
                for (pid, p) in pubs.iter() {
                    let pc = if *pid > origins { 1 } else { *pid };
                    if pc == conn && p.is_some() {
                        down.push(*pid);
                    }
                }
                tokio::time::sleep(Duration::from_millis(40)).await;
                log.emit("op", json!({"op": op, "id": id}));
            }
            "cut_pub_mid" => {
                // the connection is lost in the middle of a write: `m` messages of about a megabyte are fed to the
                // handle (more than the stream's flow-control window admits at once), the writer is polled once,
                // and the connection goes -- with a frame partly written
                quiesce(&subs, &must).await;
                report(&mut subs, log);
                let m = st["m"].as_u64().unwrap_or(2);
                let mut fed = 0;
                if let Some(p) = pubs.get_mut(&id).and_then(|x| x.as_mut()) {
                    for _ in 0..m {
                        let n = sent[&id] + 1;
                        let mut body = format!("P{id}:{n}:{:06x}:", run & 0xffffff);
                        body.extend((0..1_000_000).map(|i| (b'a' + ((i * 7 + n as usize) % 26) as u8) as char));
                        // polled once, back to back: the second or third feed finds the writer in the middle of the
                        // previous frame (the window has no room for the rest yet) and is not handed over
                        let fut = p.feed(body);
                        tokio::pin!(fut);
                        match futures::poll!(fut.as_mut()) {
                            std::task::Poll::Ready(Ok(())) => {
                                sent.insert(id, n);
                                fed += 1;
                            }
                            _ => break,
                        }
                    }
                    let fl = p.flush();
                    tokio::pin!(fl);
                    let _ = futures::poll!(fl.as_mut());
                }
                if let Some(c) = pub_clients.get(&conn) {
                    c.verif_close_connection().await;
                }
                for (pid, p) in pubs.iter() {
                    let pc = if *pid > origins { 1 } else { *pid };
                    if pc == conn && p.is_some() {
                        down.push(*pid);
                    }
                }
                tokio::time::sleep(Duration::from_millis(40)).await;
                log.emit("op", json!({"op": op, "id": id, "m": fed}));
                // every other time the loss is noticed by a flush() (no message at stake): what is published after
                // that is published on a working stream
                if run % 2 == 0 {
                    if let Some(p) = pubs.get_mut(&id).and_then(|x| x.as_mut()) {
                        let r = tokio::time::timeout(Duration::from_secs(10), p.flush()).await;
                        down.retain(|x| *x != id);
                        log.emit("op", json!({"op": "flush", "id": id, "res": match r { Ok(Ok(())) => "ok".to_string(), Ok(Err(e)) => format!("err: {e}"), Err(_) => "hung".to_string() }}));
                    }
                }
            }
            "open_sub" => {
                let c = connect_client(addr, certs, backoff.clone()).await?;
                let mut sb = c.subscriber(topic).with_decoder(StringCodec);
                if let Some((_, d)) = compression(comp) {
                    sb = sb.with_decompression(d);
                }
                let mut stream = sb.open().await?;
                let seen = Arc::new(std::sync::Mutex::new(vec![]));
                let ended = Arc::new(AtomicBool::new(false));
                let (s2, e2) = (seen.clone(), ended.clone());
                let task = tokio::spawn(async move {
                    loop {
                        match stream.next().await {
                            Some(Ok(s)) => s2.lock().unwrap().push(parse(&s).unwrap_or((u64::MAX, 0))),
                            _ => {
                                e2.store(true, Ordering::SeqCst);
                                return;
                            }
                        }
                    }
                });
                subs.insert(id, SubH { client: c, seen, ended, reported: 0, task });
                let ok = sync_sub(&mut sync_pub, &mut sync_n, &subs, id).await?;
                log.emit("op", json!({"op": op, "id": id, "synced": ok}));
            }
            "cut_sub" => {
                quiesce(&subs, &must).await;
                report(&mut subs, log);
                subs[&id].client.verif_close_connection().await;
                // the subscriber is polled all the time: it notices, re-registers, and sees a marker again
                let ok = sync_sub(&mut sync_pub, &mut sync_n, &subs, id).await?;
                let ended = subs[&id].ended.load(Ordering::SeqCst);
                log.emit("op", json!({"op": op, "id": id, "recovered": ok, "stream_ended": ended}));
            }
            _ => {}
        }
    }
    quiesce(&subs, &must).await;
    report(&mut subs, log);
    log.emit("end", json!({}));
    for (_, s) in subs {
        s.task.abort();
    }
    log.emit("done", json!({}));
    Ok(())
}

pub async fn cmd_publife(args: Vec<String>) -> Result<()> {
    let env = setup(&args, "publife")?;
    let seed: u64 = arg(&args, "--seed").and_then(|s| s.parse().ok()).unwrap_or_else(seed_from_env);
    let cases = std::sync::Arc::new(read_cases(&arg(&args, "--cases").unwrap()));
    let par: usize = arg(&args, "--par").and_then(|s| s.parse().ok()).unwrap_or(12);
    let mut handles = vec![];
    for w in 0..par {
        let cases = cases.clone();
        let log = env.log.clone();
        let certs = env.certs.clone();
        let addr = env.server.addr;
        handles.push(tokio::spawn(async move {
            let mut k = w;
            while k < cases.len() {
                let run = k as u64 + 1;
                let topic = format!("/vpublife{}/case{}", seed % 1000, run);
                let clog = EvLog::new(Box::new(std::io::sink()));
                match tokio::time::timeout(Duration::from_secs(120), publife_case(addr, &certs, &clog, run, &cases[k], &topic)).await {
                    Ok(Ok(())) => {}
                    Ok(Err(e)) => clog.emit("harness_error", json!({"err": e.to_string()})),
                    Err(_) => clog.emit("harness_error", json!({"err": "case did not finish within 120 s"})),
                }
                log.append_block(&clog);
                k += par;
            }
            Ok::<(), anyhow::Error>(())
        }));
    }
    for h in handles {
        h.await??;
    }
    env.log.flush();
    let _ = std::fs::remove_dir_all(&env.certs);
    println!("{}", json!({"runs": cases.len(), "events": env.log.lines()}));
    Ok(())
}
