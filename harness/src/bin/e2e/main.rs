//! End-to-end conformance runs over loopback QUIC with the real server and the real client
//! library: pub/sub fidelity (C03), request/reply (C04), server registration path (C07, C11,
//! C17), keep-alive (C12), mutual TLS (C15).  Every run records ndjson events for TLC trace
//! validation.
use anyhow::{anyhow, Result};
use bytes::Bytes;
use futures::{SinkExt, StreamExt};
use rand::rngs::StdRng;
use rand::{Rng, RngCore, SeedableRng};
use selium::batching::BatchConfig;
use selium::keep_alive::BackoffStrategy;
use selium::prelude::*;
use selium::std::codecs::{BincodeCodec, BytesCodec, StringCodec};
use selium::std::compression::{brotli, deflate, lz4, zstd};
use selium::std::traits::codec::{MessageDecoder, MessageEncoder};
use selium::std::traits::compression::{Compress, CompressionLevel, Decompress};
use selium::Client;
use selium_verif_harness::e2e::*;
use selium_verif_harness::evlog::EvLog;
use selium_verif_harness::*;
use serde::{Deserialize, Serialize};
use serde_json::{json, Value};
use std::io::BufRead;
use std::path::{Path, PathBuf};
use std::time::Duration;

mod fanout;
mod keepalive;
mod publife;
mod replife;
mod reqlife;
mod reqrep;
mod server;
mod shutdown;
mod subflood;

pub fn arg(args: &[String], name: &str) -> Option<String> {
    args.iter().position(|a| a == name).and_then(|i| args.get(i + 1).cloned())
}
pub fn read_cases(path: &str) -> Vec<Value> {
    let f = std::fs::File::open(path).expect("cases file");
    std::io::BufReader::new(f)
        .lines()
        .map(|l| l.unwrap())
        .filter(|l| !l.trim().is_empty())
        .map(|l| serde_json::from_str(&l).expect("case json"))
        .collect()
}

// ------------------------------------------------------------------ payload types
#[derive(Serialize, Deserialize, Clone, Debug, PartialEq)]
pub struct Sample {
    pub id: u64,
    pub name: String,
    pub blob: Vec<u8>,
}

pub trait Payload: Clone + PartialEq + Send + Sync + Unpin + 'static {
    fn make(i: u64, size: usize, rng: &mut StdRng) -> Self;
    fn index(&self) -> u64;
    /// the value whose encoding has no bytes at all, where the type has one
    fn empty() -> Option<Self> {
        None
    }
}
pub const SENTINEL: u64 = 1 << 40;
pub const SENTINEL_END: u64 = (1 << 40) + 999_999;

impl Payload for String {
    fn make(i: u64, size: usize, rng: &mut StdRng) -> Self {
        let mut s = format!("{i}:");
        for _ in 0..size {
            s.push(['a', 'b', 'é', '中', ' ', 'z', '0'][rng.gen_range(0..7)]);
        }
        s
    }
    fn index(&self) -> u64 {
        self.split(':').next().and_then(|x| x.parse().ok()).unwrap_or(u64::MAX)
    }
    fn empty() -> Option<Self> {
        Some(String::new())
    }
}
impl Payload for Vec<u8> {
    fn make(i: u64, size: usize, rng: &mut StdRng) -> Self {
        let mut v = i.to_be_bytes().to_vec();
        let mut rest = vec![0u8; size];
        rng.fill_bytes(&mut rest);
        v.extend(rest);
        v
    }
    fn index(&self) -> u64 {
        if self.len() >= 8 {
            u64::from_be_bytes(self[..8].try_into().unwrap())
        } else {
            u64::MAX
        }
    }
    fn empty() -> Option<Self> {
        Some(Vec::new())
    }
}
impl Payload for Sample {
    fn make(i: u64, size: usize, rng: &mut StdRng) -> Self {
        let mut blob = vec![0u8; size];
        rng.fill_bytes(&mut blob);
        Sample { id: i, name: format!("n{}", rng.gen::<u32>()), blob }
    }
    fn index(&self) -> u64 {
        self.id
    }
}

// ------------------------------------------------------------------ compression by name
pub struct DynComp(pub Box<dyn Compress + Send + Sync>);
impl Compress for DynComp {
    fn compress(&self, input: Bytes) -> anyhow::Result<Bytes> {
        self.0.compress(input)
    }
}
pub struct DynDecomp(pub Box<dyn Decompress + Send + Sync>);
impl Decompress for DynDecomp {
    fn decompress(&self, input: Bytes) -> anyhow::Result<Bytes> {
        self.0.decompress(input)
    }
}

pub const COMPRESSIONS: &[&str] = &[
    "none", "gzip:fastest", "gzip:balanced", "gzip:highest", "gzip:3", "zlib:fastest", "zlib:balanced", "zlib:highest", "zlib:7",
    "zstd:fastest", "zstd:balanced", "zstd:highest", "zstd:15", "lz4", "brotli_generic:fastest", "brotli_generic:balanced",
    "brotli_text:balanced", "brotli_text:9", "brotli_font:fastest", "brotli_generic:highest",
];

pub fn compression(name: &str) -> Option<(DynComp, DynDecomp)> {
    let (algo, lvl) = name.split_once(':').unwrap_or((name, ""));
    macro_rules! lv {
        ($c:expr) => {
            match lvl {
                "fastest" => $c.fastest(),
                "balanced" => $c.balanced(),
                "highest" => $c.highest_ratio(),
                "" => $c,
                n => $c.level(n.parse().unwrap()),
            }
        };
    }
    Some(match algo {
        "gzip" => (DynComp(Box::new(lv!(deflate::DeflateComp::gzip()))), DynDecomp(Box::new(deflate::DeflateDecomp::gzip()))),
        "zlib" => (DynComp(Box::new(lv!(deflate::DeflateComp::zlib()))), DynDecomp(Box::new(deflate::DeflateDecomp::zlib()))),
        "zstd" => (DynComp(Box::new(lv!(zstd::ZstdComp::new()))), DynDecomp(Box::new(zstd::ZstdDecomp))),
        "lz4" => (DynComp(Box::new(lz4::Lz4Comp)), DynDecomp(Box::new(lz4::Lz4Decomp))),
        "brotli_generic" => (DynComp(Box::new(lv!(brotli::BrotliComp::generic()))), DynDecomp(Box::new(brotli::BrotliDecomp))),
        "brotli_text" => (DynComp(Box::new(lv!(brotli::BrotliComp::text()))), DynDecomp(Box::new(brotli::BrotliDecomp))),
        "brotli_font" => (DynComp(Box::new(lv!(brotli::BrotliComp::font()))), DynDecomp(Box::new(brotli::BrotliDecomp))),
        _ => return None,
    })
}

pub struct Env {
    pub certs: PathBuf,
    pub server: ServerHandle,
    pub log: EvLog,
}

pub fn setup(args: &[String], tag: &str) -> Result<Env> {
    let out = arg(args, "--out").ok_or(anyhow!("--out"))?;
    let log = EvLog::to_file(&out)?;
    let certs = PathBuf::from(format!("{}.certs-{}", out, tag));
    let _ = std::fs::remove_dir_all(&certs);
    gen_certs(&certs)?;
    let server = start_server(&certs, "127.0.0.1:0")?;
    Ok(Env { certs, server, log })
}

// ------------------------------------------------------------------ C03 pub/sub fidelity
#[allow(clippy::too_many_arguments)]
async fn pubsub_case<C, Item>(client: &Client, raw: &quinn::Connection, log: &EvLog, run: u64, case: &Value, codec: C, comp: &str, topic: &str, rng: &mut StdRng, big: bool) -> Result<()>
where
    C: MessageEncoder<Item> + MessageDecoder<Item> + Clone + Send + Sync + Unpin + 'static,
    Item: Payload + std::fmt::Debug,
{
    let mut size = case["size"].as_u64().unwrap() as u32;
    let mut elapses = case["elapses"].as_bool().unwrap();
    let mut ops: Vec<String> = case["ops"].as_array().unwrap().iter().map(|v| v.as_str().unwrap().to_string()).collect();
    // burst variant: a long run of feed()s of 8 KiB items while the subscriber is not reading, so
    // that the transport pushes back on the publisher; everything must still arrive after finish()
    let burst = case["burst"].as_bool().unwrap_or(false);
    if burst {
        size = size.max(2) * 8;
        elapses = false;
        ops = std::iter::repeat("feed".to_string()).take(400).chain(std::iter::once("finish".to_string())).collect();
    }
    log.emit("case", json!({"run": run, "size": size, "elapses": elapses, "comp": comp, "codec": std::any::type_name::<Item>(), "nops": ops.len(), "big": big}));

    // Every sixth case of a codec that has one: items whose encoding is empty -- all of them, or all but
    // every third.  Such items carry no number; they are told apart by position (the subscriber must yield
    // exactly as many items as were accepted, each equal to the one sent in that place).
    let empties: u64 = if run % 6 == 4 && !burst && Item::empty().is_some() { if run % 12 == 4 { 1 } else { 3 } } else { 0 };
    let slow_feeds = elapses && size > 0 && !burst && (run / 2) % 2 == 0;
    if empties > 0 {
        log.emit("payloads", json!({"empty": if empties == 1 { "all" } else { "all_but_every_third" }}));
    }
    let mut sb = client.subscriber(topic).with_decoder(codec.clone());
    if let Some((_, d)) = compression(comp) {
        sb = sb.with_decompression(d);
    }
    let mut sub_stream = sb.open().await?;
    // The subscriber is consumed by a task of its own, woken only by the subscriber's own wakers:
    // wrapping `next()` in a timeout would re-poll it when the timer fires and mask a lost wake-up.
    let (item_tx, mut sub) = tokio::sync::mpsc::unbounded_channel::<Option<selium::std::errors::Result<Item>>>();
    let (gate, mut gate_rx) = tokio::sync::watch::channel(false);
    let reader = tokio::spawn(async move {
        let mut errs = 0u32;
        loop {
            // a subscriber that is momentarily not reading (back-pressure towards the publisher)
            while *gate_rx.borrow_and_update() {
                if gate_rx.changed().await.is_err() {
                    return;
                }
            }
            let it = sub_stream.next().await;
            let end = it.is_none();
            // a subscriber that has given up re-connecting answers every poll with the same error, at
            // once and for ever: stop reading after a run of errors instead of piling them up
            errs = if matches!(it, Some(Err(_))) { errs + 1 } else { 0 };
            if item_tx.send(it).is_err() || end || errs >= 64 {
                break;
            }
        }
    });

    // make sure the subscription took effect before the first send: a sentinel publisher sends
    // numbered sync items until the subscriber yields one, then an end marker
    {
        let mut pb = client.publisher(topic).with_encoder(codec.clone());
        if let Some((c, _)) = compression(comp) {
            pb = pb.with_compression(c);
        }
        let mut sentinel = pb.open().await?;
        let mut k = 0u64;
        let mut seen = false;
        let deadline = tokio::time::Instant::now() + Duration::from_secs(15);
        while !seen {
            if tokio::time::Instant::now() > deadline {
                return Err(anyhow!("sentinel never arrived"));
            }
            sentinel.send(Item::make(SENTINEL + k, 0, rng)).await?;
            k += 1;
            if let Ok(Some(Some(Ok(it)))) = tokio::time::timeout(Duration::from_millis(20), sub.recv()).await {
                if it.index() >= SENTINEL {
                    seen = true;
                }
            }
        }
        sentinel.send(Item::make(SENTINEL_END, 0, rng)).await?;
        sentinel.finish().await?;
        loop {
            match tokio::time::timeout(Duration::from_secs(10), sub.recv()).await {
                Ok(Some(Some(Ok(it)))) if it.index() == SENTINEL_END => break,
                Ok(Some(Some(Ok(_)))) => continue,
                other => {
                    reader.abort();
                    return Err(anyhow!("sentinel end marker never arrived: {:?}", other.is_ok()));
                }
            }
        }
    }

    let mut pb = client.publisher(topic).with_encoder(codec.clone());
    // (the same holds for the stream's own settings: compression before batching, or after)
    let compression_first = (run / 4) % 2 == 0;
    if compression_first {
        if let Some((c, _)) = compression(comp) {
            pb = pb.with_compression(c);
        }
    }
    if size > 0 {
        // "the interval elapses between operations": 1 ms with a 4 ms pause before every operation, or -- every
        // other such case -- 30 ms with the pauses *inside* every second feed (between poll_ready and start_send),
        // so that items sit in the batch when the interval runs out under the caller's hands
        let interval = if elapses { Duration::from_millis(if slow_feeds { 30 } else { 1 }) } else { Duration::from_secs(3600) };
        // the configuration is a record: how it was put together (constructor, presets, setters in either
        // order) must not matter
        let cfg = match run % 4 {
            0 => BatchConfig::new(size, interval),
            1 => BatchConfig::high_throughput().batch_size(size).interval(interval),
            2 => BatchConfig::minimal_payload().interval(interval).batch_size(size),
            _ => BatchConfig::default().batch_size(1).interval(Duration::from_millis(1)).interval(interval).batch_size(size),
        };
        pb = pb.with_batching(cfg);
    }
    if !compression_first {
        if let Some((c, _)) = compression(comp) {
            pb = pb.with_compression(c);
        }
    }
    let mut publisher = Some(pb.open().await?);
    let mut dup = None;
    let mut sent: Vec<Item> = vec![];
    // Every fifth case: a foreign publisher sends one payload that is not valid for the subscriber's
    // codec.  The subscriber must report exactly one error for it, and nothing that follows may be
    // disturbed (the subscriber keeps its decoder and decompressor objects for the life of its stream).
    let tname = std::any::type_name::<Item>();
    if run % 5 == 2 && !burst && empties == 0 && !tname.contains("Vec<u8>") {
        let bad: Vec<u8> = if tname.contains("String") {
            b"\xff\xfe\xfd not utf-8 \xc3".to_vec()
        } else {
            // bincode: an id, then a string whose bytes are not UTF-8, then bytes that would decode as a
            // complete value if a decoder picked them up later
            let mut v = 5u64.to_le_bytes().to_vec();
            v.extend(2u64.to_le_bytes());
            v.extend([0xff, 0xfe]);
            v.extend(bincode::serialize(&Sample { id: 777_777, name: "evil".into(), blob: vec![1, 2, 3] }).unwrap());
            v
        };
        let payload = match compression(comp) {
            Some((c, _)) => c.compress(Bytes::from(bad)).map_err(|e| anyhow!("compress: {e}"))?,
            None => Bytes::from(bad),
        };
        let mut st = raw_stream(raw).await?;
        st.send(selium_protocol::Frame::RegisterPublisher(selium_protocol::PublisherPayload {
            topic: selium_protocol::TopicName::try_from(topic)?,
            retention_policy: 0,
            operations: vec![],
        }))
        .await?;
        let _ = st.next().await;
        // ... and, on every other such case, first a batch frame whose content is not a batch
        let mut frames = vec![selium_protocol::Frame::Message(selium_protocol::MessagePayload { headers: None, message: payload })];
        if run % 2 == 0 {
            let junk = match compression(comp) {
                Some((c, _)) => c.compress(Bytes::from(vec![0xffu8; 16])).map_err(|e| anyhow!("compress: {e}"))?,
                None => Bytes::from(vec![0xffu8; 16]),
            };
            frames.insert(0, selium_protocol::Frame::BatchMessage(junk));
        }
        for f in frames {
        st.send(f).await?;
        log.emit("poison", json!({"codec": tname}));
        let mut reported = false;
        let deadline = tokio::time::Instant::now() + Duration::from_secs(5);
        while let Ok(Some(it)) = tokio::time::timeout_at(deadline, sub.recv()).await {
            match it {
                Some(Err(e)) => {
                    log.emit("sub_err", json!({"err": e.to_string().chars().take(80).collect::<String>()}));
                    reported = true;
                    break;
                }
                Some(Ok(v)) => {
                    log.emit("sub_item", json!({"i": v.index(), "eq": false}));
                }
                None => {
                    log.emit("sub_end", json!({}));
                    break;
                }
            }
        }
        if !reported {
            log.emit("poison_unreported", json!({}));
        }
        }
        let _ = st.finish().await;
    }
    if burst {
        let _ = gate.send(true);
    }
    for (opi, op) in ops.iter().enumerate() {
        if burst && op == "finish" {
            let _ = gate.send(false);
        }
        // Every seventh unbatched case: an item beyond the frame limit is offered in between.  If it is
        // refused, the publisher must be as good as before (what it accepts afterwards arrives); if the
        // configured compression makes it fit, it is an item like any other.
        if opi == 1 && run % 7 == 3 && size == 0 && !burst && publisher.is_some() {
            let i = sent.len() as u64 + 1;
            let item = Item::make(i, 1_100_000, rng);
            let r = publisher.as_mut().unwrap().send(item.clone()).await;
            if r.is_ok() {
                sent.push(item);
            }
            log.emit("pub_oversize", json!({"i": i, "res": if r.is_ok() { "ok".to_string() } else { format!("err: {}", r.unwrap_err()) }}));
        }
        if elapses && !slow_feeds {
            tokio::time::sleep(Duration::from_millis(4)).await;
        }
        // Every third case: half-way through (with batching: while the batch may be partly filled) the handle is
        // duplicated.  The duplicate is a handle of its own with nothing to send; what the original accepted
        // arrives once.  (`duplicate(&self)` is not `Send`: driven to completion on this thread.)
        if run % 3 == 1 && !burst && opi == ops.len() / 2 && opi > 0 && dup.is_none() {
            if let Some(p) = publisher.as_ref() {
                match tokio::task::block_in_place(|| tokio::runtime::Handle::current().block_on(p.duplicate())) {
                    Ok(d) => {
                        dup = Some(d);
                        log.emit("duplicated", json!({"after_ops": opi}));
                    }
                    Err(e) => log.emit("harness_error", json!({"err": format!("duplicate: {e}")})),
                }
            }
        }
        match op.as_str() {
            "send" | "feed" => {
                let i = sent.len() as u64 + 1;
                let psize = if burst { 8192 } else if big { rng.gen_range(100_000..300_000) } else { rng.gen_range(0..200) };
                let item = match Item::empty() {
                    Some(e) if empties == 1 || (empties == 3 && i % 3 != 0) => e,
                    _ => Item::make(i, psize, rng),
                };
                sent.push(item.clone());
                let p = publisher.as_mut().unwrap();
                let r = if op == "send" {
                    p.send(item).await
                } else if burst {
                    // with the subscriber paused a correct publisher may legitimately wait here:
                    // let the subscriber read again after a while
                    match tokio::time::timeout(Duration::from_millis(300), p.feed(item.clone())).await {
                        Ok(r) => r,
                        Err(_) => {
                            let _ = gate.send(false);
                            p.feed(item).await
                        }
                    }
                } else if slow_feeds && i % 2 == 0 {
                    // feed() by hand, with the caller taking its time between being told "ready" and handing
                    // the item over (longer than the batching interval): the Sink contract allows that, and the
                    // item still belongs behind everything accepted before it
                    use futures::Sink as _;
                    let mut pp = std::pin::Pin::new(&mut *p);
                    match futures::future::poll_fn(|cx| pp.as_mut().poll_ready(cx)).await {
                        Ok(()) => {
                            tokio::time::sleep(Duration::from_millis(45)).await;
                            pp.as_mut().start_send(item)
                        }
                        Err(e) => Err(e),
                    }
                } else {
                    p.feed(item).await
                };
                log.emit("pub_op", json!({"op": op, "i": i, "res": if r.is_ok() { "ok".to_string() } else { format!("err: {}", r.unwrap_err()) }}));
            }
            "finish" => {
                let r = publisher.take().unwrap().finish().await;
                log.emit("pub_finish_ret", json!({"res": if r.is_ok() { "ok".to_string() } else { format!("err: {}", r.unwrap_err()) }}));
                // a duplicate taken half-way (see below) never sent anything of its own: finishing it adds nothing
                if let Some(d) = dup.take() {
                    let r = d.finish().await;
                    log.emit("dup_finish_ret", json!({"res": if r.is_ok() { "ok".to_string() } else { format!("err: {}", r.unwrap_err()) }}));
                }
            }
            _ => {}
        }
    }
    // everything accepted must now arrive: wait for the expected count, generously
    let mut got = 0usize;
    let mut timed_out = false;
    while got < sent.len() {
        match tokio::time::timeout(Duration::from_secs(4), sub.recv()).await {
            Ok(Some(Some(Ok(it)))) => {
                let i = if empties > 0 { got as u64 + 1 } else { it.index() };
                let eq = i >= 1 && (i as usize) <= sent.len() && sent[i as usize - 1] == it;
                got += 1;
                log.emit("sub_item", json!({"i": i, "eq": eq}));
            }
            Ok(Some(Some(Err(e)))) => {
                log.emit("sub_err", json!({"err": e.to_string()}));
                break;
            }
            Ok(Some(None)) | Ok(None) => {
                log.emit("sub_end", json!({}));
                break;
            }
            Err(_) => {
                timed_out = true;
                break;
            }
        }
    }
    // and nothing else
    let mut extra = 0;
    if !timed_out {
        if let Ok(Some(Some(Ok(it)))) = tokio::time::timeout(Duration::from_millis(30), sub.recv()).await {
            extra += 1;
            log.emit("sub_item", json!({"i": it.index(), "eq": false}));
        }
    }
    log.emit("done", json!({"sent": sent.len(), "got": got, "timed_out": timed_out, "extra": extra}));
    reader.abort();
    Ok(())
}

async fn cmd_pubsub(args: Vec<String>) -> Result<()> {
    let env = setup(&args, "pubsub")?;
    let seed: u64 = arg(&args, "--seed").and_then(|s| s.parse().ok()).unwrap_or_else(seed_from_env);
    let cases = read_cases(&arg(&args, "--cases").unwrap());
    let par: usize = arg(&args, "--par").and_then(|s| s.parse().ok()).unwrap_or(6);
    // several client connections work through the cases concurrently (each case has its own topic)
    let mut handles = vec![];
    let cases = std::sync::Arc::new(cases);
    for w in 0..par {
        let cases = cases.clone();
        let log = env.log.clone();
        let certs = env.certs.clone();
        let addr = env.server.addr;
        handles.push(tokio::spawn(async move {
            let mut client = connect_client(addr, &certs, BackoffStrategy::constant().with_max_attempts(0)).await?;
            let mut raw = raw_connect_trusted(addr, &certs).await?;
            let mut k = w;
            while k < cases.len() {
                let run = k as u64 + 1;
                if (k / par) % 25 == 24 {
                    raw = raw_connect_trusted(addr, &certs).await?;
                    // The server notices that a subscriber has gone only when a write to it fails; on
                    // these one-case topics nothing is written any more, the stream stays half-open and
                    // counts against the connection's limit of 100 concurrent streams (open() would
                    // wait for ever on the 100th case of a connection): use a fresh connection.
                    client = connect_client(addr, &certs, BackoffStrategy::constant().with_max_attempts(0)).await?;
                }
                let mut rng = StdRng::seed_from_u64(seed.wrapping_mul(7919).wrapping_add(run));
                let comp = COMPRESSIONS[(run as usize + seed as usize) % COMPRESSIONS.len()];
                let topic = format!("/verif{}/case{}", seed % 1000, run);
                let big = run % 23 == 0;
                let mut case = cases[k].clone();
                if run % 12 == 5 && case["size"].as_u64().unwrap_or(0) > 0 {
                    case["burst"] = json!(true);
                }
                // a private log per case keeps its events contiguous in the trace
                let clog = EvLog::new(Box::new(std::io::sink()));
                // a case that does not finish is reported, never waited for
                let limit = Duration::from_secs(120);
                let r = match run % 3 {
                    0 => tokio::time::timeout(limit, pubsub_case::<StringCodec, String>(&client, &raw, &clog, run, &case, StringCodec, comp, &topic, &mut rng, big)).await,
                    1 => tokio::time::timeout(limit, pubsub_case::<BytesCodec, Vec<u8>>(&client, &raw, &clog, run, &case, BytesCodec, comp, &topic, &mut rng, big)).await,
                    _ => tokio::time::timeout(limit, pubsub_case::<BincodeCodec<Sample>, Sample>(&client, &raw, &clog, run, &case, BincodeCodec::default(), comp, &topic, &mut rng, big)).await,
                };
                match r {
                    Ok(Ok(())) => {}
                    Ok(Err(e)) => clog.emit("harness_error", json!({"err": e.to_string()})),
                    Err(_) => {
                        clog.emit("hung", json!({"after_s": 120, "case": case}));
                        client = connect_client(addr, &certs, BackoffStrategy::constant().with_max_attempts(0)).await?;
                    }
                }
                log.append_block(&clog);
                k += par;
            }
            Ok::<(), anyhow::Error>(())
        }));
    }
    for h in handles {
        h.await??;
    }
    env.log.flush();
    let _ = std::fs::remove_dir_all(&env.certs);
    println!("{}", json!({"runs": cases.len(), "events": env.log.lines()}));
    Ok(())
}

fn main() {
    quiet_panics();
    let args: Vec<String> = std::env::args().collect();
    if args.get(1).map(|s| s.as_str()) == Some("gen-certs") {
        gen_certs_here(Path::new(&args[2]), args.get(3).map(|s| s == "no-expiry").unwrap_or(false)).unwrap();
        return;
    }
    let rt = tokio::runtime::Builder::new_multi_thread().worker_threads(6).enable_all().build().unwrap();
    let r = rt.block_on(async {
        match args.get(1).map(|s| s.as_str()) {
            Some("pubsub") => cmd_pubsub(args.clone()).await,
            Some("reqrep") => reqrep::cmd_reqrep(args.clone()).await,
            Some("server") => server::cmd_server(args.clone()).await,
            Some("stall") => server::cmd_stall(args.clone()).await,
            Some("tls") => server::cmd_tls(args.clone()).await,
            Some("fanout") => fanout::cmd_fanout(args.clone()).await,
            Some("shutdown") => shutdown::cmd_shutdown(args.clone()).await,
            Some("reqlife") => reqlife::cmd_reqlife(args.clone()).await,
            Some("replife") => replife::cmd_replife(args.clone()).await,
            Some("publife") => publife::cmd_publife(args.clone()).await,
            Some("subflood") => subflood::cmd_subflood(args.clone()).await,
            Some("subflood-child") => subflood::cmd_subflood_child(args.clone()).await,
            Some("keepalive") => keepalive::cmd_keepalive(args.clone()).await,
            _ => Err(anyhow!("usage: e2e pubsub|reqrep|server|stall|tls|keepalive --out T ...")),
        }
    });
    rt.shutdown_background();
    if let Err(e) = r {
        eprintln!("e2e error: {e:?}");
        std::process::exit(2);
    }
}
