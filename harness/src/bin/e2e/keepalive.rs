//! C12: streams re-establish themselves after connection loss, within a per-outage retry budget.
//! The client's own `tracing` output is the event source for reconnect attempts; the harness cuts
//! the client's QUIC connection (verification hook) and swaps the server listening on the port
//! (right CA / wrong CA / fresh state with the topic taken by the other messaging pattern) to
//! script each attempt's outcome.
use super::*;
use selium::std::errors::{QuicError, SeliumError};
use selium_protocol::{Frame, ReplierPayload, SubscriberPayload, TopicName};
use std::net::SocketAddr;
use std::sync::Mutex;
use tokio::sync::mpsc;

const STEP_MS: u64 = 300;

// ---- a request item whose Clone can cut the connection: KeepAlive::request clones the item once
// per send attempt, so the second clone inside one request() call is the re-send right after a
// successful reconnect -- cutting there starts the next outage *inside the same call*.
static ARMED_CUTS: std::sync::atomic::AtomicU32 = std::sync::atomic::AtomicU32::new(0);
static CLONES_IN_CALL: std::sync::atomic::AtomicU32 = std::sync::atomic::AtomicU32::new(0);
static CUT_CLIENT: Mutex<Option<Client>> = Mutex::new(None);

#[derive(Debug)]
struct Armed(String);
impl Clone for Armed {
    fn clone(&self) -> Self {
        use std::sync::atomic::Ordering::SeqCst;
        let n = CLONES_IN_CALL.fetch_add(1, SeqCst) + 1;
        if n >= 2 && ARMED_CUTS.load(SeqCst) > 0 {
            ARMED_CUTS.fetch_sub(1, SeqCst);
            let client = CUT_CLIENT.lock().unwrap().clone();
            if let Some(c) = client {
                tokio::task::block_in_place(|| tokio::runtime::Handle::current().block_on(c.verif_close_connection()));
            }
        }
        Armed(self.0.clone())
    }
}
#[derive(Clone)]
struct ArmedCodec;
impl MessageEncoder<Armed> for ArmedCodec {
    fn encode(&self, item: Armed) -> anyhow::Result<Bytes> {
        Ok(item.0.into())
    }
}

struct ChanWriter(mpsc::UnboundedSender<String>);
impl std::io::Write for ChanWriter {
    fn write(&mut self, buf: &[u8]) -> std::io::Result<usize> {
        let _ = self.0.send(String::from_utf8_lossy(buf).to_string());
        Ok(buf.len())
    }
    fn flush(&mut self) -> std::io::Result<()> {
        Ok(())
    }
}

fn install_tracing() -> mpsc::UnboundedReceiver<String> {
    let (tx, rx) = mpsc::unbounded_channel();
    let tx = Mutex::new(tx);
    let make = move || ChanWriter(tx.lock().unwrap().clone());
    let sub = tracing_subscriber::fmt().with_writer(make).with_ansi(false).without_time().with_target(false).finish();
    let _ = tracing::subscriber::set_global_default(sub);
    rx
}

#[derive(Debug, Clone, PartialEq)]
enum Ka {
    Lost,
    Attempt(u32, u32),
    Failed,
    Reconnected,
    Fatal,
    TooMany,
}

fn parse(line: &str) -> Option<Ka> {
    let num = |key: &str| -> u32 { line.split(key).nth(1).and_then(|r| r.split(|c: char| !c.is_ascii_digit()).next()).and_then(|d| d.parse().ok()).unwrap_or(0) };
    if line.contains("Attempting to reconnect") {
        Some(Ka::Attempt(num("attempt_num="), num("max_attempts=")))
    } else if line.contains("Failed to reconnect") {
        Some(Ka::Failed)
    } else if line.contains("Successfully reconnected") {
        Some(Ka::Reconnected)
    } else if line.contains("unrecoverable error") {
        // KeepAlive::request logs a plain request timeout (nobody bound to answer) with the same
        // message; that is not the outcome of a reconnect attempt
        if line.contains("timed out") {
            None
        } else {
            Some(Ka::Fatal)
        }
    } else if line.contains("Too many connection retries") {
        Some(Ka::TooMany)
    } else if line.contains("lost connection") {
        Some(Ka::Lost)
    } else {
        None
    }
}

fn start_on(certs: &Path, addr: SocketAddr) -> Result<ServerHandle> {
    for _ in 0..100 {
        if let Ok(s) = start_server(certs, &addr.to_string()) {
            return Ok(s);
        }
        std::thread::sleep(Duration::from_millis(10));
    }
    Err(anyhow!("cannot rebind {addr}"))
}

/// what the driver task of the stream under test reports
#[derive(Debug)]
enum Report {
    Progress,          // an exchange completed (item published / received / answered)
    Final(String),     // the stream gave up: "too_many_retries" | "fatal_error: ..."
}

fn classify(e: &SeliumError) -> String {
    match e {
        SeliumError::Quic(QuicError::TooManyRetries) => "too_many_retries".into(),
        other => format!("fatal_error: {other}"),
    }
}

async fn spawn_under_test(kind: &str, client: &Client, topic: &str, tx: mpsc::UnboundedSender<Report>) -> Result<tokio::task::JoinHandle<()>> {
    Ok(match kind {
        "publisher" => {
            let mut p = client.publisher(topic).with_encoder(StringCodec).open().await?;
            tokio::spawn(async move {
                let mut i = 0u64;
                let filler = "x".repeat(4096);
                'outer: loop {
                    // a few feed()s first: the framed writer then flushes inside poll_ready, so a lost
                    // connection can surface in any of poll_ready / poll_flush
                    for _ in 0..3 {
                        i += 1;
                        if let Err(e) = p.feed(format!("m{i}:{filler}")).await {
                            let _ = tx.send(Report::Final(classify(&e)));
                            break 'outer;
                        }
                    }
                    i += 1;
                    match p.send(format!("m{i}")).await {
                        Ok(()) => {
                            let _ = tx.send(Report::Progress);
                        }
                        Err(e) => {
                            let _ = tx.send(Report::Final(classify(&e)));
                            break;
                        }
                    }
                    tokio::time::sleep(Duration::from_millis(20)).await;
                }
            })
        }
        "subscriber" => {
            let mut s = client.subscriber(topic).with_decoder(StringCodec).open().await?;
            tokio::spawn(async move {
                loop {
                    match s.next().await {
                        Some(Ok(_)) => {
                            let _ = tx.send(Report::Progress);
                        }
                        Some(Err(e)) => {
                            let _ = tx.send(Report::Final(classify(&e)));
                            break;
                        }
                        None => {
                            let _ = tx.send(Report::Final("fatal_error: stream ended".into()));
                            break;
                        }
                    }
                }
            })
        }
        "requestor" => {
            let mut r = client
                .requestor(topic)
                .with_request_encoder(ArmedCodec)
                .with_reply_decoder(StringCodec)
                .with_request_timeout(Duration::from_millis(200))?
                .open()
                .await?;
            tokio::spawn(async move {
                loop {
                    CLONES_IN_CALL.store(0, std::sync::atomic::Ordering::SeqCst);
                    match r.request(Armed("ping".to_string())).await {
                        Ok(_) => {
                            let _ = tx.send(Report::Progress);
                        }
                        // nobody answers while no replier is bound: keep asking
                        Err(SeliumError::RequestTimeout) => {}
                        Err(e) => {
                            let _ = tx.send(Report::Final(classify(&e)));
                            break;
                        }
                    }
                    tokio::time::sleep(Duration::from_millis(20)).await;
                }
            })
        }
        _ => {
            let tx2 = tx.clone();
            let mut r = client
                .replier(topic)
                .with_request_decoder(StringCodec)
                .with_reply_encoder(StringCodec)
                .with_handler(move |req: String| {
                    let tx2 = tx2.clone();
                    async move {
                        let _ = tx2.send(Report::Progress);
                        Ok::<String, anyhow::Error>(format!("re:{req}"))
                    }
                })
                .open()
                .await?;
            tokio::spawn(async move {
                if let Err(e) = r.listen().await {
                    let _ = tx.send(Report::Final(classify(&e)));
                }
            })
        }
    })
}

/// a fresh counterpart on its own connection; returns once an exchange with the stream under
/// test completed (or the time is up)
async fn works(kind: &str, addr: SocketAddr, certs: &Path, topic: &str, rx: &mut mpsc::UnboundedReceiver<Report>) -> Result<bool> {
    let other = connect_client(addr, certs, BackoffStrategy::constant().with_max_attempts(0)).await?;
    while rx.try_recv().is_ok() {}
    let deadline = tokio::time::Instant::now() + Duration::from_secs(8);
    match kind {
        "publisher" => {
            // the publisher under test keeps sending: a fresh subscriber must receive
            let mut s = other.subscriber(topic).with_decoder(StringCodec).open().await?;
            Ok(matches!(tokio::time::timeout(Duration::from_secs(8), s.next()).await, Ok(Some(Ok(_)))))
        }
        "subscriber" => {
            let mut p = other.publisher(topic).with_encoder(StringCodec).open().await?;
            loop {
                p.send("probe".to_string()).await?;
                if let Ok(Some(Report::Progress)) = tokio::time::timeout(Duration::from_millis(50), rx.recv()).await {
                    return Ok(true);
                }
                if tokio::time::Instant::now() > deadline {
                    return Ok(false);
                }
            }
        }
        "requestor" => {
            // a replier appears; the requestor under test keeps asking and must get an answer
            let mut r = other
                .replier(topic)
                .with_request_decoder(StringCodec)
                .with_reply_encoder(StringCodec)
                .with_handler(|req: String| async move { Ok::<String, anyhow::Error>(format!("re:{req}")) })
                .open()
                .await?;
            let l = tokio::spawn(async move {
                let _ = r.listen().await;
            });
            let mut ok = false;
            while tokio::time::Instant::now() < deadline {
                if let Ok(Some(Report::Progress)) = tokio::time::timeout(Duration::from_millis(100), rx.recv()).await {
                    ok = true;
                    break;
                }
            }
            l.abort();
            Ok(ok)
        }
        _ => {
            let mut q = other
                .requestor(topic)
                .with_request_encoder(StringCodec)
                .with_reply_decoder(StringCodec)
                .with_request_timeout(Duration::from_millis(300))?
                .open()
                .await?;
            while tokio::time::Instant::now() < deadline {
                if let Ok(v) = q.request("probe".to_string()).await {
                    return Ok(v == "re:probe");
                }
            }
            Ok(false)
        }
    }
}

async fn ka_case(certs_good: &Path, certs_bad: &Path, log: &EvLog, trace: &mut mpsc::UnboundedReceiver<String>, run: u64, case: &Value) -> Result<()> {
    let kind = case["kind"].as_str().unwrap();
    let max = case["max"].as_u64().unwrap() as u32;
    let outages: Vec<Vec<String>> = case["outages"].as_array().unwrap().iter().map(|o| o.as_array().unwrap().iter().map(|x| x.as_str().unwrap().to_string()).collect()).collect();
    log.emit("case", json!({"run": run, "kind": kind, "max": max, "outages": case["outages"], "final": case["final"]}));
    let mut server = start_server(certs_good, "127.0.0.1:0")?;
    let addr = server.addr;
    let topic = format!("/vka{}/top{}", run % 1000, run);
    let client = connect_client(addr, certs_good, BackoffStrategy::constant().with_max_attempts(max).with_step(Duration::from_millis(STEP_MS))).await?;
    let (tx, mut rx) = mpsc::unbounded_channel();
    *CUT_CLIENT.lock().unwrap() = Some(client.clone());
    ARMED_CUTS.store(0, std::sync::atomic::Ordering::SeqCst);
    // a requestor's later outages are started from inside the request() call that survived the
    // previous one (see `Armed`): one armed cut per outage after the first that follows a success
    let chained = kind == "requestor";
    if chained {
        let n = outages.iter().take(outages.len().saturating_sub(1)).filter(|o| o.last().map(|x| x == "ok").unwrap_or(false)).count();
        ARMED_CUTS.store(n as u32, std::sync::atomic::Ordering::SeqCst);
    }
    let task = spawn_under_test(kind, &client, &topic, tx).await?;
    while trace.try_recv().is_ok() {}
    let mut final_report: Option<String> = None;

    // put the server side into the state that makes the next attempt end as scripted
    async fn prepare(outcome: &str, server: &mut ServerHandle, addr: SocketAddr, good: &Path, bad: &Path, kind: &str, topic: &str) -> Result<()> {
        let placeholder = ServerHandle::placeholder(addr);
        match outcome {
            "fail" => {
                std::mem::replace(server, placeholder).stop();
                *server = start_on(bad, addr)?;
            }
            "ok" => {
                std::mem::replace(server, placeholder).stop();
                *server = start_on(good, addr)?;
            }
            _ => {
                // fresh server whose topic is already taken by the other messaging pattern
                std::mem::replace(server, placeholder).stop();
                *server = start_on(good, addr)?;
                let conn = raw_connect_trusted(addr, good).await?;
                let mut st = raw_stream(&conn).await?;
                let t = TopicName::try_from(topic)?;
                let f = if kind == "publisher" || kind == "subscriber" {
                    Frame::RegisterReplier(ReplierPayload { topic: t })
                } else {
                    Frame::RegisterSubscriber(SubscriberPayload { topic: t, retention_policy: 0, operations: vec![] })
                };
                st.send(f).await?;
                let _ = st.next().await;
                // keep the squatter alive for the rest of the case
                std::mem::forget(st);
                std::mem::forget(conn);
            }
        }
        Ok(())
    }

    'outages: for (i, script) in outages.iter().enumerate() {
        let first = script.first().map(|s| s.as_str()).unwrap_or("none");
        if first == "fail" || first == "fatal" {
            prepare(first, &mut server, addr, certs_good, certs_bad, kind, &topic).await?;
        }
        if chained && i > 0 {
            // the re-send after the previous reconnect cuts the connection itself
            log.emit("cut", json!({"outage": i + 1, "mode": "inside_the_same_request_call"}));
        } else {
            client.verif_close_connection().await;
            log.emit("cut", json!({"outage": i + 1}));
        }
        let mut j = 0usize; // attempts seen in this outage
        let deadline = tokio::time::Instant::now() + Duration::from_secs(12);
        loop {
            let line = tokio::select! {
                l = trace.recv() => l,
                _ = tokio::time::sleep_until(deadline) => None,
            };
            let Some(line) = line else {
                log.emit("hang", json!({"outage": i + 1, "attempts_seen": j}));
                break 'outages;
            };
            match parse(&line) {
                Some(Ka::Attempt(n, m)) => {
                    j += 1;
                    log.emit("attempt", json!({"outage": i + 1, "num": n, "max": m, "nth_in_outage": j}));
                }
                Some(Ka::Failed) => {
                    log.emit("attempt_result", json!({"outage": i + 1, "res": "fail"}));
                    // next attempt's outcome
                    if let Some(next) = script.get(j) {
                        if next != "fail" {
                            prepare(next, &mut server, addr, certs_good, certs_bad, kind, &topic).await?;
                        }
                    }
                }
                Some(Ka::Reconnected) => {
                    log.emit("attempt_result", json!({"outage": i + 1, "res": "ok"}));
                    break;
                }
                Some(Ka::Fatal) => {
                    log.emit("attempt_result", json!({"outage": i + 1, "res": "fatal"}));
                    break 'outages;
                }
                Some(Ka::TooMany) => {
                    log.emit("exhausted", json!({"outage": i + 1, "attempts_seen": j}));
                    break 'outages;
                }
                _ => {}
            }
        }
        // let the stream settle before the next outage
        if !chained {
            tokio::time::sleep(Duration::from_millis(60)).await;
        }
    }
    // what does the stream report / does it work
    tokio::time::sleep(Duration::from_millis(100)).await;
    while let Ok(r) = rx.try_recv() {
        if let Report::Final(s) = r {
            final_report = Some(s);
        }
    }
    let status = match &final_report {
        Some(s) => s.clone(),
        None => {
            if case["final"] == "connected" {
                match works(kind, addr, certs_good, &topic, &mut rx).await {
                    Ok(true) => "connected_works".to_string(),
                    Ok(false) => "connected_but_broken".to_string(),
                    Err(e) => format!("connected_probe_error: {e}"),
                }
            } else {
                // the failure has been logged by the library; the operation must report it, not hang
                match tokio::time::timeout(Duration::from_secs(5), rx.recv()).await {
                    Ok(Some(Report::Final(s))) => s,
                    _ => "not_reported".to_string(),
                }
            }
        }
    };
    log.emit("final", json!({"status": status.chars().take(120).collect::<String>()}));
    task.abort();
    *CUT_CLIENT.lock().unwrap() = None;
    server.stop();
    Ok(())
}

pub async fn cmd_keepalive(args: Vec<String>) -> Result<()> {
    let out = arg(&args, "--out").ok_or(anyhow!("--out"))?;
    let log = EvLog::to_file(&out)?;
    let cases = read_cases(&arg(&args, "--cases").unwrap());
    let good = PathBuf::from(format!("{out}.certs-good"));
    let bad = PathBuf::from(format!("{out}.certs-bad"));
    for d in [&good, &bad] {
        let _ = std::fs::remove_dir_all(d);
        gen_certs(d)?;
    }
    let mut trace = install_tracing();
    for (k, c) in cases.iter().enumerate() {
        let run = k as u64 + 1;
        if let Err(e) = ka_case(&good, &bad, &log, &mut trace, run, c).await {
            log.emit("harness_error", json!({"err": e.to_string()}));
        }
    }
    log.flush();
    for d in [&good, &bad] {
        let _ = std::fs::remove_dir_all(d);
    }
    println!("{}", json!({"runs": cases.len(), "events": log.lines()}));
    Ok(())
}
