use anyhow::Result;
pub async fn cmd_reqrep(_args: Vec<String>) -> Result<()> {
    Ok(())
}
