//! C04: concurrent request() calls on cloned requestors and on separate requestor streams
//! against a scripted replier that speaks the wire protocol directly (answers in any order,
//! late, twice or never).
use super::*;
use rand::seq::SliceRandom;
use selium_protocol::{BiStream, Frame, MessagePayload, ReplierPayload, TopicName};
use std::collections::HashMap;

const TIMEOUT_MS: u64 = 300;

async fn register_raw_replier(conn: &quinn::Connection, topic: &str) -> Result<BiStream> {
    let mut st = raw_stream(conn).await?;
    st.send(Frame::RegisterReplier(ReplierPayload { topic: TopicName::try_from(topic)? })).await?;
    match st.next().await {
        Some(Ok(Frame::Ok)) => Ok(st),
        other => Err(anyhow!("replier registration refused: {:?}", other.map(|r| r.map(|f| f.get_type())))),
    }
}

fn call_of(payload: &[u8]) -> u64 {
    // requests are StringCodec strings "call<k>:..."
    let s = String::from_utf8_lossy(payload);
    s.strip_prefix("call").and_then(|r| r.split(':').next()).and_then(|k| k.parse().ok()).unwrap_or(0)
}

async fn reqrep_case(client: &Client, raw: &quinn::Connection, log: &EvLog, run: u64, case: &Value, topic: &str, rng: &mut StdRng, comp: &str) -> Result<()> {
    let calls: Vec<(u64, String)> = case["calls"].as_array().unwrap().iter().map(|c| (c["s"].as_u64().unwrap(), c["mode"].as_str().unwrap().to_string())).collect();
    log.emit("case", json!({"run": run, "calls": case["calls"], "comp": comp}));
    // requests and replies go through the configured compression; the scripted replier undoes / redoes it
    let plain = |b: &Bytes| -> Vec<u8> {
        match compression(comp) {
            Some((_, d)) => d.decompress(b.clone()).map(|x| x.to_vec()).unwrap_or_else(|_| b"undecodable".to_vec()),
            None => b.to_vec(),
        }
    };
    let packed = |s: String| -> Bytes {
        match compression(comp) {
            Some((c, _)) => c.compress(Bytes::from(s)).expect("compress"),
            None => Bytes::from(s),
        }
    };
    let mut replier = register_raw_replier(raw, topic).await?;
    let open = || async {
        let mut b = client.requestor(topic).with_request_encoder(StringCodec);
        if let Some((c, _)) = compression(comp) {
            b = b.with_request_compression(c);
        }
        let mut b = b.with_reply_decoder(StringCodec);
        if let Some((_, d)) = compression(comp) {
            b = b.with_reply_decompression(d);
        }
        b.with_request_timeout(Duration::from_millis(TIMEOUT_MS))?.open().await
    };
    let a = open().await?;
    let a2 = a.clone();
    let b = open().await?;
    let n = calls.len();
    let mut handles = vec![];
    for (k, (s, _)) in calls.iter().enumerate() {
        let c = k as u64 + 1;
        let mut h = match (s, k % 2) {
            (1, 0) => a.clone(),
            (1, _) => a2.clone(),
            _ => b.clone(),
        };
        let payload = format!("call{}:{:08x}", c, rng.gen::<u32>());
        log.emit("call_start", json!({"c": c, "s": s}));
        handles.push(tokio::spawn(async move {
            let t0 = std::time::Instant::now();
            let r = h.request(payload).await;
            (c, r, t0.elapsed().as_millis() as u64)
        }));
    }
    // the replier collects the requests
    let mut got: Vec<(u64, MessagePayload)> = vec![];
    while got.len() < n {
        match tokio::time::timeout(Duration::from_secs(5), replier.next()).await {
            Ok(Some(Ok(Frame::Message(p)))) => {
                let c = call_of(&plain(&p.message));
                log.emit("replier_got", json!({"c": c, "cid": p.headers.as_ref().and_then(|h| h.get("cid").cloned()), "rid": p.headers.as_ref().and_then(|h| h.get("req_id").cloned())}));
                got.push((c, p));
            }
            _ => break,
        }
    }
    let t_recv = tokio::time::Instant::now();
    // ... and answers in a shuffled order according to the script
    got.shuffle(rng);
    let mut late: Vec<(u64, MessagePayload)> = vec![];
    for (c, p) in got {
        let mode = calls.get(c as usize - 1).map(|x| x.1.as_str()).unwrap_or("never");
        let reply = Frame::Message(MessagePayload { headers: p.headers.clone(), message: packed(format!("re:{}", String::from_utf8_lossy(&plain(&p.message)))) });
        match mode {
            "now" => replier.send(reply).await?,
            "dup" => {
                replier.send(reply.clone()).await?;
                replier.send(reply).await?;
            }
            "late" => late.push((c, p)),
            _ => {}
        }
        log.emit("reply_script", json!({"c": c, "mode": mode}));
    }
    let mut results: HashMap<u64, String> = HashMap::new();
    for h in handles {
        let (c, r, ms) = h.await?;
        let (res, val_call) = match r {
            Ok(v) => ("ok".to_string(), v.strip_prefix("re:").map(|x| call_of(x.as_bytes())).unwrap_or(0)),
            Err(selium::std::errors::SeliumError::RequestTimeout) => ("timeout".to_string(), 0),
            Err(e) => (format!("err: {e}"), 0),
        };
        results.insert(c, res.clone());
        log.emit("call_ret", json!({"c": c, "res": res, "val_call": val_call, "ms": ms, "timeout_ms": TIMEOUT_MS}));
    }
    // late replies go out once every call has long timed out ...
    let since = t_recv.elapsed();
    if since < Duration::from_millis(TIMEOUT_MS * 2) {
        tokio::time::sleep(Duration::from_millis(TIMEOUT_MS * 2) - since).await;
    }
    // ... but only after later requests on both streams are already on their way: a late reply
    // must not be handed to a later request (which could have re-used its id)
    let mut later = vec![];
    for (s, mut h) in [(1u64, a.clone()), (2u64, b.clone())] {
        let payload = format!("call{}:{:08x}", 100 + s, rng.gen::<u32>());
        later.push(tokio::spawn(async move { (s, h.request(payload).await) }));
    }
    let mut later_reqs = vec![];
    for _ in 0..2 {
        if let Ok(Some(Ok(Frame::Message(p)))) = tokio::time::timeout(Duration::from_secs(5), replier.next()).await {
            later_reqs.push(p);
        }
    }
    for (_, p) in &late {
        let reply = Frame::Message(MessagePayload { headers: p.headers.clone(), message: packed(format!("re:{}", String::from_utf8_lossy(&plain(&p.message)))) });
        replier.send(reply).await?;
    }
    tokio::time::sleep(Duration::from_millis(20)).await;
    for p in later_reqs {
        let reply = Frame::Message(MessagePayload { headers: p.headers.clone(), message: packed(format!("re:{}", String::from_utf8_lossy(&plain(&p.message)))) });
        replier.send(reply).await?;
    }
    for h in later {
        let (s, r) = h.await?;
        let (res, own) = match r {
            Ok(v) => ("ok".to_string(), v.strip_prefix("re:").map(|x| call_of(x.as_bytes())).unwrap_or(0) == 100 + s),
            Err(selium::std::errors::SeliumError::RequestTimeout) => ("timeout".to_string(), false),
            Err(e) => (format!("err: {e}"), false),
        };
        log.emit("later_ret", json!({"s": s, "res": res, "own": own}));
    }
    log.emit("done", json!({}));
    Ok(())
}

/// Degenerate but legal request timeouts -- zero, less than a millisecond, one millisecond -- against a replier
/// that never answers: every call must come back with the timeout error, promptly, and a handle with an
/// ordinary timeout on the same topic works afterwards.  (Arithmetic on the timeout must not be able to end the
/// caller's task.)
async fn edge_timeouts(client: &Client, raw: &quinn::Connection, log: &EvLog, topic: &str) -> Result<()> {
    log.emit("case", json!({"run": 900_001, "calls": []}));
    let mut replier = register_raw_replier(raw, topic).await?;
    for us in [0u64, 500, 1_000, 1_999] {
        let mut r = client
            .requestor(topic)
            .with_request_encoder(StringCodec)
            .with_reply_decoder(StringCodec)
            .with_request_timeout(Duration::from_micros(us))?
            .open()
            .await?;
        for _ in 0..2 {
            let mut h = r.clone();
            let t0 = std::time::Instant::now();
            let res = match tokio::time::timeout(Duration::from_secs(20), tokio::spawn(async move { h.request("edge".to_string()).await })).await {
                Ok(Ok(Ok(_))) => "ok".to_string(),
                Ok(Ok(Err(selium::std::errors::SeliumError::RequestTimeout))) => "timeout".to_string(),
                Ok(Ok(Err(e))) => format!("error: {e}"),
                Ok(Err(e)) => format!("died: {}", if e.is_panic() { "panic" } else { "cancelled" }),
                Err(_) => "hung".to_string(),
            };
            log.emit("edge_timeout", json!({"timeout_us": us, "res": res, "ms": t0.elapsed().as_millis() as u64}));
        }
        let _ = tokio::spawn(async move { r.request("edge-original-handle".to_string()).await }).await;
    }
    // drain what the replier was sent, answer nothing; then an ordinary exchange
    let mut ordinary = client
        .requestor(topic)
        .with_request_encoder(StringCodec)
        .with_reply_decoder(StringCodec)
        .with_request_timeout(Duration::from_millis(2_000))?
        .open()
        .await?;
    let call = tokio::spawn(async move { ordinary.request("call1:after-edge".to_string()).await });
    let mut answered = false;
    let deadline = tokio::time::Instant::now() + Duration::from_secs(5);
    while let Ok(Some(Ok(f))) = tokio::time::timeout_at(deadline, replier.next()).await {
        if let Frame::Message(m) = f {
            if m.message.starts_with(b"call1:") {
                replier.send(Frame::Message(MessagePayload { headers: m.headers.clone(), message: Bytes::from_static(b"re:after-edge") })).await?;
                answered = true;
                break;
            }
        }
    }
    let res = match tokio::time::timeout(Duration::from_secs(5), call).await {
        Ok(Ok(Ok(s))) if s == "re:after-edge" => "ok".to_string(),
        Ok(Ok(Ok(s))) => format!("wrong reply: {s}"),
        Ok(Ok(Err(e))) => format!("error: {e}"),
        Ok(Err(_)) => "died".to_string(),
        Err(_) => "hung".to_string(),
    };
    log.emit("later_ret", json!({"res": if res == "ok" { "ok".to_string() } else { res }, "own": true, "answered": answered}));
    Ok(())
}

/// Many requestor streams over the life of one topic: two dozen requestor objects are opened on the same topic,
/// one after the other (each its own stream, each with a request-id counter that starts at 0), and all of them ask
/// at the same time.  The replier answers every request with the asker's own text: each call must get its own
/// reply, whatever number the server gave its stream.
async fn many_streams(client: &Client, raw: &quinn::Connection, log: &EvLog, topic: &str) -> Result<()> {
    const N: u64 = 24;
    log.emit("case", json!({"run": 900_002, "calls": (0..N).map(|k| json!({"s": k + 1, "mode": "now"})).collect::<Vec<_>>()}));
    let mut replier = register_raw_replier(raw, topic).await?;
    let mut handles = vec![];
    for c in 1..=N {
        let mut r = client
            .requestor(topic)
            .with_request_encoder(StringCodec)
            .with_reply_decoder(StringCodec)
            .with_request_timeout(Duration::from_millis(3_000))?
            .open()
            .await?;
        handles.push(tokio::spawn(async move {
            let t0 = std::time::Instant::now();
            let res = r.request(format!("call{c}:many")).await;
            (c, res, t0.elapsed().as_millis() as u64)
        }));
    }
    // echo: "re:" + the request, with the request's headers
    let mut answered = 0;
    let deadline = tokio::time::Instant::now() + Duration::from_secs(4);
    while answered < N {
        match tokio::time::timeout_at(deadline, replier.next()).await {
            Ok(Some(Ok(Frame::Message(m)))) => {
                let mut body = b"re:".to_vec();
                body.extend_from_slice(&m.message);
                replier.send(Frame::Message(MessagePayload { headers: m.headers.clone(), message: Bytes::from(body) })).await?;
                answered += 1;
            }
            Ok(Some(Ok(_))) => {}
            _ => break,
        }
    }
    for h in handles {
        let (c, r, ms) = match tokio::time::timeout(Duration::from_secs(10), h).await {
            Ok(Ok(x)) => x,
            _ => continue,
        };
        let (res, val_call) = match r {
            Ok(v) => ("ok".to_string(), v.strip_prefix("re:").map(|x| call_of(x.as_bytes())).unwrap_or(0)),
            Err(selium::std::errors::SeliumError::RequestTimeout) => ("timeout".to_string(), 0),
            Err(e) => (format!("err: {e}"), 0),
        };
        log.emit("call_ret", json!({"c": c, "res": res, "val_call": val_call, "ms": ms, "timeout_ms": 3_000}));
    }
    log.emit("done", json!({}));
    Ok(())
}

pub async fn cmd_reqrep(args: Vec<String>) -> Result<()> {
    let env = setup(&args, "reqrep")?;
    let seed: u64 = arg(&args, "--seed").and_then(|s| s.parse().ok()).unwrap_or_else(seed_from_env);
    let cases = std::sync::Arc::new(read_cases(&arg(&args, "--cases").unwrap()));
    let par: usize = arg(&args, "--par").and_then(|s| s.parse().ok()).unwrap_or(12);
    let mut handles = vec![];
    for w in 0..par {
        let cases = cases.clone();
        let log = env.log.clone();
        let certs = env.certs.clone();
        let addr = env.server.addr;
        handles.push(tokio::spawn(async move {
            let client = connect_client(addr, &certs, BackoffStrategy::constant().with_max_attempts(0)).await?;
            let raw = raw_connect_trusted(addr, &certs).await?;
            let mut k = w;
            while k < cases.len() {
                let run = k as u64 + 1;
                let mut rng = StdRng::seed_from_u64(seed.wrapping_mul(104729).wrapping_add(run));
                let topic = format!("/verifrr{}/case{}", seed % 1000, run);
                let clog = EvLog::new(Box::new(std::io::sink()));
                let comp = COMPRESSIONS[(run as usize + seed as usize) % COMPRESSIONS.len()];
                if let Err(e) = reqrep_case(&client, &raw, &clog, run, &cases[k], &topic, &mut rng, comp).await {
                    clog.emit("harness_error", json!({"err": e.to_string()}));
                }
                log.append_block(&clog);
                k += par;
            }
            Ok::<(), anyhow::Error>(())
        }));
    }
    for h in handles {
        h.await??;
    }
    {
        let client = connect_client(env.server.addr, &env.certs, BackoffStrategy::constant().with_max_attempts(0)).await?;
        let raw = raw_connect_trusted(env.server.addr, &env.certs).await?;
        let clog = EvLog::new(Box::new(std::io::sink()));
        if let Err(e) = edge_timeouts(&client, &raw, &clog, &format!("/verifrr{}/edge-timeouts", seed % 1000)).await {
            clog.emit("harness_error", json!({"err": e.to_string()}));
        }
        env.log.append_block(&clog);
        let clog = EvLog::new(Box::new(std::io::sink()));
        if let Err(e) = many_streams(&client, &raw, &clog, &format!("/verifrr{}/many-streams", seed % 1000)).await {
            clog.emit("harness_error", json!({"err": e.to_string()}));
        }
        env.log.append_block(&clog);
    }
    env.log.flush();
    let _ = std::fs::remove_dir_all(&env.certs);
    println!("{}", json!({"runs": cases.len(), "events": env.log.lines()}));
    Ok(())
}
