//! Graceful shutdown at system level (C16, server.rs `Server::shutdown`): a real server with live
//! topics in every state (idle, mid-delivery, only one side connected, registrations arriving
//! while it shuts down) receives the interrupt signal; `listen()` has to return, the steps of
//! `shutdown()` are reported by hooks, and what the subscribers received is a contiguous run of
//! each publisher's messages.  Cases are enumerated by TLC (ServerLifeCases).
use super::*;
use selium::std::codecs::StringCodec;
use std::collections::BTreeMap;
use std::sync::atomic::{AtomicBool, AtomicU64, Ordering};
use std::sync::Arc;

fn install_observer(log: &EvLog) {
    let l2 = log.clone();
    selium_server::verif::set_observer(Some(Box::new(move |ev, detail| {
        if ev.starts_with("sd_") {
            l2.emit(ev, json!({"n": detail.parse::<u64>().unwrap_or(0)}));
        } else if ev.starts_with("hs_") {
            let mut it = detail.split(' ');
            let id: u64 = it.next().and_then(|x| x.parse().ok()).unwrap_or(0);
            let topic = it.next().unwrap_or("").to_string();
            l2.emit(ev, json!({"task": id, "topic": topic}));
        }
    })));
}

fn parse(s: &str) -> Option<(u64, u64)> {
    let mut it = s.split(':');
    let p = it.next()?.strip_prefix('P')?.parse().ok()?;
    let n = it.next()?.parse().ok()?;
    Some((p, n))
}

struct SubRec {
    reads: bool,
    items: Arc<std::sync::Mutex<Vec<(u64, u64)>>>,
    ended: Arc<AtomicBool>,
    task: tokio::task::JoinHandle<()>,
}

async fn open_sub(client: &Client, topic: &str, reads: bool) -> Result<SubRec> {
    let mut stream = client.subscriber(topic).with_decoder(StringCodec).open().await?;
    let items = Arc::new(std::sync::Mutex::new(vec![]));
    let ended = Arc::new(AtomicBool::new(false));
    let (i2, e2) = (items.clone(), ended.clone());
    let task = tokio::spawn(async move {
        if !reads {
            // a subscriber that never reads: keep the stream open and do nothing
            futures::future::pending::<()>().await;
        }
        loop {
            match stream.next().await {
                Some(Ok(s)) => i2.lock().unwrap().push(parse(&s).unwrap_or((u64::MAX, 0))),
                _ => {
                    e2.store(true, Ordering::SeqCst);
                    return;
                }
            }
        }
    });
    Ok(SubRec { reads, items, ended, task })
}

async fn shutdown_case(certs: &Path, log: &EvLog, run: u64, case: &Value) -> Result<()> {
    log.emit("case", json!({"run": run, "case": case}));
    let t_case = std::time::Instant::now();
    let mut server = start_server(certs, "127.0.0.1:0")?;
    let addr = server.addr;
    let client = connect_client(addr, certs, BackoffStrategy::constant().with_max_attempts(0)).await?;
    let topics = case["topics"].as_array().unwrap();
    let mut subs: Vec<(usize, u64, SubRec)> = vec![]; // (topic index, sub id, record)
    let mut pub_tasks = vec![];
    let sent: Arc<std::sync::Mutex<BTreeMap<(usize, u64), u64>>> = Arc::new(std::sync::Mutex::new(BTreeMap::new()));
    let stop = Arc::new(AtomicBool::new(false));
    let mut stalled = false;
    let mut rr_tasks = vec![];
    let answered = Arc::new(AtomicU64::new(0));
    for (ti, t) in topics.iter().enumerate() {
        let name = format!("/vshut{run}/topic{ti}");
        let kind = t["kind"].as_str().unwrap_or("pubsub");
        if kind == "pubsub" {
            let nsubs = t["subs"].as_u64().unwrap_or(0);
            let npubs = t["pubs"].as_u64().unwrap_or(0);
            let mode = t["traffic"].as_str().unwrap_or("none"); // none | finished | flowing
            for s in 0..nsubs {
                let reads = !(t["stall"].as_bool().unwrap_or(false) && s == 0);
                stalled |= !reads;
                subs.push((ti, s, open_sub(&client, &name, reads).await?));
            }
            // the registrations are processed before the traffic starts (markers from publisher 0)
            if nsubs > 0 && npubs > 0 {
                let mut sync = client.publisher(&name).with_encoder(StringCodec).open().await?;
                let deadline = tokio::time::Instant::now() + Duration::from_secs(10);
                let mut k = 0;
                loop {
                    k += 1;
                    sync.send(format!("P0:{k}")).await?;
                    tokio::time::sleep(Duration::from_millis(15)).await;
                    let all = subs.iter().filter(|(i, s, _)| *i == ti && !(t["stall"].as_bool().unwrap_or(false) && *s == 0)).all(|(_, _, r)| !r.items.lock().unwrap().is_empty());
                    if all {
                        break;
                    }
                    if tokio::time::Instant::now() > deadline {
                        return Err(anyhow!("subscriptions did not take effect"));
                    }
                }
                sent.lock().unwrap().insert((ti, 0), k);
                let _ = sync.finish().await;
            }
            for p in 1..=npubs {
                let mut publ = client.publisher(&name).with_encoder(StringCodec).open().await?;
                let (sent, stop) = (sent.clone(), stop.clone());
                let limit = if mode == "finished" { 20 } else if mode == "flowing" { u64::MAX } else { 0 };
                let big = t["big"].as_bool().unwrap_or(false);
                pub_tasks.push(tokio::spawn(async move {
                    let mut n = 0u64;
                    let pad = if big { "x".repeat(20_000) } else { String::new() };
                    while n < limit && !stop.load(Ordering::SeqCst) {
                        n += 1;
                        sent.lock().unwrap().insert((ti, p), n);
                        if publ.send(format!("P{p}:{n}:{pad}")).await.is_err() {
                            break;
                        }
                        if n % 16 == 0 {
                            tokio::task::yield_now().await;
                        }
                    }
                    if limit != u64::MAX {
                        let _ = publ.finish().await;
                    } else {
                        std::mem::forget(publ);
                    }
                }));
            }
        } else {
            // request/reply topic: replier and/or requestors, idle or with requests flowing
            let has_rep = t["replier"].as_bool().unwrap_or(false);
            let nreq = t["requestors"].as_u64().unwrap_or(0);
            let flowing = t["traffic"].as_str().unwrap_or("none") == "flowing";
            if has_rep {
                let mut replier = client
                    .replier(&name)
                    .with_request_decoder(StringCodec)
                    .with_reply_encoder(StringCodec)
                    .with_handler(|req: String| async move { Ok::<String, anyhow::Error>(format!("re:{req}")) })
                    .open()
                    .await?;
                rr_tasks.push(tokio::spawn(async move {
                    let _ = replier.listen().await;
                }));
            }
            for q in 0..nreq {
                let mut req = client
                    .requestor(&name)
                    .with_request_encoder(StringCodec)
                    .with_reply_decoder(StringCodec)
                    .with_request_timeout(Duration::from_millis(400))?
                    .open()
                    .await?;
                let (stop, answered) = (stop.clone(), answered.clone());
                rr_tasks.push(tokio::spawn(async move {
                    let mut n = 0;
                    while flowing && !stop.load(Ordering::SeqCst) {
                        n += 1;
                        match req.request(format!("q{q}-{n}")).await {
                            Ok(r) if r == format!("re:q{q}-{n}") => {
                                answered.fetch_add(1, Ordering::SeqCst);
                            }
                            Ok(_) => {
                                answered.fetch_add(1 << 32, Ordering::SeqCst); // a wrong reply
                            }
                            Err(_) => {
                                if !has_rep {
                                    tokio::time::sleep(Duration::from_millis(5)).await;
                                } else {
                                    break;
                                }
                            }
                        }
                    }
                    if !flowing {
                        futures::future::pending::<()>().await;
                    }
                    drop(req);
                }));
            }
        }
    }
    // a subscriber that leaves before the shutdown (its sink fails at the final flush, if at all)
    if case["leaver"].as_bool().unwrap_or(false) {
        if let Some(pos) = subs.iter().position(|(_, s, _)| *s == 1) {
            let (ti, s, r) = subs.remove(pos);
            r.task.abort();
            log.emit("left", json!({"topic": ti, "sub": s}));
        }
    }
    // registrations that arrive while the server shuts down (existing and new names)
    let late = case["late_regs"].as_u64().unwrap_or(0);
    let late_results = Arc::new(std::sync::Mutex::new(vec![]));
    let mut late_tasks = vec![];
    for i in 0..late {
        let client = client.clone();
        let name = if i % 2 == 0 { format!("/vshut{run}/topic0") } else { format!("/vshut{run}/late{i}") };
        let res = late_results.clone();
        let delay = (i * 3) % 7;
        late_tasks.push(tokio::spawn(async move {
            tokio::time::sleep(Duration::from_millis(delay)).await;
            let t0 = std::time::Instant::now();
            let r = tokio::time::timeout(Duration::from_secs(15), client.subscriber(&name).with_decoder(StringCodec).open()).await;
            let what = match &r {
                Ok(Ok(_)) => "ok",
                Ok(Err(_)) => "error",
                Err(_) => "hung",
            };
            res.lock().unwrap().push((what, t0.elapsed().as_millis() as u64));
            if let Ok(Ok(mut s)) = r {
                // a late subscriber reads like everybody else (one that did not would be a stalled peer)
                while let Some(Ok(_)) = s.next().await {}
            }
        }));
    }
    // a registration that is stuck for good: its peer has a 4-byte receive window and never reads, so the
    // server's `Ok` cannot be written and the handler keeps its clone of the topic's sender
    let mut stuck_keep = None;
    if case["stuck_reg"].as_bool().unwrap_or(false) {
        let slow = raw_connect_tiny_window(addr, certs, 4).await?;
        let mut st = raw_stream(&slow).await?;
        let t = selium_protocol::TopicName::try_from(format!("/vshut{run}/topic0").as_str())?;
        st.send(selium_protocol::Frame::RegisterSubscriber(selium_protocol::SubscriberPayload { topic: t, retention_policy: 0, operations: vec![] })).await?;
        tokio::time::sleep(Duration::from_millis(40)).await;
        log.emit("stuck_registration", json!({}));
        stuck_keep = Some((slow, st));
    }
    tokio::time::sleep(Duration::from_millis(case["settle_ms"].as_u64().unwrap_or(30))).await;

    // the signal
    log.emit("sigint", json!({"stalled": stalled, "setup_ms": t_case.elapsed().as_millis() as u64}));
    let t0 = std::time::Instant::now();
    let st = std::process::Command::new("kill").args(["-INT", &std::process::id().to_string()]).status()?;
    if !st.success() {
        return Err(anyhow!("kill -INT failed"));
    }
    let done = server.listen_done.take().unwrap();
    // (once shutdown has hung a few times although nobody was stalling, the verdicts come sooner)
    let limit = if stalled { Duration::from_secs(4) } else if HUNG.load(Ordering::SeqCst) >= 3 { Duration::from_secs(6) } else { Duration::from_secs(30) };
    let r = tokio::task::spawn_blocking(move || done.recv_timeout(limit)).await?;
    match r {
        Ok(Ok(())) => log.emit("listen_returned", json!({"ms": t0.elapsed().as_millis() as u64, "res": "ok"})),
        Ok(Err(e)) => log.emit("listen_returned", json!({"ms": t0.elapsed().as_millis() as u64, "res": format!("err: {e}")})),
        Err(_) => {
            if !stalled {
                HUNG.fetch_add(1, Ordering::SeqCst);
            }
            log.emit("listen_hung", json!({"after_ms": t0.elapsed().as_millis() as u64, "stalled": stalled}))
        }
    }
    stop.store(true, Ordering::SeqCst);
    for t in late_tasks {
        if stalled {
            t.abort();
        } else {
            let _ = tokio::time::timeout(Duration::from_secs(20), t).await;
        }
    }
    for (what, ms) in late_results.lock().unwrap().iter() {
        log.emit("late_reg", json!({"res": what, "ms": ms}));
    }
    // (a publisher whose connection is gone first waits for its reconnection attempt to time out)
    tokio::time::sleep(Duration::from_millis(20)).await;
    for t in pub_tasks {
        t.abort();
    }
    for t in rr_tasks {
        t.abort();
    }
    let a = answered.load(Ordering::SeqCst);
    log.emit("requests", json!({"answered": a & 0xffff_ffff, "wrong": a >> 32, "at_ms": t_case.elapsed().as_millis() as u64}));
    // what the subscribers got: wait for their streams to end (the connection is closed)
    for (ti, s, r) in subs.iter() {
        let deadline = std::time::Instant::now() + Duration::from_secs(5);
        while r.reads && !r.ended.load(Ordering::SeqCst) && std::time::Instant::now() < deadline && !r.task.is_finished() {
            tokio::time::sleep(Duration::from_millis(10)).await;
        }
        r.task.abort();
        let items = r.items.lock().unwrap().clone();
        let mut per: BTreeMap<u64, Vec<u64>> = BTreeMap::new();
        for (p, n) in items {
            per.entry(p).or_default().push(n);
        }
        for (p, ns) in per {
            let contiguous = ns.windows(2).all(|w| w[1] == w[0] + 1);
            let published = sent.lock().unwrap().get(&(*ti, p)).copied().unwrap_or(0);
            log.emit("sub_summary", json!({"topic": ti, "sub": s, "pub": p, "first": ns[0], "last": ns[ns.len() - 1], "count": ns.len(), "contiguous": contiguous, "published": published}));
        }
    }
    drop(stuck_keep);
    log.emit("done", json!({"ms": t_case.elapsed().as_millis() as u64}));
    server.stop();
    Ok(())
}

static HUNG: std::sync::atomic::AtomicUsize = std::sync::atomic::AtomicUsize::new(0);

pub async fn cmd_shutdown(args: Vec<String>) -> Result<()> {
    let out = arg(&args, "--out").ok_or(anyhow!("--out"))?;
    let log = EvLog::to_file(&out)?;
    let certs = PathBuf::from(format!("{}.certs-shutdown", out));
    let _ = std::fs::remove_dir_all(&certs);
    gen_certs(&certs)?;
    // the handler for the interrupt signal exists from now on (the process never dies of it)
    tokio::spawn(async {
        loop {
            let _ = tokio::signal::ctrl_c().await;
        }
    });
    tokio::time::sleep(Duration::from_millis(50)).await;
    install_observer(&log);
    let cases = read_cases(&arg(&args, "--cases").unwrap());
    for (k, c) in cases.iter().enumerate() {
        let run = k as u64 + 1;
        match tokio::time::timeout(Duration::from_secs(120), shutdown_case(&certs, &log, run, c)).await {
            Ok(Ok(())) => {}
            Ok(Err(e)) => log.emit("harness_error", json!({"err": e.to_string()})),
            Err(_) => log.emit("harness_error", json!({"err": "case did not finish within 120 s"})),
        }
    }
    selium_server::verif::set_observer(None);
    log.flush();
    let _ = std::fs::remove_dir_all(&certs);
    println!("{}", json!({"runs": cases.len(), "events": log.lines()}));
    Ok(())
}
