use anyhow::Result;
pub async fn cmd_server(_args: Vec<String>) -> Result<()> {
    Ok(())
}
pub async fn cmd_stall(_args: Vec<String>) -> Result<()> {
    Ok(())
}
pub async fn cmd_tls(_args: Vec<String>) -> Result<()> {
    Ok(())
}
pub async fn cmd_keepalive(_args: Vec<String>) -> Result<()> {
    Ok(())
}
