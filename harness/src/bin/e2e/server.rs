//! Server registration path over loopback QUIC with raw (library-bypassing) peers:
//! C11 / C07 (first frames, invalid names, pattern mismatch, mid-stream frames, topic still
//! usable), C17 (stalled topic), C15 (mutual TLS), C12 (keep-alive).
use super::*;
use selium_protocol::error_codes::*;
use selium_protocol::{
    BiStream, ErrorPayload, Frame, MessagePayload, PublisherPayload, ReplierPayload, RequestorPayload, SubscriberPayload, TopicName,
};
use std::sync::atomic::{AtomicU64, Ordering};
use std::sync::Arc;

static PANICS: AtomicU64 = AtomicU64::new(0);

fn count_panics() {
    std::panic::set_hook(Box::new(|_| {
        PANICS.fetch_add(1, Ordering::SeqCst);
    }));
}

fn install_observer(log: &EvLog) {
    let l2 = log.clone();
    selium_server::verif::set_observer(Some(Box::new(move |ev, detail| {
        if ev.starts_with("hs_") {
            let mut it = detail.split(' ');
            let id: u64 = it.next().and_then(|x| x.parse().ok()).unwrap_or(0);
            let topic = it.next().unwrap_or("").to_string();
            let kind = it.next().unwrap_or("").to_string();
            l2.emit(ev, json!({"task": id, "topic": topic, "kind": kind}));
        }
    })));
}

fn reg_frame(role: &str, topic: TopicName) -> Frame {
    match role {
        "pub" => Frame::RegisterPublisher(PublisherPayload { topic, retention_policy: 0, operations: vec![] }),
        "sub" => Frame::RegisterSubscriber(SubscriberPayload { topic, retention_policy: 0, operations: vec![] }),
        "rep" => Frame::RegisterReplier(ReplierPayload { topic }),
        _ => Frame::RegisterRequestor(RequestorPayload { topic }),
    }
}

fn other_frame(k: u64) -> Frame {
    match k % 4 {
        0 => Frame::Message(MessagePayload { headers: None, message: Bytes::from_static(b"hello") }),
        1 => Frame::BatchMessage(Bytes::from_static(b"\0\0\0\0\0\0\0\0")),
        2 => Frame::Error(ErrorPayload { code: 0, message: Bytes::from_static(b"x") }),
        _ => Frame::Ok,
    }
}

fn any_frame(k: u64, rng: &mut StdRng) -> Frame {
    match k % 9 {
        0..=3 => other_frame(k),
        4 => reg_frame("pub", TopicName::_create_unchecked("zzz", "zzz")),
        5 => reg_frame("rep", TopicName::_create_unchecked("zzz", "zzz")),
        6 => reg_frame("req", TopicName::_create_unchecked("", "")),
        7 => {
            // fits the frame limit exactly; not any more once the server adds its routing tag
            let mut body = vec![b'q'; 1024 * 1024 - 9];
            rng.fill_bytes(&mut body[..8]);
            Frame::Message(MessagePayload { headers: None, message: Bytes::from(body) })
        }
        _ => Frame::Message(MessagePayload {
            headers: Some(std::collections::HashMap::from([("cid".to_string(), "not-a-number".to_string())])),
            message: Bytes::from_static(b"forged"),
        }),
    }
}

/// The longest name (namespace + topic, in bytes) a registration frame of this role can carry: the limit is the
/// protocol's (1 MiB of payload, Framing.tla), not whatever the encoder under test accepts.  Payload: two
/// length-prefixed strings, for publishers and subscribers also the retention policy and the operations count.
fn max_name_len(role: &str) -> usize {
    1024 * 1024 - if role == "pub" || role == "sub" { 32 } else { 16 }
}

/// names the grammar refuses: the classes of TopicName.tla made concrete, among them long ones, ones
/// made of multi-byte characters (at changing byte offsets) and ones that fill the frame to its limit
/// Guard against this generator's own mistakes: a name that might be valid (both parts 3 to 64 characters of
/// letters, digits, marks, connectors or hyphens, namespace not starting with the reserved word) is never
/// offered as an invalid one.  Deliberately generous towards "valid".
fn might_be_valid(ns: &str, topic: &str) -> bool {
    let part = |p: &str| {
        let n = p.chars().count();
        (3..=64).contains(&n) && p.chars().all(|c| c.is_alphanumeric() || c == '_' || c == '-' || (!c.is_ascii() && !c.is_whitespace() && !"€𝄞".contains(c)))
    };
    part(ns) && part(topic) && !ns.to_lowercase().starts_with("selium")
}

fn invalid_name(k: u64, role: &str) -> TopicName {
    let t = invalid_name_unchecked(k, role);
    if might_be_valid(t.namespace(), t.topic()) {
        return TopicName::_create_unchecked("ab", "topic");
    }
    t
}

fn invalid_name_unchecked(k: u64, role: &str) -> TopicName {
    let v: [(&str, &str); 8] = [
        ("ab", "topic"), ("selium", "topic"), ("seliumfoo", "bar"), ("name space", "topic"), ("namespace", "t!"),
        ("namespace", ""), ("é€", "topic"), ("namespace", "x/y/z"),
    ];
    let h = k.wrapping_mul(0x9E37_79B9_7F4A_7C15) >> 20;
    match k % 13 {
        8 => TopicName::_create_unchecked(&format!("{}{}", "abc".get(..(h % 4) as usize).unwrap_or(""), "é".repeat(65 + (h % 60) as usize)), "topic"),
        9 => TopicName::_create_unchecked(&"a".repeat([65usize, 97, 300, 4096, 70_000][(h % 5) as usize]), "topic"),
        10 => {
            let l = max_name_len(role) - (h % 3) as usize;
            TopicName::_create_unchecked(&"a".repeat(l - 5), "topic")
        }
        11 => TopicName::_create_unchecked(&["€", "𝄞", "aé€𝄞"][(h % 3) as usize].repeat(22 + (h % 60) as usize), "t€"),
        12 => TopicName::_create_unchecked("namespace", &format!("{}{}", "x".repeat((h % 7) as usize), "ü".repeat(65 + (h % 60) as usize))),
        j => {
            let (a, b) = v[(j % 8) as usize];
            TopicName::_create_unchecked(a, b)
        }
    }
}

async fn first_reply(st: &mut BiStream) -> (String, u32) {
    match tokio::time::timeout(Duration::from_secs(10), st.next()).await {
        Ok(Some(Ok(Frame::Ok))) => ("ok".into(), 0),
        Ok(Some(Ok(Frame::Error(e)))) => ("error".into(), e.code),
        Ok(Some(Ok(_))) => ("other".into(), 0),
        Ok(Some(Err(_))) => ("stream_error".into(), 0),
        Ok(None) => ("closed".into(), 0),
        Err(_) => ("timeout".into(), 0),
    }
}

/// well-behaved round trip on `topic` through the client library
async fn probe(client: &Client, topic: &str, pattern: &str) -> Result<()> {
    if pattern == "pubsub" {
        let mut sub = client.subscriber(topic).with_decoder(StringCodec).open().await?;
        let mut publ = client.publisher(topic).with_encoder(StringCodec).open().await?;
        let deadline = tokio::time::Instant::now() + Duration::from_secs(10);
        loop {
            publ.send("probe".to_string()).await?;
            if let Ok(Some(Ok(s))) = tokio::time::timeout(Duration::from_millis(50), sub.next()).await {
                if s == "probe" {
                    break;
                }
            }
            if tokio::time::Instant::now() > deadline {
                return Err(anyhow!("no pub/sub delivery within 10 s"));
            }
        }
        let _ = publ.finish().await;
        Ok(())
    } else {
        // the replier slot is released asynchronously once the raw peers are gone: retry the bind
        let deadline = tokio::time::Instant::now() + Duration::from_secs(10);
        let mut replier = loop {
            let r = client
                .replier(topic)
                .with_request_decoder(StringCodec)
                .with_reply_encoder(StringCodec)
                .with_handler(|req: String| async move { Ok::<String, anyhow::Error>(format!("re:{req}")) })
                .open()
                .await;
            match r {
                Ok(r) => break r,
                Err(e) if tokio::time::Instant::now() > deadline => return Err(anyhow!("replier cannot bind: {e}")),
                Err(_) => tokio::time::sleep(Duration::from_millis(50)).await,
            }
        };
        let listen = tokio::spawn(async move {
            let _ = replier.listen().await;
        });
        let mut req = client
            .requestor(topic)
            .with_request_encoder(StringCodec)
            .with_reply_decoder(StringCodec)
            .with_request_timeout(Duration::from_millis(500))?
            .open()
            .await?;
        let mut ok = false;
        for _ in 0..20 {
            // a rejected-then-retried bind may need a moment; a timeout here is retried
            if let Ok(v) = req.request("probe".to_string()).await {
                ok = v == "re:probe";
                break;
            }
        }
        listen.abort();
        if ok {
            Ok(())
        } else {
            Err(anyhow!("no reply within 10 s"))
        }
    }
}

async fn server_case(env: &Env, client: &Client, raw: &quinn::Connection, run: u64, case: &Value, rng: &mut StdRng) -> Result<()> {
    let log = &env.log;
    let tasks = case["tasks"].as_array().unwrap();
    log.emit("case", json!({"run": run, "tasks": case["tasks"]}));
    let name = |t: &str| -> (TopicName, String) {
        let s = format!("/vsrv{}/{}", run, if t == "A" { "aaa" } else { "bbb" });
        (TopicName::try_from(s.as_str()).unwrap(), s)
    };
    let mut streams: Vec<(BiStream, String, String)> = vec![];
    let p0 = PANICS.load(Ordering::SeqCst);
    for (i, t) in tasks.iter().enumerate() {
        let fr = t["frame"].as_str().unwrap();
        let tp = t["topic"].as_str().unwrap();
        let frame = if fr == "other" {
            other_frame(run + i as u64)
        } else if tp == "invalid" {
            reg_frame(fr, invalid_name(run + i as u64, fr))
        } else {
            reg_frame(fr, name(tp).0)
        };
        let mut st = raw_stream(raw).await?;
        st.send(frame).await?;
        log.emit("open", json!({"i": i + 1, "frame": fr, "topic": if fr == "other" { "" } else { tp }}));
        let (kind, code) = first_reply(&mut st).await;
        log.emit("first_reply", json!({"i": i + 1, "frame": fr, "topic": tp, "reply": kind, "code": code}));
        if kind == "ok" {
            streams.push((st, fr.to_string(), tp.to_string()));
        }
    }
    // mid-stream: every served peer sends two frames of arbitrary kinds
    for (k, (st, fr, _)) in streams.iter_mut().enumerate() {
        if fr == "sub" {
            continue;
        }
        for j in 0..2u64 {
            let f = any_frame(rng.gen::<u64>() % 9 + 9 * (j + k as u64), rng);
            let kind = f.get_type();
            let r = st.send(f).await;
            log.emit("mid_frame", json!({"role": fr, "type": kind, "sent": r.is_ok()}));
        }
    }
    tokio::time::sleep(Duration::from_millis(30)).await;
    // which topics exist, with which pattern (the first served registration decides)
    let mut topics: Vec<(String, String)> = vec![];
    for (_, fr, tp) in &streams {
        if !topics.iter().any(|(t, _)| t == tp) {
            topics.push((tp.clone(), if fr == "pub" || fr == "sub" { "pubsub".into() } else { "reqrep".into() }));
        }
    }
    // the raw peers leave
    for (mut st, _, _) in streams {
        let _ = st.finish().await;
        drop(st);
    }
    tokio::time::sleep(Duration::from_millis(20)).await;
    for (tp, pattern) in topics {
        let r = probe(client, &name(&tp).1, &pattern).await;
        log.emit("probe", json!({"topic": tp, "pattern": pattern, "res": if r.is_ok() { "ok".to_string() } else { format!("fail: {}", r.unwrap_err()) }}));
    }
    log.emit("done", json!({"panics": PANICS.load(Ordering::SeqCst) - p0}));
    Ok(())
}

// ------------------------------------------------------------------ concurrent first registrations
/// C01 / C02 ("the" router of a topic): several peers register on a topic the server has never
/// seen, their registration frames leaving in one burst from a single-threaded runtime so that
/// the server's tasks run the lookup/creation concurrently.  Afterwards everybody who was told
/// Ok must be talking to the same router.
async fn race_round(raw: &quinn::Connection, log: &EvLog, topic: &str, pattern: &str, n: usize, r: u64) -> Result<String> {
    let tn = TopicName::try_from(topic)?;
    let lead = (r as usize) % n; // position of the publisher / replier among the stream opens
    let mut sts = vec![];
    for _ in 0..n {
        sts.push(raw_stream(raw).await?);
    }
    let roles: Vec<&str> = (0..n)
        .map(|i| match (pattern, i == lead) {
            ("pubsub", true) => "pub",
            ("pubsub", false) => "sub",
            (_, true) => "rep",
            (_, false) => "req",
        })
        .collect();
    let sends = sts.iter_mut().zip(roles.iter()).map(|(st, role)| st.send(reg_frame(role, tn.clone())));
    for x in futures::future::join_all(sends).await {
        x?;
    }
    for (i, st) in sts.iter_mut().enumerate() {
        let (kind, code) = first_reply(st).await;
        log.emit("race_reply", json!({"i": i, "role": roles[i], "reply": kind, "code": code}));
        if kind != "ok" {
            return Ok(format!("registration {i} ({}) answered {kind}", roles[i]));
        }
    }
    let mut lead_st = sts.remove(lead);
    let msg = |s: String, h: Option<std::collections::HashMap<String, String>>| Frame::Message(MessagePayload { headers: h, message: Bytes::from(s) });
    if pattern == "pubsub" {
        // markers until every subscriber has seen one (its registration has been processed) ...
        let mut seen = vec![false; sts.len()];
        let deadline = tokio::time::Instant::now() + Duration::from_secs(5);
        let mut k = 0;
        while seen.iter().any(|x| !x) {
            if tokio::time::Instant::now() > deadline {
                let missing: Vec<usize> = seen.iter().enumerate().filter(|(_, x)| !**x).map(|(i, _)| i).collect();
                return Ok(format!("subscribers {missing:?} were told Ok but receive nothing the publisher of the same topic sends"));
            }
            k += 1;
            lead_st.send(msg(format!("marker{k}"), None)).await?;
            for (i, st) in sts.iter_mut().enumerate() {
                if !seen[i] {
                    if let Ok(Some(Ok(Frame::Message(_)))) = tokio::time::timeout(Duration::from_millis(20), st.next()).await {
                        seen[i] = true;
                    }
                }
            }
        }
        // ... then three messages everybody must get
        for j in 1..=3 {
            lead_st.send(msg(format!("final{j}"), None)).await?;
        }
        for (i, st) in sts.iter_mut().enumerate() {
            let deadline = tokio::time::Instant::now() + Duration::from_secs(5);
            loop {
                match tokio::time::timeout_at(deadline, st.next()).await {
                    Ok(Some(Ok(Frame::Message(m)))) if &m.message[..] == b"final3" => break,
                    Ok(Some(Ok(_))) => {}
                    _ => return Ok(format!("subscriber {i} did not receive the last message")),
                }
            }
        }
    } else {
        // the replier echoes; every requestor asks once and must be answered
        let echo = tokio::spawn(async move {
            while let Some(Ok(f)) = lead_st.next().await {
                if let Frame::Message(m) = f {
                    let mut body = b"re:".to_vec();
                    body.extend_from_slice(&m.message);
                    if lead_st.send(Frame::Message(MessagePayload { headers: m.headers, message: Bytes::from(body) })).await.is_err() {
                        break;
                    }
                }
            }
        });
        let mut res = "ok".to_string();
        for (i, st) in sts.iter_mut().enumerate() {
            let h = std::collections::HashMap::from([("req_id".to_string(), format!("{i}"))]);
            st.send(msg(format!("q{i}"), Some(h))).await?;
            match tokio::time::timeout(Duration::from_secs(5), st.next()).await {
                Ok(Some(Ok(Frame::Message(m)))) if m.message[..] == *format!("re:q{i}").as_bytes() => {}
                other => {
                    res = format!("requestor {i} was told Ok but its request was not answered by the replier of the same topic: {:?}", other.map(|x| x.map(|y| y.map(|f| f.get_type()).map_err(|e| e.to_string()))));
                    break;
                }
            }
        }
        echo.abort();
        return Ok(res);
    }
    Ok("ok".into())
}

fn race_scenario(addr: std::net::SocketAddr, certs: PathBuf, log: EvLog, rounds: u64, seed: u64) -> Result<()> {
    let th = std::thread::spawn(move || -> Result<()> {
        let rt = tokio::runtime::Builder::new_current_thread().enable_all().build()?;
        rt.block_on(async move {
            let mut raw = raw_connect_trusted(addr, &certs).await?;
            for r in 0..rounds {
                if r % 6 == 5 {
                    raw = raw_connect_trusted(addr, &certs).await?;
                }
                let pattern = if r % 3 == 2 { "reqrep" } else { "pubsub" };
                let n = 3 + (r as usize * 5) % 7;
                let topic = format!("/vrace{}/round{}", seed % 1000, r);
                log.emit("case", json!({"run": 800_000 + r, "scenario": "race", "pattern": pattern, "peers": n, "topic": topic}));
                let res = match tokio::time::timeout(Duration::from_secs(60), race_round(&raw, &log, &topic, pattern, n, r)).await {
                    Ok(Ok(s)) => s,
                    Ok(Err(e)) => {
                        log.emit("harness_error", json!({"err": e.to_string()}));
                        raw = raw_connect_trusted(addr, &certs).await?;
                        continue;
                    }
                    Err(_) => "round did not finish within 60 s".to_string(),
                };
                log.emit("race_round", json!({"pattern": pattern, "peers": n, "res": res}));
            }
            Ok(())
        })
    });
    th.join().map_err(|_| anyhow!("race thread panicked"))?
}

// ------------------------------------------------------------------ frames pipelined behind the registration
/// C01 / C11: a peer need not wait for `Ok` before it goes on: whatever follows the registration
/// frame in the same write belongs to the stream and has to be served like anything sent later.
async fn pipeline_round(raw: &quinn::Connection, client: &Client, topic: &str, pattern: &str) -> Result<String> {
    let tn = TopicName::try_from(topic)?;
    let msg = |s: &str, h: Option<std::collections::HashMap<String, String>>| Frame::Message(MessagePayload { headers: h, message: Bytes::from(s.to_string()) });
    if pattern == "pubsub" {
        let mut sub = client.subscriber(topic).with_decoder(StringCodec).open().await?;
        let mut sync = client.publisher(topic).with_encoder(StringCodec).open().await?;
        let deadline = tokio::time::Instant::now() + Duration::from_secs(8);
        loop {
            sync.send("marker".to_string()).await?;
            if let Ok(Some(Ok(_))) = tokio::time::timeout(Duration::from_millis(40), sub.next()).await {
                break;
            }
            if tokio::time::Instant::now() > deadline {
                return Ok("subscription never took effect".into());
            }
        }
        let mut st = raw_stream(raw).await?;
        st.feed(reg_frame("pub", tn)).await?;
        st.feed(msg("p0", None)).await?;
        st.feed(msg("p1", None)).await?;
        st.flush().await?;
        let (kind, _) = first_reply(&mut st).await;
        if kind != "ok" {
            return Ok(format!("registration answered {kind}"));
        }
        st.send(msg("p2", None)).await?;
        let mut got: Vec<String> = vec![];
        let deadline = tokio::time::Instant::now() + Duration::from_secs(5);
        while got.len() < 3 {
            match tokio::time::timeout_at(deadline, sub.next()).await {
                Ok(Some(Ok(s))) if s == "marker" => {}
                Ok(Some(Ok(s))) => got.push(s),
                _ => break,
            }
        }
        let _ = st.finish().await;
        let _ = sync.finish().await;
        if got == ["p0", "p1", "p2"] {
            Ok("ok".into())
        } else {
            Ok(format!("published p0 p1 (with the registration) p2, subscriber received {got:?}"))
        }
    } else {
        let mut replier = client
            .replier(topic)
            .with_request_decoder(StringCodec)
            .with_reply_encoder(StringCodec)
            .with_handler(|req: String| async move { Ok::<String, anyhow::Error>(format!("re:{req}")) })
            .open()
            .await?;
        let listen = tokio::spawn(async move {
            let _ = replier.listen().await;
        });
        tokio::time::sleep(Duration::from_millis(50)).await;
        let mut st = raw_stream(raw).await?;
        let h = |i: u32| Some(std::collections::HashMap::from([("req_id".to_string(), i.to_string())]));
        st.feed(reg_frame("req", tn)).await?;
        st.feed(msg("q0", h(0))).await?;
        st.flush().await?;
        let (kind, _) = first_reply(&mut st).await;
        if kind != "ok" {
            listen.abort();
            return Ok(format!("registration answered {kind}"));
        }
        st.send(msg("q1", h(1))).await?;
        let mut got: Vec<String> = vec![];
        let deadline = tokio::time::Instant::now() + Duration::from_secs(5);
        while got.len() < 2 {
            match tokio::time::timeout_at(deadline, st.next()).await {
                Ok(Some(Ok(Frame::Message(m)))) => got.push(String::from_utf8_lossy(&m.message).to_string()),
                _ => break,
            }
        }
        listen.abort();
        got.sort();
        if got == ["re:q0", "re:q1"] {
            Ok("ok".into())
        } else {
            Ok(format!("asked q0 (with the registration) and q1, replies received {got:?}"))
        }
    }
}

pub async fn cmd_server(args: Vec<String>) -> Result<()> {
    count_panics();
    let env = setup(&args, "server")?;
    install_observer(&env.log);
    // Whatever makes a scenario impossible to carry on (the server closing this peer's connection, a stream
    // that cannot be opened any more) is something the server did to a peer that kept to the protocol: it is
    // recorded and judged, not a failure of the tooling.  The scenarios after it are not run.
    let runs = match server_scenarios(&env, &args).await {
        Ok(n) => n,
        Err(e) => {
            env.log.emit("harness_error", json!({"err": e.to_string().chars().take(200).collect::<String>(), "fatal": true}));
            0
        }
    };
    selium_server::verif::set_observer(None);
    env.log.flush();
    let _ = std::fs::remove_dir_all(&env.certs);
    println!("{}", json!({"runs": runs, "events": env.log.lines()}));
    Ok(())
}

async fn server_scenarios(env: &Env, args: &[String]) -> Result<usize> {
    let seed: u64 = arg(&args, "--seed").and_then(|s| s.parse().ok()).unwrap_or_else(seed_from_env);
    let cases = read_cases(&arg(&args, "--cases").unwrap());
    let mut client = connect_client(env.server.addr, &env.certs, BackoffStrategy::constant().with_max_attempts(0)).await?;
    let mut raw = raw_connect_trusted(env.server.addr, &env.certs).await?;
    for (k, c) in cases.iter().enumerate() {
        if k % 10 == 9 {
            // The server keeps the sink of a departed requestor until a write to it fails, so the
            // stream stays half-open and counts against this connection's limit of 100 concurrent
            // streams; probing from one connection for ever would eventually block in open_bi().
            client = connect_client(env.server.addr, &env.certs, BackoffStrategy::constant().with_max_attempts(0)).await?;
        }
        let run = k as u64 + 1 + (seed % 1000) * 100_000;
        let mut rng = StdRng::seed_from_u64(seed.wrapping_mul(31).wrapping_add(run));
        if k % 20 == 19 {
            // fresh connection now and then (stream ids, flow control state)
            raw = raw_connect_trusted(env.server.addr, &env.certs).await?;
        }
        // a case that does not finish is reported, never waited for: the server must answer
        match tokio::time::timeout(Duration::from_secs(90), server_case(&env, &client, &raw, run, c, &mut rng)).await {
            Ok(Ok(())) => {}
            Ok(Err(e)) => env.log.emit("harness_error", json!({"err": e.to_string()})),
            Err(_) => {
                env.log.emit("harness_error", json!({"err": "case did not finish within 90 s"}));
                raw = raw_connect_trusted(env.server.addr, &env.certs).await?;
            }
        }
    }
    // C11 / C17: a peer that is refused but does not read its stream (tiny receive window) must
    // not keep anybody else from being answered
    {
        env.log.emit("case", json!({"run": 999_998, "tasks": []}));
        let slow = raw_connect_tiny_window(env.server.addr, &env.certs, 4).await?;
        let t_ps = format!("/vslow{}/pubsub", seed % 1000);
        let t_rr = format!("/vslow{}/reqrep", seed % 1000);
        // create one topic of each pattern
        let mut keep = vec![];
        for (role, t) in [("sub", &t_ps), ("rep", &t_rr)] {
            let mut st = raw_stream(&raw).await?;
            st.send(reg_frame(role, TopicName::try_from(t.as_str())?)).await?;
            let _ = first_reply(&mut st).await;
            keep.push(st);
        }
        // refused registrations from the slow peer, never read: pattern mismatch (both ways), an
        // invalid name, a non-registration first frame
        let mut slow_streams = vec![];
        for f in [
            reg_frame("req", TopicName::try_from(t_ps.as_str())?),
            reg_frame("pub", TopicName::try_from(t_rr.as_str())?),
            reg_frame("sub", invalid_name(seed, "sub")),
            other_frame(seed),
        ] {
            let mut st = raw_stream(&slow).await?;
            st.send(f).await?;
            slow_streams.push(st);
        }
        tokio::time::sleep(Duration::from_millis(200)).await;
        let fresh = connect_client(env.server.addr, &env.certs, BackoffStrategy::constant().with_max_attempts(0)).await?;
        for (t, pattern) in [(format!("/vslow{}/other1", seed % 1000), "pubsub"), (format!("/vslow{}/other2", seed % 1000), "reqrep")] {
            let t0 = std::time::Instant::now();
            let r = tokio::time::timeout(Duration::from_secs(20), probe(&fresh, &t, pattern)).await;
            let res = match r {
                Ok(Ok(())) => "ok".to_string(),
                Ok(Err(e)) => format!("fail: {e}"),
                Err(_) => "timeout_20s".to_string(),
            };
            env.log.emit("slow_refused_peer_probe", json!({"res": res, "ms": t0.elapsed().as_millis() as u64}));
        }
        drop(slow_streams);
        drop(keep);
    }
    // C07 / C01: two different names never share traffic
    env.log.emit("case", json!({"run": 999_999, "tasks": []}));
    let pairs: Vec<(String, String)> = vec![
        ("/isoaaa/topic".into(), "/isoaab/topic".into()),
        ("/isoaaa/Topic".into(), "/isoaaa/topic2".into()),
        ("/alpha/beta".into(), "/beta/alpha".into()),
        ("/iso-a/b_c".into(), "/iso_a/b-c".into()),
        ("/ISOAAA/topic".into(), "/isoaaa/topiC".into()),
        ("/abc/abcd".into(), "/abcd/abc".into()),
        // names that coincide once namespace and topic are joined (with a character that is legal inside
        // either part, or with nothing at all): the pair of strings is the key, not any concatenation
        ("/abc_def/ghi".into(), "/abc/def_ghi".into()),
        ("/abc-def/ghi".into(), "/abc/def-ghi".into()),
        ("/abcd/efg".into(), "/abc/defg".into()),
        ("/a_b_c/ddd".into(), "/a_b/c_ddd".into()),
        // word characters beyond ASCII are legal: names that differ only by Unicode normalisation, width or
        // locale-dependent case mapping are different names
        ("/caf\u{e9}/topic".into(), "/cafe\u{301}/topic".into()),
        ("/\u{ff21}\u{ff22}\u{ff23}/topic".into(), "/ABC/topic".into()),
        ("/\u{131}s\u{131}/stra\u{df}e".into(), "/isi/strasse".into()),
    ];
    for (i, (x, y)) in pairs.iter().enumerate() {
        let r = isolation(&client, x, y, seed + i as u64).await;
        env.log.emit("iso", json!({"a": x, "b": y, "res": match &r { Ok(s) => s.clone(), Err(e) => format!("error: {e}") }}));
    }
    // C11 / C17: a server that has been up for a while.  More than a thousand connections come and go, each
    // registering on a topic or two out of forty; every one of those stream opens must be answered like the
    // first, and afterwards the server serves fresh topics as before (whatever it counts per connection,
    // per stream or per topic must not add up to a refusal or a stall).
    {
        env.log.emit("case", json!({"run": 999_997, "tasks": []}));
        let n_conn: usize = arg(&args, "--longlife").and_then(|s| s.parse().ok()).unwrap_or(1200);
        let (addr, certs) = (env.server.addr, env.certs.clone());
        let t0 = std::time::Instant::now();
        let mut workers = vec![];
        for w in 0..8usize {
            let certs = certs.clone();
            workers.push(tokio::spawn(async move {
                let (mut connect_failed, mut not_ok, mut detail) = (0u64, 0u64, String::new());
                let mut i = w;
                while i < n_conn {
                    match tokio::time::timeout(Duration::from_secs(10), raw_connect_trusted(addr, &certs)).await {
                        Ok(Ok(conn)) => {
                            for (role, t) in [("sub", format!("/vlong{}/top{}", seed % 1000, i % 40)), ("req", format!("/vlong{}/rpc{}", seed % 1000, i % 40))] {
                                let r = async {
                                    let mut st = raw_stream(&conn).await?;
                                    st.send(reg_frame(role, TopicName::try_from(t.as_str())?)).await?;
                                    Ok::<_, anyhow::Error>(first_reply(&mut st).await.0)
                                };
                                let kind = match tokio::time::timeout(Duration::from_secs(10), r).await {
                                    Ok(Ok(k)) => k,
                                    Ok(Err(e)) => format!("error: {e}"),
                                    Err(_) => "timeout".to_string(),
                                };
                                if kind != "ok" {
                                    not_ok += 1;
                                    if detail.is_empty() {
                                        detail = format!("connection {i} {role}: {kind}");
                                    }
                                }
                                if i % 3 == 0 {
                                    break;
                                }
                            }
                            conn.close(0u32.into(), b"bye");
                        }
                        Ok(Err(e)) => {
                            connect_failed += 1;
                            if detail.is_empty() {
                                detail = format!("connection {i}: {e}");
                            }
                        }
                        Err(_) => {
                            connect_failed += 1;
                            if detail.is_empty() {
                                detail = format!("connection {i}: connect timeout");
                            }
                        }
                    }
                    if connect_failed + not_ok > 20 {
                        break;
                    }
                    i += 8;
                }
                (connect_failed, not_ok, detail)
            }));
        }
        let (mut cf, mut no, mut detail) = (0u64, 0u64, String::new());
        for h in workers {
            let (a, b, d) = h.await?;
            cf += a;
            no += b;
            if detail.is_empty() {
                detail = d;
            }
        }
        env.log.emit("longlife", json!({"connections": n_conn, "connect_failed": cf, "not_ok": no,
            "detail": detail.chars().take(120).collect::<String>(), "ms": t0.elapsed().as_millis() as u64}));
        let fresh = connect_client(env.server.addr, &env.certs, BackoffStrategy::constant().with_max_attempts(0)).await?;
        for (tp, pattern) in [(format!("/vlong{}/after-ps", seed % 1000), "pubsub"), (format!("/vlong{}/after-rr", seed % 1000), "reqrep")] {
            let r = tokio::time::timeout(Duration::from_secs(20), probe(&fresh, &tp, pattern)).await;
            env.log.emit("probe", json!({"topic": "after_long_life", "pattern": pattern, "res": match r {
                Ok(Ok(())) => "ok".to_string(), Ok(Err(e)) => format!("fail: {e}"), Err(_) => "fail: timeout".to_string() }}));
        }
    }
    // C01 / C02: concurrent first registrations on fresh topics
    let rounds: u64 = arg(&args, "--race").and_then(|s| s.parse().ok()).unwrap_or(60);
    {
        let (addr, certs, log) = (env.server.addr, env.certs.clone(), env.log.clone());
        tokio::task::spawn_blocking(move || race_scenario(addr, certs, log, rounds, seed)).await??;
    }
    // C01 / C11: frames pipelined behind the registration frame
    for (i, pattern) in ["pubsub", "reqrep", "pubsub", "reqrep"].iter().enumerate() {
        env.log.emit("case", json!({"run": 700_000 + i as u64, "scenario": "pipeline", "pattern": pattern}));
        let topic = format!("/vpipe{}/round{}", seed % 1000, i);
        let res = match tokio::time::timeout(Duration::from_secs(40), pipeline_round(&raw, &client, &topic, pattern)).await {
            Ok(Ok(s)) => s,
            Ok(Err(e)) => {
                env.log.emit("harness_error", json!({"err": e.to_string()}));
                continue;
            }
            Err(_) => "round did not finish within 40 s".to_string(),
        };
        env.log.emit("pipeline_round", json!({"pattern": pattern, "res": res}));
    }
    Ok(cases.len() + rounds as usize + 4)
}

/// publish distinguishable payloads on two different names concurrently; every subscriber must see
/// exactly its own topic's messages
async fn isolation(client: &Client, a: &str, b: &str, salt: u64) -> Result<String> {
    let mut subs = vec![];
    for t in [a, b] {
        subs.push(client.subscriber(t).with_decoder(StringCodec).open().await?);
    }
    let mut pubs = vec![];
    for t in [a, b] {
        pubs.push(client.publisher(t).with_encoder(StringCodec).open().await?);
    }
    // sync each subscription, then 20 numbered messages per topic, interleaved
    let n = 20;
    for (k, t) in [a, b].iter().enumerate() {
        let deadline = tokio::time::Instant::now() + Duration::from_secs(10);
        loop {
            pubs[k].send(format!("{t}|sync|{salt}")).await?;
            if let Ok(Some(Ok(_))) = tokio::time::timeout(Duration::from_millis(30), subs[k].next()).await {
                break;
            }
            if tokio::time::Instant::now() > deadline {
                return Ok("missing".into());
            }
        }
    }
    for i in 0..n {
        for (k, t) in [a, b].iter().enumerate() {
            pubs[k].send(format!("{t}|msg|{i}")).await?;
        }
    }
    for (k, t) in [a, b].iter().enumerate() {
        let mut got = 0;
        while got < n {
            match tokio::time::timeout(Duration::from_secs(5), subs[k].next()).await {
                Ok(Some(Ok(s))) => {
                    let mut it = s.split('|');
                    if it.next() != Some(t) {
                        return Ok(format!("leak: subscriber of {t} received {s}"));
                    }
                    if it.next() == Some("msg") {
                        got += 1;
                    }
                }
                _ => return Ok("missing".into()),
            }
        }
    }
    Ok("ok".into())
}

// ------------------------------------------------------------------ C17 stalled topic
pub async fn cmd_stall(args: Vec<String>) -> Result<()> {
    count_panics();
    let env = setup(&args, "stall")?;
    install_observer(&env.log);
    let log = env.log.clone();
    let nreg: usize = arg(&args, "--regs").and_then(|s| s.parse().ok()).unwrap_or(150);
    let orders: Vec<&str> = vec!["stall_first", "regs_first"];
    for (run, order) in orders.iter().enumerate() {
        let run = run as u64 + 1;
        log.emit("case", json!({"run": run, "order": order, "regs": nreg}));
        let topic_a = format!("/vstall{run}/aaa");
        let topic_b = format!("/vstall{run}/bbb");
        let client = connect_client(env.server.addr, &env.certs, BackoffStrategy::constant().with_max_attempts(0)).await?;
        // a subscriber on A that never reads (raw stream: nothing polls it)
        let raw = raw_connect_trusted(env.server.addr, &env.certs).await?;
        let mut dead_sub = raw_stream(&raw).await?;
        dead_sub.send(reg_frame("sub", TopicName::try_from(topic_a.as_str())?)).await?;
        let _ = first_reply(&mut dead_sub).await;
        let flood = |n: usize| {
            let client = client.clone();
            let topic_a = topic_a.clone();
            let log = log.clone();
            async move {
                // big messages until a send stalls on flow control: the router is then blocked in
                // poll_ready of the dead subscriber's sink and no longer drains its channel
                let mut publ = client.publisher(&topic_a).with_encoder(BytesCodec).open().await?;
                let mut sent = 0;
                for _ in 0..n {
                    match tokio::time::timeout(Duration::from_secs(2), publ.send(vec![7u8; 900_000])).await {
                        Ok(Ok(())) => sent += 1,
                        _ => break,
                    }
                }
                log.emit("flood", json!({"sent": sent}));
                // keep the publisher alive for the rest of the case
                Ok::<_, anyhow::Error>(publ)
            }
        };
        let regs = |n: usize| {
            let certs = env.certs.clone();
            let addr = env.server.addr;
            let topic_a = topic_a.clone();
            let log = log.clone();
            async move {
                // quinn caps a connection at 100 concurrent bidirectional streams: spread them
                let mut keep = vec![];
                let mut opened = 0;
                let per = 60;
                let mut left = n;
                while left > 0 {
                    let conn = raw_connect_trusted(addr, &certs).await?;
                    for _ in 0..per.min(left) {
                        let mut st = raw_stream(&conn).await?;
                        st.send(reg_frame("sub", TopicName::try_from(topic_a.as_str())?)).await?;
                        // the answer may never come once the server is wedged: do not wait long
                        let (r, _) = match tokio::time::timeout(Duration::from_millis(300), first_reply(&mut st)).await {
                            Ok(x) => x,
                            Err(_) => ("timeout".to_string(), 0),
                        };
                        if r == "ok" {
                            opened += 1;
                        }
                        keep.push(st);
                    }
                    left -= per.min(left);
                    // the connection that carries these (possibly unanswerable) registrations must still be
                    // able to register on another topic
                    let mut other = raw_stream(&conn).await?;
                    other.send(reg_frame("sub", TopicName::try_from(format!("{topic_a}-other").as_str())?)).await?;
                    let r = match tokio::time::timeout(Duration::from_secs(8), first_reply(&mut other)).await {
                        Ok((r, _)) => r,
                        Err(_) => "no_answer_8s".to_string(),
                    };
                    log.emit("other_topic_roundtrip", json!({"res": if r == "ok" { "ok".to_string() } else { format!("registration on another topic answered: {r}") },
                        "who": "connection_with_queued_registrations", "ms": 0}));
                    keep.push(other);
                }
                log.emit("queued_registrations", json!({"attempted": n, "answered_ok": opened}));
                Ok::<_, anyhow::Error>(keep)
            }
        };
        let (_p, _k);
        if *order == "stall_first" {
            _p = flood(12).await?;
            _k = regs(nreg).await?;
        } else {
            _k = regs(nreg / 2).await?;
            _p = flood(12).await?;
            let _k2 = regs(nreg - nreg / 2).await?;
            std::mem::forget(_k2);
        }
        // now a different topic must still work
        let client_b = connect_client(env.server.addr, &env.certs, BackoffStrategy::constant().with_max_attempts(0)).await?;
        let t = std::time::Instant::now();
        let r = tokio::time::timeout(Duration::from_secs(30), probe(&client_b, &topic_b, "pubsub")).await;
        let res = match r {
            Ok(Ok(())) => "ok".to_string(),
            Ok(Err(e)) => format!("fail: {e}"),
            Err(_) => "timeout_30s".to_string(),
        };
        log.emit("other_topic_roundtrip", json!({"res": res, "ms": t.elapsed().as_millis() as u64}));
        let r2 = tokio::time::timeout(Duration::from_secs(30), probe(&client_b, &format!("/vstall{run}/ccc"), "reqrep")).await;
        let res2 = match r2 {
            Ok(Ok(())) => "ok".to_string(),
            Ok(Err(e)) => format!("fail: {e}"),
            Err(_) => "timeout_30s".to_string(),
        };
        log.emit("other_topic_roundtrip", json!({"res": res2, "ms": t.elapsed().as_millis() as u64}));
        // ... also for the client whose own publisher is stuck behind the stalled topic: its
        // connection carries other topics too
        let t3 = std::time::Instant::now();
        let r3 = tokio::time::timeout(Duration::from_secs(30), probe(&client, &format!("/vstall{run}/ddd"), "pubsub")).await;
        let res3 = match r3 {
            Ok(Ok(())) => "ok".to_string(),
            Ok(Err(e)) => format!("fail: {e}"),
            Err(_) => "timeout_30s".to_string(),
        };
        log.emit("other_topic_roundtrip", json!({"res": res3, "ms": t3.elapsed().as_millis() as u64, "who": "connection_of_the_blocked_publisher"}));
        // ... and for a client of the library that turns up now, while the stalled topic's registration queue is
        // full: it opens a publisher and a subscriber on the stalled topic (each in a task of its own; the
        // server acknowledges a registration before it queues it, so both come back) and then uses another
        // topic through the same Client object -- what is parked behind the stalled topic on the server's
        // side must not park the client's other streams
        let client_c = connect_client(env.server.addr, &env.certs, BackoffStrategy::constant().with_max_attempts(0)).await?;
        let mut late = vec![];
        for role in ["pub", "sub"] {
            let (c, t) = (client_c.clone(), topic_a.clone());
            late.push((role, tokio::spawn(async move {
                if role == "pub" {
                    c.publisher(&t).with_encoder(BytesCodec).open().await.map(|p| std::mem::forget(p)).map_err(|e| e.to_string())
                } else {
                    c.subscriber(&t).with_decoder(BytesCodec).open().await.map(|s| std::mem::forget(s)).map_err(|e| e.to_string())
                }
            })));
        }
        tokio::time::sleep(Duration::from_millis(300)).await;
        let t4 = std::time::Instant::now();
        let r4 = tokio::time::timeout(Duration::from_secs(30), probe(&client_c, &format!("/vstall{run}/eee"), "pubsub")).await;
        let res4 = match r4 {
            Ok(Ok(())) => "ok".to_string(),
            Ok(Err(e)) => format!("fail: {e}"),
            Err(_) => "timeout_30s".to_string(),
        };
        log.emit("other_topic_roundtrip", json!({"res": res4, "ms": t4.elapsed().as_millis() as u64, "who": "client_with_late_streams_on_the_stalled_topic"}));
        for (role, h) in late {
            let r = match tokio::time::timeout(Duration::from_secs(5), h).await {
                Ok(Ok(Ok(()))) => "ok".to_string(),
                Ok(Ok(Err(e))) => format!("refused: {e}"),
                Ok(Err(_)) => "task failed".to_string(),
                Err(_) => "not_answered".to_string(),
            };
            log.emit("late_registration", json!({"role": role, "res": r}));
        }
        log.emit("done", json!({"panics": PANICS.load(Ordering::SeqCst)}));
        drop(dead_sub);
    }
    // the same for a stalled request/reply topic: a bound replier that never reads, a requestor
    // flooding it, then requestor and replier registrations queueing up behind the blocked router
    {
        let run = 3u64;
        log.emit("case", json!({"run": run, "order": "reqrep_stall", "regs": nreg}));
        let topic_a = format!("/vstall{run}/aaa");
        let client = connect_client(env.server.addr, &env.certs, BackoffStrategy::constant().with_max_attempts(0)).await?;
        let raw = raw_connect_trusted(env.server.addr, &env.certs).await?;
        let mut dead_rep = raw_stream(&raw).await?;
        dead_rep.send(reg_frame("rep", TopicName::try_from(topic_a.as_str())?)).await?;
        let _ = first_reply(&mut dead_rep).await;
        let mut req = client
            .requestor(&topic_a)
            .with_request_encoder(BytesCodec)
            .with_reply_decoder(BytesCodec)
            .with_request_timeout(Duration::from_millis(100))?
            .open()
            .await?;
        let mut sent = 0;
        for _ in 0..12 {
            match tokio::time::timeout(Duration::from_secs(2), req.request(vec![9u8; 900_000])).await {
                Ok(_) => sent += 1,
                Err(_) => break,
            }
        }
        log.emit("flood", json!({"sent": sent}));
        let mut keep = vec![];
        let mut answered = 0;
        let mut left = nreg;
        let mut k = 0;
        while left > 0 {
            let conn = raw_connect_trusted(env.server.addr, &env.certs).await?;
            for _ in 0..60.min(left) {
                k += 1;
                let mut st = raw_stream(&conn).await?;
                st.send(reg_frame(if k % 2 == 0 { "rep" } else { "req" }, TopicName::try_from(topic_a.as_str())?)).await?;
                if let Ok((r, _)) = tokio::time::timeout(Duration::from_millis(300), first_reply(&mut st)).await {
                    if r == "ok" {
                        answered += 1;
                    }
                }
                keep.push(st);
            }
            left -= 60.min(left);
            keep.push(raw_stream(&conn).await?);
        }
        log.emit("queued_registrations", json!({"attempted": nreg, "answered_ok": answered}));
        let client_b = connect_client(env.server.addr, &env.certs, BackoffStrategy::constant().with_max_attempts(0)).await?;
        for (t, pattern) in [(format!("/vstall{run}/bbb"), "pubsub"), (format!("/vstall{run}/ccc"), "reqrep")] {
            let t0 = std::time::Instant::now();
            let r = tokio::time::timeout(Duration::from_secs(30), probe(&client_b, &t, pattern)).await;
            let res = match r {
                Ok(Ok(())) => "ok".to_string(),
                Ok(Err(e)) => format!("fail: {e}"),
                Err(_) => "timeout_30s".to_string(),
            };
            log.emit("other_topic_roundtrip", json!({"res": res, "ms": t0.elapsed().as_millis() as u64}));
        }
        let t3 = std::time::Instant::now();
        let r3 = tokio::time::timeout(Duration::from_secs(30), probe(&client, &format!("/vstall{run}/ddd"), "reqrep")).await;
        let res3 = match r3 {
            Ok(Ok(())) => "ok".to_string(),
            Ok(Err(e)) => format!("fail: {e}"),
            Err(_) => "timeout_30s".to_string(),
        };
        log.emit("other_topic_roundtrip", json!({"res": res3, "ms": t3.elapsed().as_millis() as u64, "who": "connection_of_the_blocked_requestor"}));
        log.emit("done", json!({"panics": PANICS.load(Ordering::SeqCst)}));
        drop(dead_rep);
        std::mem::forget(keep);
    }
    // several topics stalled at the same time (each with a subscriber that never reads and a publisher that has
    // filled every window): whatever the stalled routers hold on to, the healthy topics have their own
    {
        let run = 4u64;
        let n_stalled = 6;
        log.emit("case", json!({"run": run, "order": "many_stalled_topics", "regs": n_stalled}));
        let mut keep_alive: Vec<Box<dyn std::any::Any + Send>> = vec![];
        for t in 0..n_stalled {
            let topic = format!("/vstall{run}/stalled{t}");
            let raw = raw_connect_trusted(env.server.addr, &env.certs).await?;
            let mut dead_sub = raw_stream(&raw).await?;
            dead_sub.send(reg_frame("sub", TopicName::try_from(topic.as_str())?)).await?;
            let _ = first_reply(&mut dead_sub).await;
            let client = connect_client(env.server.addr, &env.certs, BackoffStrategy::constant().with_max_attempts(0)).await?;
            let mut publ = client.publisher(&topic).with_encoder(BytesCodec).open().await?;
            let mut sent = 0;
            for _ in 0..12 {
                match tokio::time::timeout(Duration::from_millis(1_500), publ.send(vec![7u8; 900_000])).await {
                    Ok(Ok(())) => sent += 1,
                    _ => break,
                }
            }
            log.emit("flood", json!({"sent": sent, "topic": t}));
            keep_alive.push(Box::new((raw, dead_sub, client, publ)));
        }
        let client_b = connect_client(env.server.addr, &env.certs, BackoffStrategy::constant().with_max_attempts(0)).await?;
        for (i, pattern) in ["pubsub", "reqrep", "pubsub"].iter().enumerate() {
            let t0 = std::time::Instant::now();
            let r = tokio::time::timeout(Duration::from_secs(30), probe(&client_b, &format!("/vstall{run}/healthy{i}"), pattern)).await;
            let res = match r {
                Ok(Ok(())) => "ok".to_string(),
                Ok(Err(e)) => format!("fail: {e}"),
                Err(_) => "timeout_30s".to_string(),
            };
            log.emit("other_topic_roundtrip", json!({"res": res, "ms": t0.elapsed().as_millis() as u64, "who": "fresh_client_while_several_topics_are_stalled"}));
        }
        log.emit("done", json!({"panics": PANICS.load(Ordering::SeqCst)}));
        std::mem::forget(keep_alive);
    }
    selium_server::verif::set_observer(None);
    env.log.flush();
    let _ = std::fs::remove_dir_all(&env.certs);
    println!("{}", json!({"runs": 4, "events": env.log.lines()}));
    Ok(())
}

// ------------------------------------------------------------------ C15 mutual TLS
pub async fn cmd_tls(args: Vec<String>) -> Result<()> {
    let out = arg(&args, "--out").ok_or(anyhow!("--out"))?;
    let log = EvLog::to_file(&out)?;
    let mut cases = read_cases(&arg(&args, "--cases").unwrap());
    // clients configured with CA T first: a client configured later with CA O (same certificate)
    // must not inherit anything from them
    cases.sort_by_key(|c| (c["trust"].as_str().unwrap_or("T") != "T", c["via"].as_str().unwrap_or("") != "library"));
    // ... and then everything once more in the opposite order: the decision for a pairing must not
    // depend on which pairings were accepted or refused before it in the same process (session
    // caches, remembered configurations)
    let mut again = cases.clone();
    again.reverse();
    cases.extend(again);
    // two independent certificate sets from the bundled generator (fresh keys every run)
    let set1 = PathBuf::from(format!("{out}.certs-a"));
    let set2 = PathBuf::from(format!("{out}.certs-b"));
    // The directories are not fresh when the final sets are written: a developer regenerates the set in
    // place when it has expired, with or without an expiry date.  Set 1 replaces a no-expiry set (whose
    // files are a few bytes longer), set 2 is the third default set in its directory.
    for (d, history) in [(&set1, [true, false, false]), (&set2, [false, false, false])] {
        let _ = std::fs::remove_dir_all(d);
        for (n, no_expiry) in history.iter().enumerate() {
            if d == &set1 && n == 2 {
                break;
            }
            gen_certs_opts(d, *no_expiry)?;
        }
        // DER files are binary: any byte may come last, also one that would be white space in a text file
        // (the last byte of a certificate is part of its signature, the last byte of a key file part of
        // the public point -- random for fresh keys).  Keep regenerating, in place, until one file on
        // the server's side (set 1) / the client's side (set 2) ends in such a byte.
        let side = if d == &set1 { "server" } else { "client" };
        let ends_in_ws = |dir: &PathBuf| -> Vec<String> {
            ["ca.der", "localhost.der", "localhost.key.der"]
                .iter()
                .filter(|f| std::fs::read(dir.join(side).join(f)).ok().and_then(|b| b.last().copied()).map(|b| [0x09u8, 0x0a, 0x0b, 0x0c, 0x0d, 0x20].contains(&b)).unwrap_or(false))
                .map(|f| f.to_string())
                .collect()
        };
        let mut tries = 0;
        while ends_in_ws(d).is_empty() && tries < 400 {
            gen_certs_opts(d, false)?;
            tries += 1;
        }
        log.emit("certs", json!({"dir": d.file_name().map(|f| f.to_string_lossy().to_string()), "regenerated_in_place": true,
            "further_regenerations": tries, "side": side, "files_ending_in_a_whitespace_byte": ends_in_ws(d)}));
    }
    // a self-signed client certificate
    let ss = rcgen::generate_simple_self_signed(vec!["localhost".to_string()])?;
    let ss_dir = PathBuf::from(format!("{out}.certs-ss"));
    std::fs::create_dir_all(ss_dir.join("client"))?;
    std::fs::write(ss_dir.join("client/localhost.der"), ss.serialize_der()?)?;
    std::fs::write(ss_dir.join("client/localhost.key.der"), ss.serialize_private_key_der())?;
    // servers whose certificate comes from one set and which accept clients of the other
    let mix = |cert_from: &PathBuf, accepts: &PathBuf, name: &str| -> Result<PathBuf> {
        let d = PathBuf::from(format!("{out}.certs-{name}"));
        std::fs::create_dir_all(d.join("server"))?;
        std::fs::copy(cert_from.join("server/localhost.der"), d.join("server/localhost.der"))?;
        std::fs::copy(cert_from.join("server/localhost.key.der"), d.join("server/localhost.key.der"))?;
        std::fs::copy(accepts.join("server/ca.der"), d.join("server/ca.der"))?;
        Ok(d)
    };
    let mix_ot = mix(&set2, &set1, "mix-ot")?;
    let mix_to = mix(&set1, &set2, "mix-to")?;
    // identity files holding the own certificate followed by the other set's CA certificate (PEM)
    let pem = |ders: &[Vec<u8>]| -> String {
        const T: &[u8; 64] = b"ABCDEFGHIJKLMNOPQRSTUVWXYZabcdefghijklmnopqrstuvwxyz0123456789+/";
        let mut out = String::new();
        for der in ders {
            let mut b64 = String::new();
            for ch in der.chunks(3) {
                let n = (ch[0] as u32) << 16 | (*ch.get(1).unwrap_or(&0) as u32) << 8 | *ch.get(2).unwrap_or(&0) as u32;
                b64.push(T[(n >> 18) as usize & 63] as char);
                b64.push(T[(n >> 12) as usize & 63] as char);
                b64.push(if ch.len() > 1 { T[(n >> 6) as usize & 63] as char } else { '=' });
                b64.push(if ch.len() > 2 { T[n as usize & 63] as char } else { '=' });
            }
            out.push_str("-----BEGIN CERTIFICATE-----\n");
            for line in b64.as_bytes().chunks(64) {
                out.push_str(std::str::from_utf8(line).unwrap());
                out.push('\n');
            }
            out.push_str("-----END CERTIFICATE-----\n");
        }
        out
    };
    let chain_dir = PathBuf::from(format!("{out}.certs-chains"));
    std::fs::create_dir_all(&chain_dir)?;
    std::fs::write(chain_dir.join("chain_T_with_caO.pem"), pem(&[read_der(set1.join("client/localhost.der"))?, read_der(set2.join("client/ca.der"))?]))?;
    std::fs::write(chain_dir.join("chain_O_with_caT.pem"), pem(&[read_der(set2.join("client/localhost.der"))?, read_der(set1.join("client/ca.der"))?]))?;
    // the set "trusted" refers to is set 1 (T); set 2 is O
    // a server that cannot start with files the bundled generator wrote is an outcome, not a harness
    // failure: its pairings are then attempted against a dead port and judged like any other
    let mut servers = vec![];
    for (name, dir) in [("trusted", &set1), ("other_ca", &set2), ("cert_O_accepts_T", &mix_ot), ("cert_T_accepts_O", &mix_to)] {
        match start_server(dir, "127.0.0.1:0") {
            Ok(h) => {
                log.emit("server_start", json!({"server": name, "ok": true, "detail": ""}));
                servers.push((name, h));
            }
            Err(e) => {
                log.emit("server_start", json!({"server": name, "ok": false, "detail": e.to_string().chars().take(120).collect::<String>()}));
                servers.push((name, ServerHandle::placeholder("127.0.0.1:9".parse()?)));
            }
        }
    }
    let ca1 = read_der(set1.join("client/ca.der"))?;
    let ca2 = read_der(set2.join("client/ca.der"))?;
    let mut k = 0u64;
    let mut timeouts = 0u32;
    for c in &cases {
        k += 1;
        let cid = c["client"].as_str().unwrap();
        let sid = c["server"].as_str().unwrap();
        let via = c["via"].as_str().unwrap();
        let trust = c["trust"].as_str().unwrap_or("T");
        let (ca, ca_set) = if trust == "T" { (&ca1, &set1) } else { (&ca2, &set2) };
        let addr = servers.iter().find(|(n, _)| *n == sid).unwrap().1.addr;
        let ident_dir = match cid {
            "trusted" | "chain_T_with_caO" | "stolen_cert_O" => Some(set1.clone()),
            "other_ca" | "chain_O_with_caT" | "stolen_cert_T" => Some(set2.clone()),
            "self_signed" => Some(ss_dir.clone()),
            _ => None,
        };
        let topic = format!("/vtls/case{k}");
        // a server that has stopped answering handshakes makes every attempt run into its time limit: after a
        // few of those the limit is shortened (the verdicts are the same, they just come sooner)
        let patience = Duration::from_secs(if timeouts >= 6 { 2 } else { 10 });
        let (connected, registered, detail) = if addr.port() == 9 {
            // this server could not be started (recorded above): nobody can talk to it
            (false, false, "server is not running".to_string())
        } else if via == "raw" {
            let trusted_public = read_der(set1.join("client/localhost.der"))?;
            let ident = match (cid, &ident_dir) {
                ("borrowed_chain_self", _) => Some((vec![read_der(ss_dir.join("client/localhost.der"))?, trusted_public], read_der(ss_dir.join("client/localhost.key.der"))?)),
                ("borrowed_chain_other", _) => Some((vec![read_der(set2.join("client/localhost.der"))?, trusted_public], read_der(set2.join("client/localhost.key.der"))?)),
                // somebody else's certificate with a key of one's own (the identity directory supplies the key)
                ("stolen_cert_T", Some(d)) => Some((vec![read_der(set1.join("client/localhost.der"))?], read_der(d.join("client/localhost.key.der"))?)),
                ("stolen_cert_O", Some(d)) => Some((vec![read_der(set2.join("client/localhost.der"))?], read_der(d.join("client/localhost.key.der"))?)),
                ("chain_T_with_caO", _) => Some((vec![read_der(set1.join("client/localhost.der"))?, read_der(set2.join("client/ca.der"))?], read_der(set1.join("client/localhost.key.der"))?)),
                ("chain_O_with_caT", _) => Some((vec![read_der(set2.join("client/localhost.der"))?, read_der(set1.join("client/ca.der"))?], read_der(set2.join("client/localhost.key.der"))?)),
                (_, Some(d)) => Some((vec![read_der(d.join("client/localhost.der"))?], read_der(d.join("client/localhost.key.der"))?)),
                _ => None,
            };
            match tokio::time::timeout(patience, raw_connect_chain(addr, ca, ident)).await {
                Ok(Ok(conn)) => {
                    // with TLS 1.3 the client may consider the handshake done before the server has
                    // judged its certificate: the registration decides
                    let r = async {
                        let mut st = raw_stream(&conn).await?;
                        st.send(reg_frame("sub", TopicName::try_from(topic.as_str())?)).await?;
                        Ok::<_, anyhow::Error>(first_reply(&mut st).await)
                    }
                    .await;
                    match r {
                        Ok((kind, _)) => (true, kind == "ok", kind),
                        Err(e) => (true, false, format!("refused: {e}")),
                    }
                }
                Ok(Err(e)) => (false, false, format!("connect refused: {e}")),
                Err(_) => (false, false, "connect timeout".to_string()),
            }
        } else {
            // through the client library: CA of set 1, identity files of the chosen set
            let d = ident_dir.clone().unwrap();
            let r = async {
                let client = selium::custom()
                    .keep_alive(5_000u64)?
                    .backoff_strategy(BackoffStrategy::constant().with_max_attempts(0))
                    .endpoint(&addr.to_string())
                    .with_certificate_authority(ca_set.join("client/ca.der"))?
                    .with_cert_and_key(
                        if cid.starts_with("chain_") {
                            chain_dir.join(format!("{cid}.pem"))
                        } else if cid == "stolen_cert_T" {
                            set1.join("client/localhost.der")
                        } else if cid == "stolen_cert_O" {
                            set2.join("client/localhost.der")
                        } else {
                            d.join("client/localhost.der")
                        },
                        d.join("client/localhost.key.der"),
                    )?
                    .connect()
                    .await?;
                let sub = client.subscriber(&topic).with_decoder(StringCodec).open().await?;
                drop(sub);
                Ok::<_, anyhow::Error>(())
            };
            match tokio::time::timeout(patience, r).await {
                Ok(Ok(())) => (true, true, "ok".to_string()),
                Ok(Err(e)) => (false, false, format!("refused: {e}")),
                Err(_) => (false, false, "timeout".to_string()),
            }
        };
        if detail.contains("timeout") {
            timeouts += 1;
        }
        log.emit("tls", json!({"case": k, "client": cid, "server": sid, "trust": trust, "via": via, "connected": connected,
            "registered": registered, "detail": detail.chars().take(100).collect::<String>()}));
    }
    log.flush();
    for d in [&set1, &set2, &ss_dir, &mix_ot, &mix_to, &chain_dir] {
        let _ = std::fs::remove_dir_all(d);
    }
    println!("{}", json!({"runs": cases.len(), "events": log.lines()}));
    Ok(())
}

#[allow(dead_code)]
fn _unused(_: Arc<()>) {}
#[allow(dead_code)]
const _CODES: [u32; 3] = [INVALID_TOPIC_NAME, REPLIER_ALREADY_BOUND, UNKNOWN_ERROR];
