//! Drives the real `selium_server::topic::pubsub::Topic` future with scripted mock
//! publisher streams / subscriber sinks under a wake-driven executor and records every
//! interaction as ndjson, for TLC trace validation.
//!
//!   router_pubsub --schedules F.jsonl --out trace.ndjson
//!   router_pubsub --random N --seed S [--max-pubs 3 --max-subs 4 --max-items 6 --len 40] \
//!                 --out trace.ndjson --save-schedules S.jsonl
use bytes::Bytes;
use futures::channel::mpsc::Sender;
use futures::Future;
use rand::rngs::StdRng;
use rand::{Rng, SeedableRng};
use selium_protocol::{Frame, MessagePayload};
use selium_server::topic::pubsub::{Socket, Topic};
use selium_verif_harness::evlog::EvLog;
use selium_verif_harness::exec::WakeFlag;
use selium_verif_harness::mock::*;
use selium_verif_harness::*;
use serde::{Deserialize, Serialize};
use serde_json::{json, Value};
use std::collections::{BTreeMap, HashMap};
use std::io::{BufRead, Write};
use std::panic::{catch_unwind, AssertUnwindSafe};
use std::pin::Pin;
use std::sync::{Arc, Mutex};
use std::task::{Context, Poll};

#[derive(Serialize, Deserialize, Clone, Debug)]
struct Step {
    op: String,
    #[serde(default)]
    id: u64,
    #[serde(default)]
    which: String, // block/unblock: "ready" | "flush"; break: "ready" | "send" | "flush"
}

#[derive(Serialize, Deserialize, Clone, Debug)]
struct Schedule {
    id: String,
    steps: Vec<Step>,
}

selium_verif_harness::virtual_clock!();

type Registry = Arc<Mutex<HashMap<(u64, u64), Frame>>>;

struct Pub {
    h: StreamHandle,
    published: u64,
}

struct Run {
    log: EvLog,
    fut: Option<Pin<Box<Topic<Frame, MockErr>>>>,
    tx: Sender<Socket<Frame, MockErr>>,
    flag: Arc<WakeFlag>,
    pubs: BTreeMap<u64, Pub>,
    subs: BTreeMap<u64, SinkHandle>,
    order: Arc<Mutex<(Vec<u64>, Vec<u64>)>>, // registration order: pubs, subs
    registry: Registry,
    describe: Describe,
    closed: bool,
    tick: Option<&'static [u64]>,
    finished: bool,
    dead: bool,
    polls: u64,
    salt: u64,
    last_q: u64,
}

fn parse_item(f: &Frame) -> Option<(u64, u64)> {
    if let Frame::Message(p) = f {
        let s = std::str::from_utf8(&p.message).ok()?;
        let mut it = s.split(':');
        let a = it.next()?.parse().ok()?;
        let b = it.next()?.parse().ok()?;
        Some((a, b))
    } else {
        None
    }
}

impl Run {
    fn new(log: EvLog, salt: u64) -> Self {
        let (topic, tx) = Topic::<Frame, MockErr>::pair();
        let registry: Registry = Arc::new(Mutex::new(HashMap::new()));
        let reg2 = registry.clone();
        let describe: Describe = Arc::new(move |f: &Frame| match parse_item(f) {
            Some((p, n)) => {
                let intact = reg2.lock().unwrap().get(&(p, n)).map(|g| g == f).unwrap_or(false);
                json!({"item": [p, n], "intact": intact})
            }
            None => json!({"item": [0, 0], "intact": false}),
        });
        let order = Arc::new(Mutex::new((vec![], vec![])));
        let o2 = order.clone();
        let l2 = log.clone();
        selium_server::verif::set_observer(Some(Box::new(move |ev, detail| {
            let k: usize = detail.parse().unwrap_or(usize::MAX);
            let o = o2.lock().unwrap();
            match ev {
                "pubsub_adopt_stream" => {
                    let id = o.0.get(k).copied().unwrap_or(u64::MAX);
                    l2.emit("adopt", json!({"kind": "pub", "id": id}));
                }
                "pubsub_adopt_sink" => {
                    let id = o.1.get(k).copied().unwrap_or(u64::MAX);
                    l2.emit("adopt", json!({"kind": "sub", "id": id}));
                }
                _ => {}
            }
        })));
        Run {
            log,
            fut: Some(Box::pin(topic)),
            tx,
            flag: WakeFlag::new_woken(),
            pubs: BTreeMap::new(),
            subs: BTreeMap::new(),
            order,
            registry,
            describe,
            closed: false,
            tick: None,
            finished: false,
            dead: false,
            polls: 0,
            salt,
            last_q: 0,
        }
    }

    fn all_writable(&self) -> bool {
        self.subs.values().all(|s| s.writable())
    }

    fn poll_once(&mut self) {
        if self.finished || self.dead || !self.flag.is_woken() {
            return;
        }
        self.polls += 1;
        self.flag.clear();
        self.log.take_inner();
        self.log.emit("poll_begin", json!({}));
        let waker = self.flag.waker();
        let mut cx = Context::from_waker(&waker);
        let fut = self.fut.as_mut().unwrap();
        selium_verif_harness::POLL_SEQ.fetch_add(1, std::sync::atomic::Ordering::SeqCst);
        let r = catch_unwind(AssertUnwindSafe(|| fut.as_mut().poll(&mut cx)));
        selium_verif_harness::POLL_SEQ.fetch_add(1, std::sync::atomic::Ordering::SeqCst);
        let inner = self.log.take_inner();
        match r {
            Ok(Poll::Pending) => self.log.emit("poll_end", json!({"res": "pending", "inner": inner})),
            Ok(Poll::Ready(())) => {
                self.log.emit("poll_end", json!({"res": "ready", "inner": inner}));
                self.finished = true;
                self.fut = None;
                self.log.emit("finished", json!({}));
            }
            Err(e) => {
                let msg = panic_message(&e);
                let res = if msg.contains(SPIN_MARKER) { "spin" } else { "panic" };
                self.log
                    .emit("poll_end", json!({"res": res, "inner": inner, "msg": msg}));
                self.dead = true;
                // a poisoned future must not be polled again; leak it (its drop could panic too)
                std::mem::forget(self.fut.take());
            }
        }
    }

    fn maybe_quiescent(&mut self) {
        if !self.finished && !self.dead && !self.flag.is_woken() && self.all_writable() {
            // only when something happened since the last one
            if self.log.lines() != self.last_q {
                self.log.emit("quiescent", json!({}));
                self.last_q = self.log.lines();
            }
        }
    }

    fn apply(&mut self, st: &Step) {
        match st.op.as_str() {
            "poll" => self.poll_once(),
            "reg_pub" => {
                if self.closed || self.pubs.contains_key(&st.id) {
                    return;
                }
                let h = StreamHandle::new("pub", st.id);
                let ms = MockStream { h: h.clone(), log: self.log.clone(), describe: self.describe.clone() };
                self.order.lock().unwrap().0.push(st.id);
                let res = match self.tx.try_send(Socket::Stream(Box::pin(ms))) {
                    Ok(()) => "ok",
                    Err(e) if e.is_full() => "full",
                    Err(_) => "closed",
                };
                self.pubs.insert(st.id, Pub { h, published: 0 });
                self.log.emit("reg", json!({"kind": "pub", "id": st.id, "res": res}));
            }
            "reg_sub" => {
                if self.closed || self.subs.contains_key(&st.id) {
                    return;
                }
                let h = SinkHandle::new("sub", st.id);
                h.st().encode_check = true; // a real framed writer with a persistent write buffer
                let ms = MockSink { h: h.clone(), log: self.log.clone(), describe: self.describe.clone() };
                self.order.lock().unwrap().1.push(st.id);
                let res = match self.tx.try_send(Socket::Sink(Box::pin(ms))) {
                    Ok(()) => "ok",
                    Err(e) if e.is_full() => "full",
                    Err(_) => "closed",
                };
                self.subs.insert(st.id, h);
                self.log.emit("reg", json!({"kind": "sub", "id": st.id, "res": res}));
            }
            "publish" => {
                let salt = self.salt;
                if let Some(p) = self.pubs.get_mut(&st.id) {
                    if p.h.st().ended {
                        return;
                    }
                    p.published += 1;
                    let n = p.published;
                    let mut body = format!("{}:{}:{:016x}", st.id, n, salt.wrapping_mul(n + 7919 * st.id)).into_bytes();
                    // "big:<d>": a message d bytes short of the largest one a frame can carry -- what a publisher's
                    // frame may hold, a subscriber's frame must be able to hold
                    if let Some(d) = st.which.strip_prefix("big:").and_then(|d| d.parse::<usize>().ok()) {
                        body.push(b':');
                        body.resize(max_message_len().saturating_sub(d), b'x');
                    }
                    // the header map is part of the frame: absent, present and empty, or present with an entry --
                    // "byte-for-byte unchanged" holds for each (big messages keep the shape their size was computed for)
                    let headers = if st.which.starts_with("big:") {
                        None
                    } else {
                        match n % 5 {
                            3 => Some(HashMap::new()),
                            4 => Some(HashMap::from([("x-trace".to_string(), format!("{:x}", salt.wrapping_add(n)))])),
                            _ => None,
                        }
                    };
                    let f = Frame::Message(MessagePayload { headers, message: Bytes::from(body) });
                    self.registry.lock().unwrap().insert((st.id, n), f.clone());
                    p.h.st().queue.push_back(f);
                    let fired = p.h.fire();
                    self.log.emit(
                        "env",
                        json!({"what": "publish", "id": st.id, "item": [st.id, n], "fired": fired}),
                    );
                }
            }
            "end" => {
                if let Some(p) = self.pubs.get_mut(&st.id) {
                    if p.h.st().ended {
                        return;
                    }
                    p.h.st().ended = true;
                    let fired = p.h.fire();
                    self.log.emit("env", json!({"what": "end", "id": st.id, "fired": fired}));
                }
            }
            "perr" => {
                if let Some(p) = self.pubs.get_mut(&st.id) {
                    if p.h.st().ended || p.h.st().err_next {
                        return;
                    }
                    p.h.st().err_next = true;
                    let fired = p.h.fire();
                    self.log.emit("env", json!({"what": "perr", "id": st.id, "fired": fired}));
                }
            }
            "block" | "unblock" => {
                let on = st.op == "unblock";
                if let Some(s) = self.subs.get(&st.id) {
                    {
                        let mut g = s.st();
                        let cur = if st.which == "ready" { g.ready_ok } else { g.flush_ok };
                        if cur == on {
                            return;
                        }
                        if st.which == "ready" {
                            g.ready_ok = on
                        } else {
                            g.flush_ok = on
                        }
                    }
                    let fired = if on { s.fire() } else { false };
                    self.log.emit(
                        "env",
                        json!({"what": st.op, "id": st.id, "which": st.which, "fired": fired}),
                    );
                }
            }
            "break" => {
                if let Some(s) = self.subs.get(&st.id) {
                    if s.st().brk.is_some() {
                        return;
                    }
                    s.st().brk = Some(st.which.clone());
                    let fired = s.fire();
                    self.log.emit(
                        "env",
                        json!({"what": "break", "id": st.id, "which": st.which, "fired": fired}),
                    );
                }
            }
            "close" => {
                if self.closed {
                    return;
                }
                self.closed = true;
                self.tx.close_channel();
                self.log.emit("env", json!({"what": "close", "id": 0, "fired": false}));
            }
            _ => {}
        }
    }

    fn run(&mut self, sched: &Schedule) {
        for (i, st) in sched.steps.iter().enumerate() {
            // time passes (a stuttering step of the specification: the router has no timers)
            if let Some(secs) = self.tick {
                let d = std::time::Duration::from_secs(secs[i % secs.len()]);
                selium_verif_harness::clock::advance(d);
                self.log.emit("tick", json!({"secs": d.as_secs()}));
            }
            self.apply(st);
            self.maybe_quiescent();
        }
        // drain: poll while woken (bounded), then make every sink writable and drain again
        for phase in 0..2 {
            let mut n = 0;
            while self.flag.is_woken() && !self.finished && !self.dead && n < 10_000 {
                self.poll_once();
                n += 1;
            }
            if n >= 10_000 {
                self.log.emit("livelock", json!({"polls": n}));
                break;
            }
            self.maybe_quiescent();
            if phase == 0 {
                let ids: Vec<u64> = self.subs.keys().copied().collect();
                for id in ids {
                    self.apply(&Step { op: "unblock".into(), id, which: "ready".into() });
                    self.apply(&Step { op: "unblock".into(), id, which: "flush".into() });
                }
            }
        }
        selium_server::verif::set_observer(None);
    }
}

/// The longest message a `Frame::Message` without headers can carry: the limit is the protocol's (1 MiB of
/// payload, Framing.tla), not whatever the encoder under test happens to accept; the payload of such a frame
/// is one byte for the absent header map, eight for the length, then the message.
fn max_message_len() -> usize {
    1024 * 1024 - 9
}

fn random_schedule(rng: &mut StdRng, k: u64, max_pubs: u64, max_subs: u64, max_items: u64, len: usize) -> Schedule {
    let mut steps = vec![];
    let mut pubs: Vec<(u64, u64, bool)> = vec![]; // id, published, ended
    let mut subs: Vec<u64> = vec![];
    let mut closed = false;
    let close_run = rng.gen_bool(0.3);
    let faulty = rng.gen_bool(0.5);
    // one schedule in 50 contains a burst: a few hundred items ready at once for one poll (work done per
    // poll must stay bounded by the data available, and nothing may be left behind without a wake-up)
    let burst_at = if k % 50 == 7 { Some(rng.gen_range(2..len.max(3))) } else { None };
    let mut big_done = false;
    for stepno in 0..len {
        if Some(stepno) == burst_at {
            if pubs.is_empty() && !closed {
                pubs.push((1, 0, false));
                steps.push(Step { op: "reg_pub".into(), id: 1, which: String::new() });
            }
            if subs.is_empty() && !closed {
                subs.push(1);
                steps.push(Step { op: "reg_sub".into(), id: 1, which: String::new() });
            }
            if let Some(i) = (0..pubs.len()).find(|i| !pubs[*i].2) {
                steps.push(Step { op: "poll".into(), id: 0, which: String::new() });
                for _ in 0..rng.gen_range(130..400) {
                    pubs[i].1 += 1;
                    steps.push(Step { op: "publish".into(), id: pubs[i].0, which: String::new() });
                }
                steps.push(Step { op: "poll".into(), id: 0, which: String::new() });
            }
            continue;
        }
        let r = rng.gen_range(0..100);
        let st = if r < 22 {
            Step { op: "poll".into(), id: 0, which: String::new() }
        } else if r < 30 && (pubs.len() as u64) < max_pubs && !closed {
            let id = pubs.len() as u64 + 1;
            pubs.push((id, 0, false));
            Step { op: "reg_pub".into(), id, which: String::new() }
        } else if r < 40 && (subs.len() as u64) < max_subs && !closed {
            let id = subs.len() as u64 + 1;
            subs.push(id);
            Step { op: "reg_sub".into(), id, which: String::new() }
        } else if r < 65 && !pubs.is_empty() {
            let i = rng.gen_range(0..pubs.len());
            if pubs[i].2 || pubs[i].1 >= max_items {
                continue;
            }
            pubs[i].1 += 1;
            let which = if k % 25 == 3 && !big_done {
                big_done = true;
                format!("big:{}", [0usize, 1, 7, 8, 9, 64][rng.gen_range(0..6)])
            } else {
                String::new()
            };
            Step { op: "publish".into(), id: pubs[i].0, which }
        } else if r < 70 && !pubs.is_empty() {
            let i = rng.gen_range(0..pubs.len());
            if pubs[i].2 {
                continue;
            }
            pubs[i].2 = true;
            Step { op: "end".into(), id: pubs[i].0, which: String::new() }
        } else if r < 73 && !pubs.is_empty() && faulty {
            let i = rng.gen_range(0..pubs.len());
            Step { op: "perr".into(), id: pubs[i].0, which: String::new() }
        } else if r < 83 && !subs.is_empty() {
            let id = subs[rng.gen_range(0..subs.len())];
            let which = if rng.gen_bool(0.5) { "ready" } else { "flush" };
            Step { op: "block".into(), id, which: which.into() }
        } else if r < 93 && !subs.is_empty() {
            let id = subs[rng.gen_range(0..subs.len())];
            let which = if rng.gen_bool(0.5) { "ready" } else { "flush" };
            Step { op: "unblock".into(), id, which: which.into() }
        } else if r < 97 && !subs.is_empty() && faulty {
            let id = subs[rng.gen_range(0..subs.len())];
            let which = ["ready", "send", "flush"][rng.gen_range(0..3)];
            Step { op: "break".into(), id, which: which.into() }
        } else if r >= 97 && close_run && !closed {
            closed = true;
            Step { op: "close".into(), id: 0, which: String::new() }
        } else {
            continue;
        };
        steps.push(st);
    }
    Schedule { id: format!("rnd-{k}"), steps }
}

/// One long life of a topic: six subscribers joining one after the other while two publishers send some
/// fifteen hundred messages; subscribers hesitate now and then (readiness or flushing blocked for a few
/// polls) and every second one leaves by failing.  Whatever the router counts or remembers per subscriber,
/// per message or per topic must not add up to a different treatment of the later ones.
fn marathon_schedule(rng: &mut StdRng) -> Schedule {
    let s = |op: &str, id: u64, which: &str| Step { op: op.into(), id, which: which.into() };
    let mut steps = vec![s("reg_pub", 1, ""), s("reg_pub", 2, ""), s("poll", 0, "")];
    for g in 1..=6u64 {
        steps.push(s("reg_sub", g, ""));
        steps.push(s("poll", 0, ""));
        let n = rng.gen_range(220..280u64);
        let hesitate_at = rng.gen_range(20..n - 40);
        for i in 0..n {
            steps.push(s("publish", 1 + (i + g) % 2, ""));
            if i == hesitate_at {
                let which = if g % 2 == 0 { "ready" } else { "flush" };
                steps.push(s("block", g, which));
                steps.push(s("poll", 0, ""));
                steps.push(s("publish", 1, ""));
                steps.push(s("poll", 0, ""));
                steps.push(s("unblock", g, which));
            }
            if i % 32 == 31 {
                steps.push(s("poll", 0, ""));
            }
        }
        steps.push(s("publish", 1, if g % 2 == 0 { "big:0" } else { "big:8" }));
        steps.push(s("poll", 0, ""));
        if g % 2 == 0 {
            steps.push(s("break", g, ["ready", "send", "flush"][(g as usize / 2) % 3]));
            steps.push(s("publish", 2, ""));
            steps.push(s("poll", 0, ""));
        }
    }
    Schedule { id: "marathon".into(), steps }
}

fn arg(args: &[String], name: &str) -> Option<String> {
    args.iter().position(|a| a == name).and_then(|i| args.get(i + 1).cloned())
}

struct NullLogger;
impl log::Log for NullLogger {
    fn enabled(&self, _: &log::Metadata) -> bool {
        true
    }
    fn log(&self, r: &log::Record) {
        // format the record (arguments with side effects or panicking Display impls are part of the code under test)
        let _ = std::hint::black_box(format!("{}", r.args()).len());
    }
    fn flush(&self) {}
}
static NULL_LOGGER: NullLogger = NullLogger;

fn main() {
    quiet_panics();
    let _ = log::set_logger(&NULL_LOGGER);
    let args: Vec<String> = std::env::args().collect();
    let out = arg(&args, "--out").expect("--out");
    let log = EvLog::to_file(&out).expect("open out");
    let seed: u64 = arg(&args, "--seed").and_then(|s| s.parse().ok()).unwrap_or_else(seed_from_env);
    let mut schedules: Vec<Schedule> = vec![];
    if let Some(f) = arg(&args, "--schedules") {
        let file = std::fs::File::open(&f).expect("open schedules");
        for line in std::io::BufReader::new(file).lines() {
            let line = line.unwrap();
            if line.trim().is_empty() {
                continue;
            }
            schedules.push(serde_json::from_str(&line).expect("schedule json"));
        }
    }
    if let Some(n) = arg(&args, "--random") {
        let n: u64 = n.parse().unwrap();
        let mut rng = StdRng::seed_from_u64(seed);
        let mp = arg(&args, "--max-pubs").and_then(|s| s.parse().ok()).unwrap_or(3);
        let ms = arg(&args, "--max-subs").and_then(|s| s.parse().ok()).unwrap_or(4);
        let mi = arg(&args, "--max-items").and_then(|s| s.parse().ok()).unwrap_or(6);
        let len = arg(&args, "--len").and_then(|s| s.parse().ok()).unwrap_or(40);
        for k in 0..n {
            schedules.push(random_schedule(&mut rng, k, mp, ms, mi, len));
        }
        for _ in 0..(n / 3000).max(1) {
            schedules.push(marathon_schedule(&mut rng));
        }
    }
    if let Some(f) = arg(&args, "--save-schedules") {
        let mut w = std::io::BufWriter::new(std::fs::File::create(f).unwrap());
        for s in &schedules {
            writeln!(w, "{}", serde_json::to_string(s).unwrap()).unwrap();
        }
    }
    let mut summary: Vec<Value> = vec![];
    let (mut dead_runs, mut executed) = (0usize, 0usize);
    selium_verif_harness::start_watchdog(log.clone(), schedules.len());
    for (k, s) in schedules.iter().enumerate() {
        log.reset(k as u64 + 1, json!({"sched": s.id}));
        selium_verif_harness::CUR_RUN.store(k as u64 + 1, std::sync::atomic::Ordering::SeqCst);
        let mut run = Run::new(log.clone(), seed.wrapping_add(k as u64));
        // every fourth schedule runs with the clock jumping ahead between its steps: by seconds, by minutes,
        // by hours (seconds first so that short and long limits are both crossed with an operation in between)
        // The router logs what it does to failing peers.  Whether anybody listens must not matter: schedules
        // alternate between no logging at all (macro arguments are then not even evaluated) and everything on.
        log::set_max_level(if (k / 2) % 2 == 0 { log::LevelFilter::Off } else { log::LevelFilter::Trace });
        run.tick = match k % 8 {
            1 => Some(&[7, 7, 61, 7, 3601]),
            5 => Some(&[1, 2, 4, 8, 16, 32, 64, 128, 86_400]),
            _ => None,
        };
        run.run(s);
        // a change that makes the router spin or panic in a whole class of schedules makes each of them run into
        // the spin budget: after sixty such runs the verdicts are in, the rest is not run
        if run.dead {
            dead_runs += 1;
            if dead_runs >= 60 {
                summary.push(json!({"run": k + 1, "sched": s.id, "polls": run.polls, "finished": run.finished, "dead": run.dead}));
                executed = k + 1;
                break;
            }
        }
        executed = k + 1;
        summary.push(json!({"run": k + 1, "sched": s.id, "polls": run.polls, "finished": run.finished, "dead": run.dead}));
    }
    log.flush();
    println!(
        "{}",
        json!({"runs": executed, "of": schedules.len(), "events": log.lines(), "dead": summary.iter().filter(|v| v["dead"] == true).count()})
    );
}
