//! Drives the real `selium_server::topic::reqrep::Topic` future with scripted mock requestors
//! and repliers under a wake-driven executor and records every interaction as ndjson.
//!
//!   router_reqrep --schedules F.jsonl --out trace.ndjson
//!   router_reqrep --random N --seed S [--len 40] --out trace.ndjson --save-schedules S.jsonl
use bytes::Bytes;
use futures::channel::mpsc::Sender;
use futures::Future;
use rand::rngs::StdRng;
use rand::{Rng, SeedableRng};
use selium_protocol::{ErrorPayload, Frame, MessagePayload, TopicName};
use selium_server::topic::reqrep::{Socket, Topic};
use selium_verif_harness::evlog::EvLog;
use selium_verif_harness::exec::WakeFlag;
use selium_verif_harness::mock::*;
use selium_verif_harness::*;
use serde::{Deserialize, Serialize};
use serde_json::{json, Value};
use std::collections::{BTreeMap, HashMap, VecDeque};
use std::io::{BufRead, Write};
use std::panic::{catch_unwind, AssertUnwindSafe};
use std::pin::Pin;
use std::sync::{Arc, Mutex};
use std::task::{Context, Poll};

#[derive(Serialize, Deserialize, Clone, Debug, Default)]
struct Step {
    op: String,
    #[serde(default)]
    id: u64,
    /// block/unblock: "ready"|"flush"; break_cl: "ready"|"send"|"flush"; bad_reply: tag;
    /// request: header class "none"|"other"|"forged"|"forged_var"|"reqid"
    #[serde(default)]
    which: String,
    /// reply: index (1-based) of the received request to answer; request: 1 = fits, 0 = oversize
    #[serde(default)]
    arg: u64,
    /// block/unblock: "cl" | "sv"
    #[serde(default)]
    role: String,
}

#[derive(Serialize, Deserialize, Clone, Debug)]
struct Schedule {
    id: String,
    steps: Vec<Step>,
}

/// what the harness knows about frames, shared with the describe closures
#[derive(Default)]
struct Ctx {
    /// mock requestor id -> router id (the StreamMap key the router assigned)
    rid: HashMap<u64, u64>,
    /// registrations in channel order: ("cl"|"sv", mock id)
    fifo: VecDeque<(String, u64)>,
    bound: Option<u64>,
    next_router_id: u64,
    requests: HashMap<(u64, u64), Frame>,    // original request frames
    fits: HashMap<(u64, u64), bool>,
    replies: HashMap<(u64, u64, u64), Frame>, // (replier, c, n) -> emitted reply frame
}

const BIG_BODY: usize = 1024 * 1024 - 9; // bincode(MessagePayload{None, body}) == 1 MiB exactly

fn parse_prefix(bytes: &[u8], skip: usize) -> Option<(u64, u64)> {
    let head = &bytes[..bytes.len().min(64)];
    let s = String::from_utf8_lossy(head);
    let mut it = s.split(':').skip(skip);
    let a = it.next()?.parse().ok()?;
    let b = it.next()?.parse().ok()?;
    Some((a, b))
}

fn without_cid(f: &Frame) -> Frame {
    if let Frame::Message(p) = f {
        let mut h = p.headers.clone().unwrap_or_default();
        h.remove("cid");
        Frame::Message(MessagePayload { headers: if h.is_empty() { None } else { Some(h) }, message: p.message.clone() })
    } else {
        f.clone()
    }
}

fn with_cid(f: &Frame, cid: &str) -> Frame {
    if let Frame::Message(p) = f {
        let mut h = p.headers.clone().unwrap_or_default();
        h.insert("cid".into(), cid.into());
        Frame::Message(MessagePayload { headers: Some(h), message: p.message.clone() })
    } else {
        f.clone()
    }
}

fn frame_kind(f: &Frame) -> &'static str {
    match f {
        Frame::RegisterPublisher(_) => "register_publisher",
        Frame::RegisterSubscriber(_) => "register_subscriber",
        Frame::RegisterReplier(_) => "register_replier",
        Frame::RegisterRequestor(_) => "register_requestor",
        Frame::Message(_) => "message",
        Frame::BatchMessage(_) => "batch",
        Frame::Error(_) => "error",
        Frame::Ok => "ok",
    }
}

struct Cl {
    st: StreamHandle,
    si: SinkHandle,
    made: u64,
}
struct Sv {
    st: StreamHandle,
    si: SinkHandle,
    answered: Vec<usize>,
}

selium_verif_harness::virtual_clock!();

struct Run {
    log: EvLog,
    fut: Option<Pin<Box<Topic<MockErr>>>>,
    tx: Sender<Socket<MockErr>>,
    flag: Arc<WakeFlag>,
    cls: BTreeMap<u64, Cl>,
    svs: BTreeMap<u64, Sv>,
    ctx: Arc<Mutex<Ctx>>,
    closed: bool,
    tick: Option<&'static [u64]>,
    finished: bool,
    dead: bool,
    polls: u64,
    salt: u64,
    last_q: u64,
    junk_n: u64,
}

impl Run {
    fn new(log: EvLog, salt: u64) -> Self {
        let (topic, tx) = Topic::<MockErr>::pair();
        let ctx = Arc::new(Mutex::new(Ctx::default()));
        let c2 = ctx.clone();
        let l2 = log.clone();
        selium_server::verif::set_observer(Some(Box::new(move |ev, detail| {
            let mut c = c2.lock().unwrap();
            match ev {
                "reqrep_adopt_client" | "reqrep_bind" | "reqrep_reject" => {
                    let want = if ev == "reqrep_adopt_client" { "cl" } else { "sv" };
                    let (kind, id) = c.fifo.pop_front().unwrap_or(("?".into(), u64::MAX));
                    let ok = kind == want;
                    match ev {
                        "reqrep_adopt_client" => {
                            let rid: u64 = detail.parse().unwrap_or(u64::MAX);
                            c.rid.insert(id, rid);
                            drop(c);
                            l2.emit("adopt", json!({"kind": "cl", "id": id, "rid": rid, "fifo_ok": ok}));
                        }
                        "reqrep_bind" => {
                            c.bound = Some(id);
                            drop(c);
                            l2.emit("bind", json!({"id": id, "fifo_ok": ok}));
                        }
                        _ => {
                            drop(c);
                            l2.emit("reject", json!({"id": id, "fifo_ok": ok}));
                        }
                    }
                }
                "reqrep_unbind" => {
                    let id = c.bound.take().unwrap_or(u64::MAX);
                    drop(c);
                    l2.emit("unbind", json!({"id": id, "why": detail}));
                }
                _ => {}
            }
        })));
        Run {
            log,
            fut: Some(Box::pin(topic)),
            tx,
            flag: WakeFlag::new_woken(),
            cls: BTreeMap::new(),
            svs: BTreeMap::new(),
            ctx,
            closed: false,
            tick: None,
            finished: false,
            dead: false,
            polls: 0,
            salt,
            last_q: 0,
            junk_n: 0,
        }
    }

    // ---- describe closures
    fn describe_cl_stream(&self) -> Describe {
        let ctx = self.ctx.clone();
        Arc::new(move |f: &Frame| match f {
            Frame::Message(p) => match parse_prefix(&p.message, 0) {
                Some((c, n)) => {
                    let fits = ctx.lock().unwrap().fits.get(&(c, n)).copied().unwrap_or(true);
                    json!({"what": "req", "item": [c, n], "fits": fits})
                }
                None => json!({"what": "junk", "frame": "message?"}),
            },
            other => json!({"what": "junk", "frame": frame_kind(other)}),
        })
    }
    fn describe_sv_sink(&self) -> Describe {
        let ctx = self.ctx.clone();
        Arc::new(move |f: &Frame| match f {
            Frame::Message(p) => match parse_prefix(&p.message, 0) {
                Some((c, n)) => {
                    let g = ctx.lock().unwrap();
                    let rid = g.rid.get(&c).copied();
                    let cid = p.headers.as_ref().and_then(|h| h.get("cid").cloned());
                    let cid_ok = rid.is_some() && cid == rid.map(|r| r.to_string());
                    let intact = match (g.requests.get(&(c, n)), rid) {
                        (Some(orig), Some(r)) => with_cid(orig, &r.to_string()) == *f,
                        _ => false,
                    };
                    json!({"what": "req", "item": [c, n], "cid_ok": cid_ok, "intact": intact})
                }
                None => json!({"what": "other", "frame": "message?"}),
            },
            Frame::Error(e) => json!({"what": "error", "code": e.code}),
            other => json!({"what": "other", "frame": frame_kind(other)}),
        })
    }
    fn describe_sv_stream(&self) -> Describe {
        Arc::new(move |f: &Frame| match f {
            Frame::Message(p) => match parse_prefix(&p.message, 1) {
                // "rep:<c>:<n>:<tag>:..."
                Some((c, n)) => {
                    let s = String::from_utf8_lossy(&p.message[..p.message.len().min(64)]).to_string();
                    let tag = s.split(':').nth(3).unwrap_or("?").to_string();
                    json!({"what": "rep", "item": [c, n], "tag": tag})
                }
                None => json!({"what": "rep", "item": [0, 0], "tag": "junk"}),
            },
            _ => json!({"what": "rep", "item": [0, 0], "tag": "junk"}),
        })
    }
    fn describe_cl_sink(&self, me: u64) -> Describe {
        let ctx = self.ctx.clone();
        Arc::new(move |f: &Frame| match f {
            Frame::Message(p) => match parse_prefix(&p.message, 1) {
                Some((c, n)) => {
                    let g = ctx.lock().unwrap();
                    // the emitted frame (any replier) with the routing tag stripped
                    let intact = g
                        .replies
                        .iter()
                        .any(|((_, cc, nn), orig)| *cc == c && *nn == n && without_cid(orig) == *f);
                    let has_cid = p.headers.as_ref().map(|h| h.contains_key("cid")).unwrap_or(false);
                    json!({"what": "rep", "item": [c, n], "intact": intact, "tag_stripped": !has_cid, "to": me})
                }
                None => json!({"what": "other", "frame": "message?"}),
            },
            other => json!({"what": "other", "frame": frame_kind(other)}),
        })
    }

    fn all_writable(&self) -> bool {
        self.cls.values().all(|c| c.si.writable()) && self.svs.values().all(|s| s.si.writable())
    }

    fn poll_once(&mut self) {
        if self.finished || self.dead || !self.flag.is_woken() {
            return;
        }
        self.polls += 1;
        self.flag.clear();
        self.log.take_inner();
        self.log.emit("poll_begin", json!({}));
        let waker = self.flag.waker();
        let mut cx = Context::from_waker(&waker);
        let fut = self.fut.as_mut().unwrap();
        selium_verif_harness::POLL_SEQ.fetch_add(1, std::sync::atomic::Ordering::SeqCst);
        let r = catch_unwind(AssertUnwindSafe(|| fut.as_mut().poll(&mut cx)));
        selium_verif_harness::POLL_SEQ.fetch_add(1, std::sync::atomic::Ordering::SeqCst);
        let inner = self.log.take_inner();
        match r {
            Ok(Poll::Pending) => self.log.emit("poll_end", json!({"res": "pending", "inner": inner})),
            Ok(Poll::Ready(())) => {
                self.log.emit("poll_end", json!({"res": "ready", "inner": inner}));
                self.finished = true;
                self.fut = None;
                self.log.emit("finished", json!({}));
            }
            Err(e) => {
                let msg = panic_message(&e);
                let res = if msg.contains(SPIN_MARKER) { "spin" } else { "panic" };
                self.log.emit("poll_end", json!({"res": res, "inner": inner, "msg": msg}));
                self.dead = true;
                std::mem::forget(self.fut.take());
            }
        }
    }

    fn maybe_quiescent(&mut self) {
        if !self.finished && !self.dead && !self.flag.is_woken() && self.all_writable() && self.log.lines() != self.last_q {
            self.log.emit("quiescent", json!({}));
            self.last_q = self.log.lines();
        }
    }

    fn apply(&mut self, st: &Step) {
        match st.op.as_str() {
            "poll" => self.poll_once(),
            "reg_cl" => {
                if self.closed || self.cls.contains_key(&st.id) {
                    return;
                }
                let sth = StreamHandle::new("cl", st.id);
                let sih = SinkHandle::new("cl", st.id);
                sih.st().encode_check = true; // a real framed writer with a persistent write buffer
                let ms = MockStream { h: sth.clone(), log: self.log.clone(), describe: self.describe_cl_stream() };
                let mk = MockSink { h: sih.clone(), log: self.log.clone(), describe: self.describe_cl_sink(st.id) };
                self.ctx.lock().unwrap().fifo.push_back(("cl".into(), st.id));
                let res = match self.tx.try_send(Socket::Client((Box::pin(mk), Box::pin(ms)))) {
                    Ok(()) => "ok",
                    Err(e) if e.is_full() => "full",
                    Err(_) => "closed",
                };
                if res != "ok" {
                    self.ctx.lock().unwrap().fifo.pop_back();
                }
                self.cls.insert(st.id, Cl { st: sth, si: sih, made: 0 });
                self.log.emit("reg", json!({"kind": "cl", "id": st.id, "res": res}));
            }
            "reg_sv" => {
                if self.closed || self.svs.contains_key(&st.id) {
                    return;
                }
                let sth = StreamHandle::new("sv", st.id);
                let sih = SinkHandle::new("sv", st.id);
                sih.st().encode_check = true; // like the real FramedWrite: refuses oversize frames
                let ms = MockStream { h: sth.clone(), log: self.log.clone(), describe: self.describe_sv_stream() };
                let mk = MockSink { h: sih.clone(), log: self.log.clone(), describe: self.describe_sv_sink() };
                self.ctx.lock().unwrap().fifo.push_back(("sv".into(), st.id));
                let res = match self.tx.try_send(Socket::Server((Box::pin(mk), Box::pin(ms)))) {
                    Ok(()) => "ok",
                    Err(e) if e.is_full() => "full",
                    Err(_) => "closed",
                };
                if res != "ok" {
                    self.ctx.lock().unwrap().fifo.pop_back();
                }
                self.svs.insert(st.id, Sv { st: sth, si: sih, answered: vec![] });
                self.log.emit("reg", json!({"kind": "sv", "id": st.id, "res": res}));
            }
            "request" => {
                let salt = self.salt;
                let others: Vec<u64> = self.cls.keys().copied().filter(|k| *k != st.id).collect();
                if let Some(c) = self.cls.get_mut(&st.id) {
                    if c.st.st().ended {
                        return;
                    }
                    c.made += 1;
                    let n = c.made;
                    let fits = st.arg != 0;
                    let mut body = format!("{}:{}:{:016x}:", st.id, n, salt.wrapping_mul(n + 104729 * st.id)).into_bytes();
                    let mut headers: Option<HashMap<String, String>> = None;
                    if !fits {
                        body.resize(BIG_BODY, b'x');
                    } else {
                        match st.which.as_str() {
                            "other" => headers = Some(HashMap::from([("x-trace".to_string(), "abc".to_string())])),
                            "forged" => {
                                // claim to be somebody else (router ids are small integers)
                                let other = others.first().copied().unwrap_or(0);
                                let g = self.ctx.lock().unwrap();
                                let forged = g.rid.get(&other).copied().unwrap_or(other);
                                headers = Some(HashMap::from([("cid".to_string(), forged.to_string())]));
                            }
                            "forged_var" => {
                                // the same claim under a name that differs from the routing tag's only in case:
                                // an ordinary header of the requestor's, which must travel untouched and route nothing
                                let other = others.first().copied().unwrap_or(0);
                                let g = self.ctx.lock().unwrap();
                                let forged = g.rid.get(&other).copied().unwrap_or(other);
                                let key = ["CID", "Cid", "cID"][(n % 3) as usize];
                                headers = Some(HashMap::from([(key.to_string(), forged.to_string()), ("req_id".to_string(), n.to_string())]));
                            }
                            "reqid" => headers = Some(HashMap::from([("req_id".to_string(), n.to_string())])),
                            _ => {}
                        }
                    }
                    let f = Frame::Message(MessagePayload { headers, message: Bytes::from(body) });
                    {
                        let mut g = self.ctx.lock().unwrap();
                        // the forged cid is not part of what must arrive intact: the router overwrites it
                        g.requests.insert((st.id, n), without_cid(&f));
                        g.fits.insert((st.id, n), fits);
                    }
                    c.st.st().queue.push_back(f);
                    let fired = c.st.fire();
                    self.log.emit(
                        "env",
                        json!({"what": "request", "id": st.id, "item": [st.id, n], "fits": fits, "hdr": st.which, "fired": fired}),
                    );
                }
            }
            "junk" => {
                if let Some(c) = self.cls.get_mut(&st.id) {
                    if c.st.st().ended {
                        return;
                    }
                    self.junk_n += 1;
                    let f = junk_frame(self.junk_n);
                    let kind = frame_kind(&f);
                    c.st.st().queue.push_back(f);
                    let fired = c.st.fire();
                    self.log.emit("env", json!({"what": "junk", "id": st.id, "frame": kind, "fired": fired}));
                }
            }
            "cl_end" | "cl_err" => {
                if let Some(c) = self.cls.get_mut(&st.id) {
                    if c.st.st().ended {
                        return;
                    }
                    if st.op == "cl_end" {
                        c.st.st().ended = true;
                    } else {
                        if c.st.st().err_next {
                            return;
                        }
                        c.st.st().err_next = true;
                    }
                    let fired = c.st.fire();
                    self.log.emit("env", json!({"what": st.op, "id": st.id, "fired": fired}));
                }
            }
            "reply" | "bad_reply" => {
                let salt = self.salt;
                self.junk_n += 1;
                let jn = self.junk_n;
                if let Some(s) = self.svs.get_mut(&st.id) {
                    if s.st.st().ended {
                        return;
                    }
                    let recv: Vec<Frame> = s.si.st().recv.iter().filter(|f| matches!(f, Frame::Message(_))).cloned().collect();
                    let (frame, c, n, tag) = if st.op == "reply" {
                        let i = st.arg as usize;
                        if i == 0 || i > recv.len() || s.answered.contains(&i) {
                            return;
                        }
                        s.answered.push(i);
                        let req = recv[i - 1].clone().unwrap_message();
                        let (c, n) = parse_prefix(&req.message, 0).unwrap_or((0, 0));
                        let body = format!("rep:{}:{}:ok:{:016x}", c, n, salt.wrapping_mul(n + 31 * c));
                        // a real replier echoes the request's headers (cid, req_id, ...)
                        (Frame::Message(MessagePayload { headers: req.headers, message: Bytes::from(body) }), c, n, "ok".to_string())
                    } else {
                        let tag = st.which.clone();
                        let body = format!("rep:0:0:{}:{:016x}", tag, salt.wrapping_add(jn));
                        let headers = match tag.as_str() {
                            "missing" => {
                                if jn % 2 == 0 {
                                    None
                                } else {
                                    Some(HashMap::from([("req_id".to_string(), "1".to_string())]))
                                }
                            }
                            "unknown" => Some(HashMap::from([("cid".to_string(), "99999".to_string())])),
                            "malformed" => Some(HashMap::from([("cid".to_string(), "not-a-number".to_string())])),
                            _ => None,
                        };
                        let f = if tag == "junk" {
                            junk_frame(jn)
                        } else {
                            Frame::Message(MessagePayload { headers, message: Bytes::from(body) })
                        };
                        (f, 0, 0, tag)
                    };
                    if st.op == "reply" {
                        self.ctx.lock().unwrap().replies.insert((st.id, c, n), frame.clone());
                    }
                    s.st.st().queue.push_back(frame);
                    let fired = s.st.fire();
                    self.log.emit(
                        "env",
                        json!({"what": st.op, "id": st.id, "item": [c, n], "tag": tag, "fired": fired}),
                    );
                }
            }
            "reply_unsolicited" => {
                // a well-formed reply, correctly tagged for a requestor that is registered -- which has not asked
                // for it (or has not asked for anything yet).  The router does not keep track of who asked what:
                // it is a reply for that requestor like any other.
                let salt = self.salt;
                self.junk_n += 1;
                let n = 100_000 + self.junk_n;
                let c = st.arg;
                let rid = self.ctx.lock().unwrap().rid.get(&c).copied();
                if let (Some(s), Some(rid)) = (self.svs.get_mut(&st.id), rid) {
                    if s.st.st().ended {
                        return;
                    }
                    let body = format!("rep:{}:{}:ok:{:016x}", c, n, salt.wrapping_mul(n + 31 * c));
                    let frame = Frame::Message(MessagePayload {
                        headers: Some(HashMap::from([("cid".to_string(), rid.to_string())])),
                        message: Bytes::from(body),
                    });
                    self.ctx.lock().unwrap().replies.insert((st.id, c, n), frame.clone());
                    s.st.st().queue.push_back(frame);
                    let fired = s.st.fire();
                    self.log.emit("env", json!({"what": "reply", "id": st.id, "item": [c, n], "tag": "ok", "fired": fired}));
                }
            }
            "sv_end" | "sv_err" => {
                if let Some(s) = self.svs.get_mut(&st.id) {
                    if s.st.st().ended {
                        return;
                    }
                    if st.op == "sv_end" {
                        s.st.st().ended = true;
                    } else {
                        if s.st.st().err_next {
                            return;
                        }
                        s.st.st().err_next = true;
                    }
                    let fired = s.st.fire();
                    self.log.emit("env", json!({"what": st.op, "id": st.id, "fired": fired}));
                }
            }
            "block" | "unblock" => {
                let on = st.op == "unblock";
                let h = if st.role == "sv" { self.svs.get(&st.id).map(|s| s.si.clone()) } else { self.cls.get(&st.id).map(|c| c.si.clone()) };
                if let Some(s) = h {
                    {
                        let mut g = s.st();
                        let cur = if st.which == "ready" { g.ready_ok } else { g.flush_ok };
                        if cur == on {
                            return;
                        }
                        if st.which == "ready" {
                            g.ready_ok = on
                        } else {
                            g.flush_ok = on
                        }
                    }
                    let fired = if on { s.fire() } else { false };
                    self.log.emit(
                        "env",
                        json!({"what": st.op, "role": st.role, "id": st.id, "which": st.which, "fired": fired}),
                    );
                }
            }
            "break_cl" => {
                if let Some(c) = self.cls.get(&st.id) {
                    if c.si.st().brk.is_some() {
                        return;
                    }
                    c.si.st().brk = Some(st.which.clone());
                    let fired = c.si.fire();
                    self.log.emit("env", json!({"what": "break_cl", "id": st.id, "which": st.which, "fired": fired}));
                }
            }
            "break_sv" => {
                if let Some(s) = self.svs.get(&st.id) {
                    if s.si.st().brk.is_some() {
                        return;
                    }
                    s.si.st().brk = Some("all".into());
                    let fired = s.si.fire();
                    self.log.emit("env", json!({"what": "break_sv", "id": st.id, "fired": fired}));
                }
            }
            "close" => {
                if self.closed {
                    return;
                }
                self.closed = true;
                self.tx.close_channel();
                self.log.emit("env", json!({"what": "close", "id": 0, "fired": false}));
            }
            _ => {}
        }
    }

    fn run(&mut self, sched: &Schedule) {
        for (i, st) in sched.steps.iter().enumerate() {
            // time passes (a stuttering step of the specification: the router has no timers)
            if let Some(secs) = self.tick {
                let d = std::time::Duration::from_secs(secs[i % secs.len()]);
                selium_verif_harness::clock::advance(d);
                self.log.emit("tick", json!({"secs": d.as_secs()}));
            }
            self.apply(st);
            self.maybe_quiescent();
        }
        for phase in 0..2 {
            let mut n = 0;
            while self.flag.is_woken() && !self.finished && !self.dead && n < 10_000 {
                self.poll_once();
                n += 1;
            }
            if n >= 10_000 {
                self.log.emit("livelock", json!({"polls": n}));
                break;
            }
            self.maybe_quiescent();
            if phase == 0 {
                let cl: Vec<u64> = self.cls.keys().copied().collect();
                let sv: Vec<u64> = self.svs.keys().copied().collect();
                for (role, ids) in [("cl", cl), ("sv", sv)] {
                    for id in ids {
                        for w in ["ready", "flush"] {
                            self.apply(&Step { op: "unblock".into(), id, which: w.into(), arg: 0, role: role.into() });
                        }
                    }
                }
            }
        }
        selium_server::verif::set_observer(None);
    }
}

fn junk_frame(k: u64) -> Frame {
    match k % 5 {
        0 => Frame::Ok,
        1 => Frame::BatchMessage(Bytes::from_static(b"\x00\x00\x00\x00\x00\x00\x00\x00")),
        2 => Frame::Error(ErrorPayload { code: 0, message: Bytes::from_static(b"bogus") }),
        3 => Frame::RegisterReplier(selium_protocol::ReplierPayload { topic: TopicName::_create_unchecked("aaa", "bbb") }),
        _ => Frame::RegisterPublisher(selium_protocol::PublisherPayload {
            topic: TopicName::_create_unchecked("aaa", "bbb"),
            retention_policy: 0,
            operations: vec![],
        }),
    }
}

fn random_schedule(rng: &mut StdRng, k: u64, len: usize) -> Schedule {
    let mut steps: Vec<Step> = vec![];
    let max_cl = rng.gen_range(1..=3u64);
    let max_sv = rng.gen_range(1..=3u64);
    let faulty = rng.gen_bool(0.5);
    let close_run = rng.gen_bool(0.25);
    let mut ncl = 0u64;
    let mut nsv = 0u64;
    let mut reqs = 0u64;
    let mut bigs = 0;
    let mut closed = false;
    let s = |op: &str, id: u64| Step { op: op.into(), id, ..Default::default() };
    // one schedule in 100 contains a burst: a couple of hundred requests ready at once for one poll
    let burst_at = if k % 100 == 11 { Some(rng.gen_range(2..len.max(3))) } else { None };
    for stepno in 0..len {
        if Some(stepno) == burst_at && !closed {
            if ncl == 0 {
                ncl = 1;
                steps.push(s("reg_cl", 1));
            }
            if nsv == 0 {
                nsv = 1;
                steps.push(s("reg_sv", 1));
            }
            steps.push(s("poll", 0));
            let id = rng.gen_range(1..=ncl);
            for _ in 0..rng.gen_range(130..220) {
                reqs += 1;
                steps.push(Step { op: "request".into(), id, which: "reqid".into(), arg: 1, role: String::new() });
            }
            steps.push(s("poll", 0));
            continue;
        }
        let r = rng.gen_range(0..100);
        let st = if r < 22 {
            s("poll", 0)
        } else if r < 28 && ncl < max_cl && !closed {
            ncl += 1;
            s("reg_cl", ncl)
        } else if r < 34 && nsv < max_sv && !closed {
            nsv += 1;
            s("reg_sv", nsv)
        } else if r < 50 && ncl > 0 {
            reqs += 1;
            let id = rng.gen_range(1..=ncl);
            let hdr = ["none", "other", "forged", "reqid", "forged_var"][rng.gen_range(0..5)];
            let fits = if faulty && bigs < 1 && rng.gen_bool(0.1) {
                bigs += 1;
                0
            } else {
                1
            };
            Step { op: "request".into(), id, which: hdr.into(), arg: fits, role: String::new() }
        } else if r < 64 && nsv > 0 && reqs > 0 {
            Step { op: "reply".into(), id: rng.gen_range(1..=nsv), which: String::new(), arg: rng.gen_range(1..=reqs.min(6)), role: String::new() }
        } else if r < 65 && nsv > 0 && ncl > 0 && k % 3 == 1 {
            Step { op: "reply_unsolicited".into(), id: rng.gen_range(1..=nsv), which: String::new(), arg: rng.gen_range(1..=ncl), role: String::new() }
        } else if r < 67 && nsv > 0 && faulty {
            let tag = ["missing", "unknown", "malformed", "junk"][rng.gen_range(0..4)];
            Step { op: "bad_reply".into(), id: rng.gen_range(1..=nsv), which: tag.into(), arg: 0, role: String::new() }
        } else if r < 69 && ncl > 0 && faulty {
            s("junk", rng.gen_range(1..=ncl))
        } else if r < 72 && ncl > 0 {
            s(if rng.gen_bool(0.7) { "cl_end" } else { "cl_err" }, rng.gen_range(1..=ncl))
        } else if r < 76 && nsv > 0 {
            s(if rng.gen_bool(0.8) { "sv_end" } else { "sv_err" }, rng.gen_range(1..=nsv))
        } else if r < 92 && (ncl > 0 || nsv > 0) {
            let sv = ncl == 0 || (nsv > 0 && rng.gen_bool(0.4));
            let id = if sv { rng.gen_range(1..=nsv) } else { rng.gen_range(1..=ncl) };
            let which = if rng.gen_bool(0.5) { "ready" } else { "flush" };
            let op = if rng.gen_bool(0.5) { "block" } else { "unblock" };
            Step { op: op.into(), id, which: which.into(), arg: 0, role: if sv { "sv".into() } else { "cl".into() } }
        } else if r < 95 && ncl > 0 && faulty {
            let which = ["ready", "send", "flush"][rng.gen_range(0..3)];
            Step { op: "break_cl".into(), id: rng.gen_range(1..=ncl), which: which.into(), arg: 0, role: String::new() }
        } else if r < 97 && nsv > 0 && faulty {
            s("break_sv", rng.gen_range(1..=nsv))
        } else if r >= 97 && close_run && !closed {
            closed = true;
            s("close", 0)
        } else {
            continue;
        };
        steps.push(st);
    }
    Schedule { id: format!("rnd-{k}"), steps }
}

/// One long life of a topic: eight repliers, one after the other, each of which leaves by ending its stream
/// with several hundred requests unanswered (a few thousand in all), while the requestors keep asking.  What
/// the router keeps per replier, per request or per topic must not add up: the replier of every generation
/// is bound and served like the first.  (The short schedules never let anything grow past a handful.)
fn marathon_schedule(rng: &mut StdRng) -> Schedule {
    let s = |op: &str, id: u64| Step { op: op.into(), id, ..Default::default() };
    let mut steps = vec![s("reg_cl", 1), s("reg_cl", 2), s("poll", 0)];
    let (gens, per) = std::env::var("VERIF_MARATHON")
        .ok()
        .and_then(|v| v.split_once(',').map(|(a, b)| (a.parse().unwrap_or(8), b.parse().unwrap_or(620))))
        .unwrap_or((8u64, 620u64));
    for g in 1..=gens {
        steps.push(s("reg_sv", g));
        steps.push(s("poll", 0));
        let n = rng.gen_range(per..per + per / 8 + 1);
        for i in 0..n {
            steps.push(Step { op: "request".into(), id: 1 + (i + g) % 2, which: "reqid".into(), arg: 1, role: String::new() });
            if i % 64 == 63 {
                steps.push(s("poll", 0));
            }
        }
        steps.push(s("poll", 0));
        // served: the first, one in the middle and the last request of this generation are answered
        for i in [1, n / 2, n] {
            steps.push(Step { op: "reply".into(), id: g, which: String::new(), arg: i, role: String::new() });
        }
        steps.push(s("poll", 0));
        let mut got = n; // requests this replier has been handed so far
        // a short-lived requestor that fails with two replies outstanding: the replies are then addressed to
        // nobody, which is nobody's fault -- the replier stays bound and the others are served as before
        if g <= 6 {
            let x = 2 + g;
            steps.push(s("reg_cl", x));
            steps.push(s("poll", 0));
            for _ in 0..2 {
                steps.push(Step { op: "request".into(), id: x, which: "reqid".into(), arg: 1, role: String::new() });
            }
            steps.push(s("poll", 0));
            steps.push(Step { op: "break_cl".into(), id: x, which: ["ready", "send", "flush"][(g % 3) as usize].into(), arg: 0, role: String::new() });
            steps.push(s("poll", 0));
            for i in [got + 1, got + 2] {
                steps.push(Step { op: "reply".into(), id: g, which: String::new(), arg: i, role: String::new() });
                steps.push(s("poll", 0));
            }
            got += 2;
        }
        // a replier that now and then sends something that cannot be routed (no tag, an unknown one, a mangled
        // one, a frame that is no message), two dozen times over its life, between good exchanges
        if g % 3 == 2 {
            for j in 0..24u64 {
                let tag = ["missing", "unknown", "malformed", "junk"][(j % 4) as usize];
                steps.push(Step { op: "bad_reply".into(), id: g, which: tag.into(), arg: 0, role: String::new() });
                steps.push(s("poll", 0));
                if j % 6 == 5 {
                    steps.push(Step { op: "request".into(), id: 1, which: "reqid".into(), arg: 1, role: String::new() });
                    steps.push(s("poll", 0));
                    got += 1;
                    steps.push(Step { op: "reply".into(), id: g, which: String::new(), arg: got, role: String::new() });
                    steps.push(s("poll", 0));
                }
            }
        }
        // ... and after all that an ordinary exchange
        steps.push(Step { op: "request".into(), id: 1 + g % 2, which: "reqid".into(), arg: 1, role: String::new() });
        steps.push(s("poll", 0));
        steps.push(Step { op: "reply".into(), id: g, which: String::new(), arg: got + 1, role: String::new() });
        steps.push(s("poll", 0));
        steps.push(s(if g % 3 == 0 { "sv_err" } else { "sv_end" }, g));
        steps.push(s("poll", 0));
    }
    Schedule { id: "marathon".into(), steps }
}

fn arg(args: &[String], name: &str) -> Option<String> {
    args.iter().position(|a| a == name).and_then(|i| args.get(i + 1).cloned())
}

struct NullLogger;
impl log::Log for NullLogger {
    fn enabled(&self, _: &log::Metadata) -> bool {
        true
    }
    fn log(&self, r: &log::Record) {
        // format the record (arguments with side effects or panicking Display impls are part of the code under test)
        let _ = std::hint::black_box(format!("{}", r.args()).len());
    }
    fn flush(&self) {}
}
static NULL_LOGGER: NullLogger = NullLogger;

fn main() {
    quiet_panics();
    let _ = log::set_logger(&NULL_LOGGER);
    let args: Vec<String> = std::env::args().collect();
    let out = arg(&args, "--out").expect("--out");
    let log = EvLog::to_file(&out).expect("open out");
    let seed: u64 = arg(&args, "--seed").and_then(|s| s.parse().ok()).unwrap_or_else(seed_from_env);
    let mut schedules: Vec<Schedule> = vec![];
    if let Some(f) = arg(&args, "--schedules") {
        let file = std::fs::File::open(&f).expect("open schedules");
        for line in std::io::BufReader::new(file).lines() {
            let line = line.unwrap();
            if line.trim().is_empty() {
                continue;
            }
            schedules.push(serde_json::from_str(&line).expect("schedule json"));
        }
    }
    if let Some(n) = arg(&args, "--random") {
        let n: u64 = n.parse().unwrap();
        let mut rng = StdRng::seed_from_u64(seed);
        let len = arg(&args, "--len").and_then(|s| s.parse().ok()).unwrap_or(40);
        for k in 0..n {
            schedules.push(random_schedule(&mut rng, k, len));
        }
        for _ in 0..(n / 4000).max(1) {
            schedules.push(marathon_schedule(&mut rng));
        }
    }
    if let Some(f) = arg(&args, "--save-schedules") {
        let mut w = std::io::BufWriter::new(std::fs::File::create(f).unwrap());
        for s in &schedules {
            writeln!(w, "{}", serde_json::to_string(s).unwrap()).unwrap();
        }
    }
    let mut dead = 0;
    let mut executed = 0usize;
    selium_verif_harness::start_watchdog(log.clone(), schedules.len());
    for (k, s) in schedules.iter().enumerate() {
        log.reset(k as u64 + 1, json!({"sched": s.id}));
        selium_verif_harness::CUR_RUN.store(k as u64 + 1, std::sync::atomic::Ordering::SeqCst);
        let mut run = Run::new(log.clone(), seed.wrapping_add(k as u64));
        // every fourth schedule runs with the clock jumping ahead between its steps (see router_pubsub)
        // The router logs what it does to failing peers.  Whether anybody listens must not matter: schedules
        // alternate between no logging at all (macro arguments are then not even evaluated) and everything on.
        log::set_max_level(if (k / 2) % 2 == 0 { log::LevelFilter::Off } else { log::LevelFilter::Trace });
        run.tick = match k % 8 {
            1 => Some(&[7, 7, 61, 7, 3601]),
            5 => Some(&[1, 2, 4, 8, 16, 32, 64, 128, 86_400]),
            _ => None,
        };
        run.run(s);
        executed = k + 1;
        // a change that makes the router spin or panic in a whole class of schedules makes each of them run into
        // the spin budget: after sixty such runs the verdicts are in, the rest is not run
        if run.dead {
            dead += 1;
            if dead >= 60 {
                break;
            }
        }
    }
    log.flush();
    let _: Option<Value> = None;
    println!("{}", json!({"runs": executed, "of": schedules.len(), "events": log.lines(), "dead": dead}));
}
