//! Conformance runs for the pure-function shaped code: back-off schedule (C13), topic names
//! (C07), wire framing and batches (C05), decoders on malformed input (C06, child process
//! with a counting allocator), payload pipeline (C14).  Every case comes from a TLC
//! enumeration of the corresponding TLA+ module (`--cases F`, one JSON object per line) and
//! every real outcome is written as an ndjson event for TLC trace validation.
use bytes::{Buf, BufMut, Bytes, BytesMut};
use rand::rngs::StdRng;
use rand::{Rng, RngCore, SeedableRng};
use selium::keep_alive::BackoffStrategy;
use selium_protocol::utils::{decode_message_batch, encode_message_batch};
use selium_protocol::*;
use selium_std::codecs::{BincodeCodec, BytesCodec, StringCodec};
use selium_std::compression::{brotli, deflate, lz4, zstd};
use selium_std::traits::codec::{MessageDecoder, MessageEncoder};
use selium_std::traits::compression::{Compress, CompressionLevel, Decompress};
use selium_verif_harness::evlog::EvLog;
use selium_verif_harness::*;
use serde::{Deserialize, Serialize};
use serde_json::{json, Value};
use std::alloc::{GlobalAlloc, Layout, System};
use std::collections::HashMap;
use std::io::{BufRead, Write};
use std::panic::{catch_unwind, AssertUnwindSafe};
use std::sync::atomic::{AtomicUsize, Ordering};
use std::time::Duration;
use tokio_util::codec::{Decoder, Encoder};

// ------------------------------------------------------------------ counting allocator
struct Counting;
static CUR: AtomicUsize = AtomicUsize::new(0);
static PEAK: AtomicUsize = AtomicUsize::new(0);
/// refuse single allocations above this size (reported as an allocation failure -> abort),
/// so that a 2^40-byte request does not take the machine down with it
const HARD_CAP: usize = 1 << 33;

unsafe impl GlobalAlloc for Counting {
    unsafe fn alloc(&self, l: Layout) -> *mut u8 {
        if l.size() > HARD_CAP {
            return std::ptr::null_mut();
        }
        let p = System.alloc(l);
        if !p.is_null() {
            let c = CUR.fetch_add(l.size(), Ordering::Relaxed) + l.size();
            PEAK.fetch_max(c, Ordering::Relaxed);
        }
        p
    }
    unsafe fn dealloc(&self, p: *mut u8, l: Layout) {
        System.dealloc(p, l);
        CUR.fetch_sub(l.size(), Ordering::Relaxed);
    }
    unsafe fn realloc(&self, p: *mut u8, l: Layout, new: usize) -> *mut u8 {
        if new > HARD_CAP {
            return std::ptr::null_mut();
        }
        let q = System.realloc(p, l, new);
        if !q.is_null() {
            if new >= l.size() {
                let c = CUR.fetch_add(new - l.size(), Ordering::Relaxed) + (new - l.size());
                PEAK.fetch_max(c, Ordering::Relaxed);
            } else {
                CUR.fetch_sub(l.size() - new, Ordering::Relaxed);
            }
        }
        q
    }
}
#[global_allocator]
static A: Counting = Counting;

fn alloc_mark() -> usize {
    let c = CUR.load(Ordering::Relaxed);
    PEAK.store(c, Ordering::Relaxed);
    c
}
fn alloc_peak_since(mark: usize) -> usize {
    PEAK.load(Ordering::Relaxed).saturating_sub(mark)
}

// ------------------------------------------------------------------ helpers
fn arg(args: &[String], name: &str) -> Option<String> {
    args.iter().position(|a| a == name).and_then(|i| args.get(i + 1).cloned())
}
fn read_cases(path: &str) -> Vec<Value> {
    let f = std::fs::File::open(path).expect("cases file");
    std::io::BufReader::new(f)
        .lines()
        .map(|l| l.unwrap())
        .filter(|l| !l.trim().is_empty())
        .map(|l| serde_json::from_str(&l).expect("case json"))
        .collect()
}
fn limbs(mut n: u128) -> Vec<u64> {
    let mut v = vec![];
    while n > 0 {
        v.push((n % 10000) as u64);
        n /= 10000;
    }
    v
}
fn rand_bytes(rng: &mut StdRng, n: usize) -> Vec<u8> {
    let mut v = vec![0u8; n];
    rng.fill_bytes(&mut v);
    v
}

// ------------------------------------------------------------------ C13 back-off
fn strategy(strat: &str, factor: u64) -> BackoffStrategy {
    match strat {
        "constant" => BackoffStrategy::constant(),
        "linear" => BackoffStrategy::linear(),
        _ => BackoffStrategy::exponential(factor),
    }
}

fn run_backoff_case(log: &EvLog, run: u64, strat: &str, step: Duration, factor: u64, att: u32, cap: Option<Duration>, exact: bool, draws: u32) {
    let step_ns = step.as_nanos();
    let cap_ns = cap.map(|c| c.as_nanos()).unwrap_or(0);
    if exact {
        log.emit("cfg", json!({"run": run, "strat": strat, "step": step_ns as u64, "factor": factor, "att": att,
            "capped": cap.is_some(), "cap": cap_ns as u64, "exact": true}));
    } else {
        log.emit("cfg", json!({"run": run, "strat": strat, "step": 0, "factor": 0, "att": att, "capped": cap.is_some(), "cap": 0,
            "exact": false, "stepL": limbs(step_ns), "factorL": limbs(factor as u128), "capL": limbs(cap_ns)}));
    }
    let r = catch_unwind(AssertUnwindSafe(|| {
        // the configuration is a record: the order of the builder calls must not matter
        let mut s = strategy(strat, factor);
        let order: [[u8; 3]; 6] = [[0, 1, 2], [0, 2, 1], [1, 0, 2], [1, 2, 0], [2, 0, 1], [2, 1, 0]];
        for call in order[(run % 6) as usize] {
            s = match call {
                0 => s.with_max_attempts(att),
                1 => s.with_step(step),
                _ => match cap {
                    Some(c) => s.with_max_duration(c),
                    None => s,
                },
            };
        }
        s.into_iter()
    }));
    let mut it = match r {
        Ok(it) => it,
        Err(e) => {
            log.emit("panic", json!({"msg": panic_message(&e)}));
            return;
        }
    };
    for _ in 0..draws {
        // the iterator's auxiliary protocol: what it announces about the rest of the schedule, asked
        // before every draw -- also on a schedule with no attempts and after the schedule has ended
        match catch_unwind(AssertUnwindSafe(|| it.size_hint())) {
            Ok((lo, hi)) => {
                let cl = |v: usize| v.min(2_000_000_000) as u64;
                log.emit("hint", json!({"lo": cl(lo), "bounded": hi.is_some(), "hi": cl(hi.unwrap_or(0))}));
            }
            Err(e) => {
                log.emit("panic", json!({"msg": panic_message(&e)}));
                return;
            }
        }
        match catch_unwind(AssertUnwindSafe(|| it.next())) {
            Ok(Some(a)) => {
                if exact {
                    log.emit("next", json!({"num": a.attempt_num, "max": a.max_attempts, "delay": a.duration.as_nanos() as u64}));
                } else {
                    log.emit("next", json!({"num": a.attempt_num, "max": a.max_attempts, "delayL": limbs(a.duration.as_nanos())}));
                }
            }
            Ok(None) => log.emit("none", json!({})),
            Err(e) => {
                log.emit("panic", json!({"msg": panic_message(&e)}));
                return;
            }
        }
    }
    log.emit("end", json!({}));
}

fn cmd_backoff(args: &[String]) {
    let log = EvLog::to_file(&arg(args, "--out").unwrap()).unwrap();
    let seed = arg(args, "--seed").and_then(|s| s.parse().ok()).unwrap_or_else(seed_from_env);
    let mut run = 0u64;
    if let Some(f) = arg(args, "--cases") {
        for c in read_cases(&f) {
            run += 1;
            let cap = if c["capped"].as_bool().unwrap() { Some(Duration::from_nanos(c["cap"].as_u64().unwrap())) } else { None };
            let att = c["att"].as_u64().unwrap() as u32;
            run_backoff_case(&log, run, c["strat"].as_str().unwrap(), Duration::from_nanos(c["step"].as_u64().unwrap()),
                c["factor"].as_u64().unwrap(), att, cap, true, att + 2);
        }
    }
    // large domain: boundary and seeded random configurations, recomputed exactly with BigNat
    let n: u64 = arg(args, "--large").and_then(|s| s.parse().ok()).unwrap_or(0);
    let mut rng = StdRng::seed_from_u64(seed);
    let steps = [Duration::ZERO, Duration::from_nanos(1), Duration::from_millis(1), Duration::from_secs(1),
        Duration::from_secs(86_400 * 365), Duration::new(u64::MAX / 3, 999_999_999), Duration::MAX];
    let factors = [0u64, 1, 2, 3, 10, 1 << 16, u32::MAX as u64, u64::MAX];
    let mut boundary: Vec<(String, Duration, u64, u32, Option<Duration>)> = vec![];
    for st in ["constant", "linear", "exponential"] {
        for s in steps {
            for f in factors {
                if st != "exponential" && f != 0 {
                    continue;
                }
                for cap in [None, Some(Duration::from_secs(30)), Some(Duration::ZERO), Some(Duration::MAX)] {
                    boundary.push((st.to_string(), s, f, if st == "exponential" { 70 } else { 12 }, cap));
                }
            }
        }
    }
    boundary.push(("exponential".into(), Duration::from_secs(1), 2, 2000, Some(Duration::from_secs(60))));
    boundary.push(("linear".into(), Duration::from_secs(1), 0, 3000, None));
    boundary.push(("exponential".into(), Duration::from_secs(2), 10, 25, None));
    for (k, (st, s, f, att, cap)) in boundary.into_iter().enumerate() {
        if (k as u64) >= n {
            break;
        }
        run += 1;
        run_backoff_case(&log, run, &st, s, f, att, cap, false, att + 2);
    }
    let n_rand = n.saturating_sub(300);
    for _ in 0..n_rand {
        run += 1;
        let st = ["constant", "linear", "exponential"][rng.gen_range(0..3)];
        let s = match rng.gen_range(0..4) {
            0 => Duration::from_nanos(rng.gen_range(0..1000)),
            1 => Duration::from_millis(rng.gen_range(0..100_000)),
            2 => Duration::from_secs(rng.gen()),
            _ => Duration::new(rng.gen::<u64>() >> rng.gen_range(0..40), rng.gen_range(0..1_000_000_000)),
        };
        let f = if st == "exponential" { rng.gen::<u64>() >> rng.gen_range(0..64) } else { 0 };
        let att = rng.gen_range(0..80);
        let cap = if rng.gen_bool(0.5) { Some(Duration::from_millis(rng.gen::<u64>() >> rng.gen_range(20..64))) } else { None };
        run_backoff_case(&log, run, st, s, f, att, cap, false, att + 2);
    }
    log.flush();
    println!("{}", json!({"runs": run, "events": log.lines()}));
}

// ------------------------------------------------------------------ C07 topic names
fn concretise(segs: &Value, rng: &mut StdRng) -> String {
    const W: &[u8] = b"abcdefghijklmnopqrtuvwxyzABCDEFGHIJKLMNOPQRTUVWXYZ0123456789_"; // no 's'/'S'
    const N: &[char] = &[' ', '!', '.', '\0', '\n', '@', '+', '~', '\t', '\\'];
    const WM: &[char] = &['é', '中', 'ñ', 'д', '٣', 'ß', 'あ'];
    const NM: &[char] = &['€', '😀', '→', '’', '\u{a0}', '\u{2028}'];
    const RV: &[&str] = &["Selium", "SELIUM", "sElium", "seLium"];
    let mut s = String::new();
    for g in segs.as_array().unwrap() {
        let n = g["n"].as_u64().unwrap();
        match g["c"].as_str().unwrap() {
            "S" => (0..n).for_each(|_| s.push('/')),
            "D" => (0..n).for_each(|_| s.push('-')),
            "W" => (0..n).for_each(|_| s.push(W[rng.gen_range(0..W.len())] as char)),
            "N" => (0..n).for_each(|_| s.push(N[rng.gen_range(0..N.len())])),
            "WM" => (0..n).for_each(|_| s.push(WM[rng.gen_range(0..WM.len())])),
            "NM" => (0..n).for_each(|_| s.push(NM[rng.gen_range(0..NM.len())])),
            "R" => s.push_str("selium"),
            "RV" => s.push_str(RV[rng.gen_range(0..RV.len())]),
            _ => {}
        }
    }
    s
}

fn cmd_topic(args: &[String]) {
    let log = EvLog::to_file(&arg(args, "--out").unwrap()).unwrap();
    let seed = arg(args, "--seed").and_then(|s| s.parse().ok()).unwrap_or_else(seed_from_env);
    let reps: u64 = arg(args, "--reps").and_then(|s| s.parse().ok()).unwrap_or(1);
    let mut rng = StdRng::seed_from_u64(seed);
    let cases = read_cases(&arg(args, "--cases").unwrap());
    let mut k = 0u64;
    for _ in 0..reps {
        for c in &cases {
            k += 1;
            let s = concretise(&c["segs"], &mut rng);
            let r = catch_unwind(AssertUnwindSafe(|| TopicName::try_from(s.as_str())));
            let (res, printed_eq) = match r {
                Ok(Ok(t)) => ("accept", t.to_string() == s),
                Ok(Err(_)) => ("reject", false),
                Err(_) => ("panic", false),
            };
            log.emit("parse", json!({"case": k, "api": "try_from", "segs": c["segs"], "ns": c["ns"], "tp": c["tp"],
                "res": res, "printed_eq": printed_eq, "input": s.chars().take(80).collect::<String>()}));
            if c["shape"] == "std" {
                let ns = concretise(&c["ns"], &mut rng);
                let tp = concretise(&c["tp"], &mut rng);
                let r = catch_unwind(AssertUnwindSafe(|| TopicName::create(&ns, &tp)));
                let res = match r {
                    Ok(Ok(_)) => "accept",
                    Ok(Err(_)) => "reject",
                    Err(_) => "panic",
                };
                log.emit("parse", json!({"case": k, "api": "create", "segs": c["segs"], "ns": c["ns"], "tp": c["tp"],
                    "res": res, "printed_eq": false}));
                // what the server applies to a name that arrived on the wire
                let r = catch_unwind(AssertUnwindSafe(|| {
                    let t = TopicName::_create_unchecked(&ns, &tp);
                    let bytes = bincode::serialize(&t).unwrap();
                    let back: TopicName = bincode::deserialize(&bytes).unwrap();
                    back.is_valid()
                }));
                let res = match r {
                    Ok(true) => "accept",
                    Ok(false) => "reject",
                    Err(_) => "panic",
                };
                log.emit("parse", json!({"case": k, "api": "is_valid", "segs": c["segs"], "ns": c["ns"], "tp": c["tp"],
                    "res": res, "printed_eq": false}));
                // The grammar is a function of the name: what the validator was asked before must not
                // matter.  The same words are validated in the opposite roles (and next to neutral
                // partners), then the case is decided again.
                let _ = catch_unwind(AssertUnwindSafe(|| {
                    let _ = TopicName::create(&tp, &ns);
                    let _ = TopicName::_create_unchecked(&tp, &ns).is_valid();
                    let _ = TopicName::create("neutral", &ns);
                    let _ = TopicName::create(&tp, "neutral");
                    let _ = TopicName::try_from(format!("/{tp}/{ns}").as_str());
                }));
                let r = catch_unwind(AssertUnwindSafe(|| TopicName::create(&ns, &tp)));
                let res = match r {
                    Ok(Ok(_)) => "accept",
                    Ok(Err(_)) => "reject",
                    Err(_) => "panic",
                };
                log.emit("parse", json!({"case": k, "api": "create", "segs": c["segs"], "ns": c["ns"], "tp": c["tp"],
                    "res": res, "printed_eq": false, "history": "after_opposite_roles"}));
                let r = catch_unwind(AssertUnwindSafe(|| TopicName::_create_unchecked(&ns, &tp).is_valid()));
                let res = match r {
                    Ok(true) => "accept",
                    Ok(false) => "reject",
                    Err(_) => "panic",
                };
                log.emit("parse", json!({"case": k, "api": "is_valid", "segs": c["segs"], "ns": c["ns"], "tp": c["tp"],
                    "res": res, "printed_eq": false, "history": "after_opposite_roles"}));
            }
        }
    }
    log.flush();
    println!("{}", json!({"runs": k, "events": log.lines()}));
}

// ------------------------------------------------------------------ C05 framing
const MAX: usize = 1024 * 1024;

fn rand_topic(rng: &mut StdRng) -> TopicName {
    let mut part = |rng: &mut StdRng| -> String {
        let n = rng.gen_range(3..=64);
        (0..n).map(|_| b"abcdefghijklmnopqrtuvwxyz0123456789_-"[rng.gen_range(0..37)] as char).collect()
    };
    // The wire format carries any pair of strings (the validity of a name is the server's business,
    // C07): names outside the grammar must round-trip like any other
    if rng.gen_bool(0.35) {
        let odd: [(&str, &str); 8] = [("selium", "proxy"), ("ab", "x"), ("name space", "t!"), ("", ""), ("é€", "topic"),
            ("seliumfoo", "bar"), ("namespace", "x/y/z"), ("n", "")];
        let (a, b) = odd[rng.gen_range(0..8)];
        if rng.gen_bool(0.2) {
            return TopicName::_create_unchecked(&"n".repeat(rng.gen_range(65..200)), b);
        }
        return TopicName::_create_unchecked(a, b);
    }
    let a = part(rng);
    let b = part(rng);
    TopicName::create(&a, &b).unwrap_or_else(|_| TopicName::create("aaa", "bbb").unwrap())
}
fn rand_headers(rng: &mut StdRng) -> Option<HashMap<String, String>> {
    if rng.gen_bool(0.4) {
        return None;
    }
    let mut h = HashMap::new();
    for _ in 0..rng.gen_range(0..4) {
        // header names and values are arbitrary strings: include multi-byte characters
        let deco = ["", "é", "中文", "naïve-€", "\u{1F600}", "ß∂"][rng.gen_range(0..6)];
        if rng.gen_bool(0.5) {
            h.insert(format!("k{}{}", rng.gen::<u16>(), deco), format!("v{}", rng.gen::<u32>()));
        } else {
            h.insert(format!("k{}", rng.gen::<u16>()), format!("{}v{}{}", deco, rng.gen::<u32>(), deco));
        }
    }
    Some(h)
}
fn rand_ops(rng: &mut StdRng) -> Vec<Operation> {
    (0..rng.gen_range(0..3))
        .map(|i| if i % 2 == 0 { Operation::Map(format!("/m/{}é", rng.gen::<u16>())) } else { Operation::Filter(format!("/f/中{}", rng.gen::<u16>())) })
        .collect()
}
/// a real frame whose payload length is 0 (abstract 0), exactly `target` (abstract MaxLen maps to
/// 1 MiB, mid classes to mid sizes) or its natural small size
fn make_frame(rng: &mut StdRng, kind: usize, target: Option<usize>) -> Frame {
    match target {
        Some(0) => {
            if kind % 2 == 0 {
                Frame::Ok
            } else {
                Frame::BatchMessage(Bytes::new())
            }
        }
        // a frame of every kind with a payload of exactly t bytes (the limit is the same for all of them)
        Some(t) if t >= 64 && kind % 6 >= 2 => {
            let name = |n: usize| TopicName::_create_unchecked("abc", &"t".repeat(n));
            match kind % 6 {
                // two length-prefixed strings (8 + 3 + 8 + n), retention policy (8), operations count (8)
                2 => Frame::RegisterPublisher(PublisherPayload { topic: name(t - 35), retention_policy: rng.gen(), operations: vec![] }),
                3 => Frame::RegisterSubscriber(SubscriberPayload { topic: name(t - 35), retention_policy: rng.gen(), operations: vec![] }),
                4 => {
                    if rng.gen_bool(0.5) {
                        Frame::RegisterReplier(ReplierPayload { topic: name(t - 19) })
                    } else {
                        Frame::RegisterRequestor(RequestorPayload { topic: name(t - 19) })
                    }
                }
                // code (4), length-prefixed message (8 + n)
                _ => Frame::Error(ErrorPayload { code: rng.gen(), message: Bytes::from(rand_bytes(rng, t - 12)) }),
            }
        }
        Some(t) if t >= 9 && kind % 2 == 0 => {
            // bincode(MessagePayload{None, body}) = 1 + 8 + body
            Frame::Message(MessagePayload { headers: None, message: Bytes::from(rand_bytes(rng, t - 9)) })
        }
        Some(t) => Frame::BatchMessage(Bytes::from(rand_bytes(rng, t))),
        None => match kind % 7 {
            0 => Frame::RegisterPublisher(PublisherPayload { topic: rand_topic(rng), retention_policy: rng.gen(), operations: rand_ops(rng) }),
            1 => Frame::RegisterSubscriber(SubscriberPayload { topic: rand_topic(rng), retention_policy: rng.gen(), operations: rand_ops(rng) }),
            2 => Frame::RegisterReplier(ReplierPayload { topic: rand_topic(rng) }),
            3 => Frame::RegisterRequestor(RequestorPayload { topic: rand_topic(rng) }),
            4 => {
                let n = rng.gen_range(0..200);
                Frame::Message(MessagePayload { headers: rand_headers(rng), message: Bytes::from(rand_bytes(rng, n)) })
            }
            5 => {
                let msgs: Vec<Bytes> = (0..rng.gen_range(0..4)).map(|_| { let n = rng.gen_range(0..50); Bytes::from(rand_bytes(rng, n)) }).collect();
                Frame::BatchMessage(encode_message_batch(msgs))
            }
            _ => {
                let n = rng.gen_range(0..60);
                Frame::Error(ErrorPayload { code: rng.gen(), message: Bytes::from(rand_bytes(rng, n)) })
            }
        },
    }
}

fn cmd_framing(args: &[String]) {
    let log = EvLog::to_file(&arg(args, "--out").unwrap()).unwrap();
    let seed = arg(args, "--seed").and_then(|s| s.parse().ok()).unwrap_or_else(seed_from_env);
    let abs_max: u64 = arg(args, "--abs-max").and_then(|s| s.parse().ok()).unwrap_or(2);
    let mut rng = StdRng::seed_from_u64(seed);
    let cases = read_cases(&arg(args, "--cases").unwrap());
    let mut run = 0u64;
    for c in &cases {
        run += 1;
        let fs = c["frames"].as_array().unwrap();
        // build the real wire
        let mut wire = BytesMut::new();
        let mut originals: Vec<Option<Frame>> = vec![];
        let mut real_frames: Vec<Value> = vec![];
        let mut regions: Vec<(u64, u64, usize, usize)> = vec![]; // abs start, abs body, real start, real body
        let mut abs_off = 0u64;
        for (i, f) in fs.iter().enumerate() {
            let decl = f["decl"].as_u64().unwrap();
            let body = f["body"].as_u64().unwrap();
            let ok = f["ok"].as_str().unwrap();
            let real_start = wire.len();
            if decl > abs_max {
                // adversarial prefix, `body` trailing bytes
                let p: u64 = [MAX as u64 + 1, 1 << 32, 1 << 40, u64::MAX][(run as usize + i) % 4];
                wire.put_u64(p);
                wire.put_u8(0x4);
                wire.extend_from_slice(&rand_bytes(&mut rng, body as usize));
                originals.push(None);
                real_frames.push(json!({"decl": MAX + 1, "body": body, "ok": "ok"}));
                regions.push((abs_off, body, real_start, body as usize));
            } else {
                let target = if decl == 0 { Some(0) } else if decl == abs_max { Some(MAX) } else if decl == 1 { None } else { Some(1000 * decl as usize) };
                let frame = make_frame(&mut rng, run as usize + i, target);
                let before = wire.len();
                let r = catch_unwind(AssertUnwindSafe(|| MessageCodec.encode(frame.clone(), &mut wire)));
                let written = wire.len() - before;
                let plen = written.saturating_sub(9);
                let prefix_ok = written >= 9 && u64::from_be_bytes(wire[before..before + 8].try_into().unwrap()) == plen as u64;
                let res = match &r {
                    Ok(Ok(())) => "ok",
                    Ok(Err(_)) => "err",
                    Err(_) => "panic",
                };
                log.emit("enc", json!({"run": run, "kind": frame.get_type(), "len": plen, "res": res, "prefix_ok": prefix_ok, "written": written}));
                match ok {
                    "badtype" => {
                        wire[before + 8] = 0x08 + (run % 200) as u8;
                        originals.push(None);
                    }
                    "badbody" => {
                        // keep the length, make it a Message whose body is not valid bincode
                        wire[before + 8] = 0x4;
                        for b in wire[before + 9..].iter_mut() {
                            *b = 0x02;
                        }
                        originals.push(None);
                    }
                    _ => originals.push(Some(frame)),
                }
                real_frames.push(json!({"decl": plen, "body": plen, "ok": ok}));
                regions.push((abs_off, body, real_start, plen));
            }
            abs_off += 9 + body;
        }
        log.emit("case", json!({"run": run, "frames": real_frames}));
        // map the abstract cut points onto the real wire
        let map = |a: u64| -> usize {
            for (as_, ab, rs, rb) in &regions {
                if a >= *as_ && a <= as_ + 9 + ab {
                    let d = a - as_;
                    return if d <= 9 { rs + d as usize } else { rs + 9 + ((d - 9) as u128 * *rb as u128 / *ab as u128) as usize };
                }
            }
            wire.len()
        };
        let mut cuts: Vec<usize> = vec![];
        let mut acc = 0u64;
        for n in c["feeds"].as_array().unwrap() {
            acc += n.as_u64().unwrap();
            cuts.push(map(acc));
        }
        if cuts.last().copied() != Some(wire.len()) {
            cuts.push(wire.len());
        }
        let wire = wire.freeze();
        let mut codec = MessageCodec;
        let mut buf = BytesMut::new();
        let mut pos = 0usize;
        let mut k = 0usize;
        let mut dead = false;
        for cut in cuts {
            if cut <= pos || dead {
                continue;
            }
            buf.extend_from_slice(&wire[pos..cut]);
            log.emit("feed", json!({"n": cut - pos}));
            pos = cut;
            loop {
                let before = buf.len();
                let r = catch_unwind(AssertUnwindSafe(|| codec.decode(&mut buf)));
                let cap = buf.capacity();
                match r {
                    Ok(Ok(None)) => {
                        log.emit("dec", json!({"res": "none", "k": 0, "eq": false, "consumed": 0, "buf": buf.len(), "cap": cap}));
                        break;
                    }
                    Ok(Ok(Some(f))) => {
                        k += 1;
                        let eq = originals.get(k - 1).map(|o| o.as_ref() == Some(&f)).unwrap_or(false);
                        log.emit("dec", json!({"res": "frame", "k": k, "eq": eq, "consumed": before - buf.len(), "buf": buf.len(), "cap": cap}));
                    }
                    Ok(Err(e)) => {
                        let too = matches!(e, selium_std::errors::SeliumError::Protocol(selium_std::errors::ProtocolError::PayloadTooLarge(_, _)));
                        log.emit("dec", json!({"res": if too { "toolarge" } else { "err" }, "k": k + 1, "eq": false, "consumed": before - buf.len(), "buf": buf.len(), "cap": cap}));
                        dead = true;
                        break;
                    }
                    Err(e) => {
                        log.emit("dec", json!({"res": "panic", "k": 0, "eq": false, "consumed": 0, "buf": 0, "cap": 0, "msg": panic_message(&e)}));
                        dead = true;
                        break;
                    }
                }
            }
        }
        log.emit("end", json!({}));
    }
    // encoder limit both sides of 1 MiB, and message-list batches
    for (i, len) in [MAX - 1, MAX, MAX + 1, MAX + 4096, 2 * MAX].into_iter().enumerate() {
        for kind in 0..2 {
            let frame = make_frame(&mut rng, kind, Some(len));
            let mut dst = BytesMut::new();
            let r = catch_unwind(AssertUnwindSafe(|| MessageCodec.encode(frame, &mut dst)));
            let written = dst.len();
            let prefix_ok = written >= 9 && u64::from_be_bytes(dst[0..8].try_into().unwrap()) == (written - 9) as u64;
            let res = match r {
                Ok(Ok(())) => "ok",
                Ok(Err(selium_std::errors::SeliumError::Protocol(selium_std::errors::ProtocolError::PayloadTooLarge(_, _)))) => "toolarge",
                Ok(Err(_)) => "err",
                Err(_) => "panic",
            };
            log.emit("enc", json!({"run": 0, "kind": i, "len": len, "res": res, "prefix_ok": prefix_ok, "written": written}));
        }
    }
    for n in 0..5usize {
        for sz in [0usize, 1, 300, 70_000] {
            let msgs: Vec<Bytes> = (0..n).map(|j| Bytes::from(rand_bytes(&mut rng, if j % 2 == 0 { sz } else { sz / 2 }))).collect();
            let r = catch_unwind(AssertUnwindSafe(|| decode_message_batch(encode_message_batch(msgs.clone())).into_res()));
            let res = match r {
                Ok(Ok(back)) => if back == msgs { "eq" } else { "neq" },
                Ok(Err(_)) => "err",
                Err(_) => "panic",
            };
            log.emit("batch", json!({"n": n, "size": sz, "res": res}));
        }
    }
    log.flush();
    println!("{}", json!({"runs": run, "events": log.lines()}));
}

// ------------------------------------------------------------------ C06 decoders
#[derive(Serialize, Deserialize, Clone, Debug, PartialEq)]
struct Sample {
    name: String,
    id: u64,
    tags: Vec<String>,
    blob: Vec<u8>,
}

fn size_n(size: &str) -> usize {
    match size {
        "tiny" => 3,
        "small" => 200,
        _ => 20_000,
    }
}

fn comp_for(stage: &str) -> Option<(Box<dyn Compress>, Box<dyn Decompress>)> {
    Some(match stage {
        "gzip" | "sub_gzip_batch" => (Box::new(deflate::DeflateComp::gzip()), Box::new(deflate::DeflateDecomp::gzip())),
        "zlib" => (Box::new(deflate::DeflateComp::zlib()), Box::new(deflate::DeflateDecomp::zlib())),
        "zstd" | "sub_zstd_batch" => (Box::new(zstd::ZstdComp::new()), Box::new(zstd::ZstdDecomp)),
        "lz4" | "sub_lz4" => (Box::new(lz4::Lz4Comp), Box::new(lz4::Lz4Decomp)),
        "brotli" | "sub_brotli_batch" => (Box::new(brotli::BrotliComp::text()), Box::new(brotli::BrotliDecomp)),
        _ => return None,
    })
}

/// the valid encoding for a stage, and a closure-free tag of what it should decode to
fn valid_input(stage: &str, size: &str, rng: &mut StdRng) -> (Vec<u8>, Value) {
    let n = size_n(size);
    let text: String = (0..n).map(|i| (b'a' + (i % 26) as u8) as char).collect();
    let sample = Sample { name: text.clone(), id: 42, tags: vec!["x".into(); n.min(50)], blob: rand_bytes(rng, n) };
    match stage {
        "frame" | "frame_stream" => {
            let f = Frame::Message(MessagePayload { headers: rand_headers(rng), message: Bytes::from(rand_bytes(rng, n)) });
            let mut b = BytesMut::new();
            MessageCodec.encode(f, &mut b).unwrap();
            (b.to_vec(), json!(null))
        }
        "batch" => {
            let msgs: Vec<Bytes> = (0..3).map(|_| Bytes::from(rand_bytes(rng, n))).collect();
            (encode_message_batch(msgs).to_vec(), json!(null))
        }
        "string" => (text.clone().into_bytes(), json!(null)),
        "bytes" => (rand_bytes(rng, n), json!(null)),
        "bincode_struct" => (bincode::serialize(&sample).unwrap(), json!(null)),
        "bincode_vec" => (bincode::serialize(&vec![7u64; n]).unwrap(), json!(null)),
        "bincode_string" => (bincode::serialize(&text).unwrap(), json!(null)),
        "gzip" | "zlib" | "zstd" | "lz4" | "brotli" => {
            let (c, _) = comp_for(stage).unwrap();
            (c.compress(Bytes::from(text.into_bytes())).unwrap().to_vec(), json!(null))
        }
        "sub_plain" => (text.into_bytes(), json!(null)),
        "sub_batch" => {
            let msgs: Vec<Bytes> = (0..3).map(|i| Bytes::from(format!("{text}{i}"))).collect();
            (encode_message_batch(msgs).to_vec(), json!(null))
        }
        _ => {
            // sub_<algo>[_batch]: compressed (batch of) strings
            let (c, _) = comp_for(stage).unwrap();
            let inner = if stage.ends_with("_batch") {
                encode_message_batch((0..3).map(|i| Bytes::from(format!("{text}{i}"))).collect())
            } else {
                Bytes::from(text.into_bytes())
            };
            (c.compress(inner).unwrap().to_vec(), json!(null))
        }
    }
}

fn mutate(stage: &str, mutn: &str, mut v: Vec<u8>, rng: &mut StdRng) -> Vec<u8> {
    let put_u64_at = |v: &mut Vec<u8>, at: usize, x: u64| {
        if v.len() < at + 8 {
            v.resize(at + 8, 0);
        }
        v[at..at + 8].copy_from_slice(&x.to_be_bytes());
    };
    // bincode uses little endian fixed ints; frames and batches big endian
    let le = stage.starts_with("bincode");
    let first_len_at = match stage {
        "bincode_struct" | "bincode_vec" | "bincode_string" => 0,
        _ => 0,
    };
    let set_len = |v: &mut Vec<u8>, x: u64| {
        if v.len() < first_len_at + 8 {
            v.resize(first_len_at + 8, 0);
        }
        let b = if le { x.to_le_bytes() } else { x.to_be_bytes() };
        v[first_len_at..first_len_at + 8].copy_from_slice(&b);
    };
    match mutn {
        "valid" => {}
        "empty" => v.clear(),
        "truncate_1" => v.truncate(1.min(v.len())),
        "truncate_half" => v.truncate(v.len() / 2),
        "truncate_last" => {
            let n = v.len().saturating_sub(1);
            v.truncate(n)
        }
        "flip_first" => {
            if !v.is_empty() {
                v[0] ^= 0x80
            }
        }
        "flip_mid" => {
            if !v.is_empty() {
                let i = v.len() / 2;
                v[i] ^= 1 << rng.gen_range(0..8)
            }
        }
        "flip_last" => {
            if let Some(b) = v.last_mut() {
                *b ^= 0x01
            }
        }
        "garbage_small" => v = rand_bytes(rng, 17),
        "garbage_big" => v = rand_bytes(rng, 70_000),
        "append_junk" => v.extend_from_slice(&rand_bytes(rng, 33)),
        "stray_1" => v.extend_from_slice(&[0u8]),
        "stray_3" => v.extend_from_slice(&[0u8, 0, 1]),
        "stray_7" => v.extend_from_slice(&[0u8, 0, 0, 0, 0, 0, 2]),
        // the complete header of a next frame (length marker and type byte: the decoder judges a header once
        // both are there) announcing more than the limit
        "next_len_2p30" | "next_len_2p63" | "next_len_max" => {
            let len = match mutn {
                "next_len_2p30" => 1u64 << 30,
                "next_len_2p63" => 1u64 << 63,
                _ => u64::MAX,
            };
            v.extend_from_slice(&len.to_be_bytes());
            v.push(v.get(8).copied().unwrap_or(4));
        }
        "len_2p32" => set_len(&mut v, 1 << 32),
        "len_2p40" => set_len(&mut v, 1 << 40),
        "len_2p61" => set_len(&mut v, 1 << 61),
        "len_max" => set_len(&mut v, u64::MAX),
        // batch layout: count, then (len, bytes)*
        "count_huge" => put_u64_at(&mut v, 0, [1u64 << 32, 1 << 61, u64::MAX][rng.gen_range(0..3)]),
        "count_plus_one" => {
            let c = if v.len() >= 8 { u64::from_be_bytes(v[0..8].try_into().unwrap()) } else { 0 };
            put_u64_at(&mut v, 0, c + 1)
        }
        "elem_len_over" => {
            let rest = v.len().saturating_sub(16) as u64;
            put_u64_at(&mut v, 8, rest + 1)
        }
        "elem_len_max" => put_u64_at(&mut v, 8, [1u64 << 40, u64::MAX][rng.gen_range(0..2)]),
        "short_header" => v.truncate(rng.gen_range(0..8)),
        "declared_size_huge" => {
            // zstd frame: magic | descriptor 0xC0 (8-byte content size, no single segment) | window
            // descriptor | content size (LE) | one empty last raw block
            let size: u64 = [256u64 << 20, 1 << 32, 1 << 40, 1 << 63][rng.gen_range(0..4)];
            v = vec![0x28, 0xB5, 0x2F, 0xFD, 0xC0, 0x00];
            v.extend_from_slice(&size.to_le_bytes());
            v.extend_from_slice(&[0x01, 0x00, 0x00]);
        }
        _ => {}
    }
    v
}

/// runs one stage on `input`; returns (outcome, outlen, eq-with-valid-decoding)
/// what a stateful decoding object is fed before the input of the case (its answer is not judged here: the
/// same input is a case of its own on a fresh object)
fn spoil(d: &dyn Decompress, prior: &str, valid: &[u8]) {
    let bad: Vec<u8> = match prior {
        "after_corrupt" => {
            // damaged in the middle and at the end (check sums), so that a good part is consumed first
            let mut v = valid.to_vec();
            let n = v.len();
            if n > 0 {
                v[n / 2] ^= 0x5a;
                v[n - 1] ^= 0xff;
                if n > 12 {
                    v[n * 3 / 4] ^= 0x81;
                }
            }
            v
        }
        "after_short" => valid[..valid.len() * 2 / 3].to_vec(),
        _ => return,
    };
    let _ = catch_unwind(AssertUnwindSafe(|| d.decompress(Bytes::from(bad)).map(|b| b.len())));
}

fn run_stage(stage: &str, input: &[u8], valid: &[u8], prior: &str) -> (&'static str, usize, bool) {
    fn res<T: PartialEq>(r: std::thread::Result<Result<T, String>>, reference: Option<T>, len: impl Fn(&T) -> usize) -> (&'static str, usize, bool) {
        match r {
            Ok(Ok(v)) => ("ok", len(&v), reference.map(|r| r == v).unwrap_or(true)),
            Ok(Err(_)) => ("err", 0, false),
            Err(_) => ("panic", 0, false),
        }
    }
    let same = input == valid;
    match stage {
        "frame" => {
            let dec = |b: &[u8]| -> Result<Vec<Frame>, String> {
                let mut buf = BytesMut::from(b);
                let mut out = vec![];
                let mut c = MessageCodec;
                while let Some(f) = c.decode(&mut buf).map_err(|e| e.to_string())? {
                    out.push(f);
                }
                Ok(out)
            };
            let reference = if same { dec(valid).ok() } else { None };
            res(catch_unwind(AssertUnwindSafe(|| dec(input))), reference, |v| v.iter().map(|f| f.get_length().unwrap_or(0) as usize).sum())
        }
        "frame_stream" => {
            // the framed reader over a byte source that ends: what the server and the client run
            let dec = |b: &[u8]| -> Result<Vec<Frame>, String> {
                let mut rd = tokio_util::codec::FramedRead::new(b, MessageCodec);
                let mut out = vec![];
                futures::executor::block_on(async {
                    use futures::StreamExt;
                    while let Some(f) = rd.next().await {
                        out.push(f.map_err(|e| e.to_string())?);
                    }
                    Ok::<(), String>(())
                })?;
                Ok(out)
            };
            let reference = if same { dec(valid).ok() } else { None };
            res(catch_unwind(AssertUnwindSafe(|| dec(input))), reference, |v| v.iter().map(|f| f.get_length().unwrap_or(0) as usize).sum())
        }
        "batch" => {
            let dec = |b: &[u8]| decode_message_batch(Bytes::copy_from_slice(b)).into_res();
            let reference = if same { dec(valid).ok() } else { None };
            res(catch_unwind(AssertUnwindSafe(|| dec(input))), reference, |v| v.iter().map(|m| m.len()).sum())
        }
        "string" => {
            let dec = |b: &[u8]| StringCodec.decode(&mut BytesMut::from(b)).map_err(|e| e.to_string());
            let reference = if same { String::from_utf8(valid.to_vec()).ok() } else { None };
            res(catch_unwind(AssertUnwindSafe(|| dec(input))), reference, |v| v.len())
        }
        "bytes" => {
            let dec = |b: &[u8]| BytesCodec.decode(&mut BytesMut::from(b)).map_err(|e| e.to_string());
            res(catch_unwind(AssertUnwindSafe(|| dec(input))), if same { Some(valid.to_vec()) } else { None }, |v| v.len())
        }
        "bincode_struct" => {
            let dec = |b: &[u8]| BincodeCodec::<Sample>::default().decode(&mut BytesMut::from(b)).map_err(|e| e.to_string());
            let reference = if same { bincode::deserialize::<Sample>(valid).ok() } else { None };
            res(catch_unwind(AssertUnwindSafe(|| dec(input))), reference, |v| v.name.len() + v.blob.len() + v.tags.len() * 24)
        }
        "bincode_vec" => {
            let dec = |b: &[u8]| BincodeCodec::<Vec<u64>>::default().decode(&mut BytesMut::from(b)).map_err(|e| e.to_string());
            let reference = if same { bincode::deserialize::<Vec<u64>>(valid).ok() } else { None };
            res(catch_unwind(AssertUnwindSafe(|| dec(input))), reference, |v| v.len() * 8)
        }
        "bincode_string" => {
            let dec = |b: &[u8]| BincodeCodec::<String>::default().decode(&mut BytesMut::from(b)).map_err(|e| e.to_string());
            let reference = if same { bincode::deserialize::<String>(valid).ok() } else { None };
            res(catch_unwind(AssertUnwindSafe(|| dec(input))), reference, |v| v.len())
        }
        "gzip" | "zlib" | "zstd" | "lz4" | "brotli" => {
            let (_, d) = comp_for(stage).unwrap();
            spoil(d.as_ref(), prior, valid);
            let r = catch_unwind(AssertUnwindSafe(|| d.decompress(Bytes::copy_from_slice(input)).map_err(|e| e.to_string())));
            res(r, None, |v| v.len())
        }
        _ => {
            // the subscriber's composition: [decompress] -> [unbatch] -> decode (StringCodec)
            let d = comp_for(stage).map(|x| x.1);
            if let Some(d) = &d {
                spoil(d.as_ref(), prior, valid);
            }
            let batched = stage.ends_with("_batch") || stage == "sub_batch";
            let run = |b: &[u8]| -> Result<Vec<String>, String> {
                let mut bytes = Bytes::copy_from_slice(b);
                if let Some(d) = &d {
                    bytes = d.decompress(bytes).map_err(|e| e.to_string())?;
                }
                let parts = if batched { decode_message_batch(bytes).into_res()? } else { vec![bytes] };
                parts.into_iter().map(|p| StringCodec.decode(&mut BytesMut::from(&p[..])).map_err(|e| e.to_string())).collect()
            };
            let reference = if same { run(valid).ok() } else { None };
            res(catch_unwind(AssertUnwindSafe(|| run(input))), reference, |v| v.iter().map(|s| s.len()).sum())
        }
    }
}

/// child: runs cases [from, to) and prints one JSON line per case as soon as it is done
fn cmd_decode_child(args: &[String]) {
    quiet_panics();
    let cases = read_cases(&arg(args, "--cases").unwrap());
    let from: usize = arg(args, "--from").unwrap().parse().unwrap();
    let seed: u64 = arg(args, "--seed").and_then(|s| s.parse().ok()).unwrap_or(1);
    let out = std::io::stdout();
    for (i, c) in cases.iter().enumerate().skip(from) {
        let stage = c["stage"].as_str().unwrap();
        let mutn = c["mut"].as_str().unwrap();
        let size = c["size"].as_str().unwrap();
        let mut rng = StdRng::seed_from_u64(seed.wrapping_mul(1_000_003).wrapping_add(i as u64));
        let (valid, _) = valid_input(stage, size, &mut rng);
        let structural = matches!(mutn, "count_huge" | "count_plus_one" | "elem_len_over" | "elem_len_max" | "short_header");
        let input = if structural && stage.starts_with("sub_") && stage != "sub_batch" {
            // damage the batch structure *inside* the compressed payload
            let (comp, dec) = comp_for(stage).unwrap();
            let inner = dec.decompress(Bytes::from(valid.clone())).unwrap().to_vec();
            let damaged = mutate("batch", mutn, inner, &mut rng);
            comp.compress(Bytes::from(damaged)).unwrap().to_vec()
        } else {
            mutate(stage, mutn, valid.clone(), &mut rng)
        };
        {
            let mut o = out.lock();
            writeln!(o, "{}", json!({"start": i})).unwrap();
            o.flush().unwrap();
        }
        let mark = alloc_mark();
        let t = std::time::Instant::now();
        let prior = c["prior"].as_str().unwrap_or("fresh");
        let (outcome, outlen, eq) = run_stage(stage, &input, &valid, prior);
        let alloc = alloc_peak_since(mark);
        let mut o = out.lock();
        writeln!(o, "{}", json!({"done": i, "stage": stage, "mut": mutn, "size": size, "prior": prior, "inlen": input.len(), "outlen": outlen,
            "outcome": outcome, "eq": eq, "alloc": alloc, "ms": t.elapsed().as_millis() as u64})).unwrap();
        o.flush().unwrap();
    }
}

fn cmd_decode(args: &[String]) {
    let log = EvLog::to_file(&arg(args, "--out").unwrap()).unwrap();
    let seed = arg(args, "--seed").and_then(|s| s.parse().ok()).unwrap_or_else(seed_from_env);
    let cases_path = arg(args, "--cases").unwrap();
    let cases = read_cases(&cases_path);
    let exe = std::env::current_exe().unwrap();
    let mut next = 0usize;
    let mut children = 0;
    while next < cases.len() {
        children += 1;
        let out = std::process::Command::new(&exe)
            .args(["decode-child", "--cases", &cases_path, "--from", &next.to_string(), "--seed", &seed.to_string()])
            .stderr(std::process::Stdio::null())
            .output()
            .expect("spawn child");
        let mut started: Option<usize> = None;
        for line in String::from_utf8_lossy(&out.stdout).lines() {
            let v: Value = match serde_json::from_str(line) {
                Ok(v) => v,
                Err(_) => continue,
            };
            if let Some(s) = v.get("start").and_then(|x| x.as_u64()) {
                started = Some(s as usize);
            } else if let Some(d) = v.get("done").and_then(|x| x.as_u64()) {
                let mut o = v.clone();
                o["case"] = json!(d + 1);
                log.emit("stage", o);
                started = None;
                next = d as usize + 1;
            }
        }
        if !out.status.success() || started.is_some() {
            // the child died inside case `started`: that is an abort (allocation failure, stack overflow, ...)
            let i = started.unwrap_or(next);
            let c = &cases[i.min(cases.len() - 1)];
            log.emit("stage", json!({"case": i + 1, "stage": c["stage"], "mut": c["mut"], "size": c["size"], "prior": c["prior"].as_str().unwrap_or("fresh"), "inlen": 0, "outlen": 0,
                "outcome": "abort", "eq": false, "alloc": 0, "status": format!("{:?}", out.status)}));
            next = i + 1;
        } else if next < cases.len() && started.is_none() && out.status.success() && String::from_utf8_lossy(&out.stdout).lines().count() == 0 {
            break;
        }
    }
    log.flush();
    println!("{}", json!({"runs": cases.len(), "events": log.lines(), "children": children}));
}

// ------------------------------------------------------------------ C14 pipeline
fn payload(class: &str, rng: &mut StdRng, salt: u64) -> Vec<u8> {
    match class {
        "empty" => vec![],
        "one_byte" => vec![(salt % 251) as u8],
        "incompressible_4k" => rand_bytes(rng, 4096),
        "repetitive_64k" => {
            let pat = format!("selium-{}-", salt % 97);
            pat.as_bytes().iter().cycle().take(65536).copied().collect()
        }
        "repetitive_512k" => {
            let pat = format!("<{}>", salt % 89);
            pat.as_bytes().iter().cycle().take(300 * 1024).copied().collect()
        }
        "repetitive_3m" => {
            let pat = format!("[{}]", salt % 83);
            pat.as_bytes().iter().cycle().take(3 * 1024 * 1024).copied().collect()
        }
        "magic_prefix" => {
            // the magic numbers of gzip, zlib, zstd, lz4 (frame) and a brotli-looking first byte, then noise
            let magics: [&[u8]; 5] = [&[0x1f, 0x8b, 0x08, 0x00], &[0x78, 0x9c], &[0x28, 0xb5, 0x2f, 0xfd], &[0x04, 0x22, 0x4d, 0x18], &[0x1b]];
            let mut v = magics[(salt % 5) as usize].to_vec();
            v.extend(rand_bytes(rng, 40));
            v
        }
        "bom_text" => {
            let v = ["\u{feff}starts with a byte order mark", "\u{feff}", "\u{feff}\u{feff}two of them, and one at the end\u{feff}", "\u{feff}\n", "\u{feff}{\"json\": true}"];
            v[(salt % v.len() as u64) as usize].as_bytes().to_vec()
        }
        "text_edge" => {
            let v = [
                "\u{feff}starts with a byte order mark",
                "\u{feff}",
                "\u{feff}\u{feff}two of them, and one at the end\u{feff}",
                "\0starts with NUL",
                "  leading and trailing blanks \t ",
                "ends with line ends\r\n\n",
                "\n",
                "\u{301}starts with a combining mark",
                "\u{fffe}noncharacters\u{ffff}",
                "\u{200b}zero width\u{2028}separators\u{2029}",
            ];
            v[(salt % v.len() as u64) as usize].as_bytes().to_vec()
        }
        "text_8k" => {
            let words = ["lorem", "ipsum", "dolor", "sit", "amet", "consectetur", "adipiscing", "elit", "0123456789", "\n"];
            let mut s = String::new();
            while s.len() < 8192 {
                s.push_str(words[rng.gen_range(0..words.len())]);
                s.push(' ');
            }
            s.into_bytes()
        }
        _ => {
            // just under the frame limit once batched (3 copies) / compressed: keep each at 300 KiB
            let mut v = rand_bytes(rng, 150 * 1024);
            v.extend(std::iter::repeat(b'z').take(150 * 1024));
            v
        }
    }
}

fn compressor(algo: &str, level: &Value) -> Option<(Box<dyn Compress>, Box<dyn Decompress>)> {
    let kind = level["kind"].as_str().unwrap_or("default");
    let n = level["n"].as_u64().unwrap_or(0) as u32;
    macro_rules! lvl {
        ($c:expr) => {
            match kind {
                "preset_fastest" => $c.fastest(),
                "preset_balanced" => $c.balanced(),
                "preset_highest" => $c.highest_ratio(),
                "explicit" => $c.level(n),
                _ => $c,
            }
        };
    }
    Some(match algo {
        "gzip" => (Box::new(lvl!(deflate::DeflateComp::gzip())), Box::new(deflate::DeflateDecomp::gzip())),
        "zlib" => (Box::new(lvl!(deflate::DeflateComp::zlib())), Box::new(deflate::DeflateDecomp::zlib())),
        "zstd" => (Box::new(lvl!(zstd::ZstdComp::new())), Box::new(zstd::ZstdDecomp)),
        "lz4" => (Box::new(lz4::Lz4Comp), Box::new(lz4::Lz4Decomp)),
        "brotli_generic" => (Box::new(lvl!(brotli::BrotliComp::generic())), Box::new(brotli::BrotliDecomp)),
        "brotli_text" => (Box::new(lvl!(brotli::BrotliComp::text())), Box::new(brotli::BrotliDecomp)),
        "brotli_font" => (Box::new(lvl!(brotli::BrotliComp::font())), Box::new(brotli::BrotliDecomp)),
        _ => return None,
    })
}

fn cmd_pipeline(args: &[String]) {
    let log = EvLog::to_file(&arg(args, "--out").unwrap()).unwrap();
    let seed = arg(args, "--seed").and_then(|s| s.parse().ok()).unwrap_or_else(seed_from_env);
    let mut rng = StdRng::seed_from_u64(seed);
    let cases = read_cases(&arg(args, "--cases").unwrap());
    let mut k = 0u64;
    for c in &cases {
        k += 1;
        let algo = c["algo"].as_str().unwrap();
        let codec = c["codec"].as_str().unwrap();
        let batch = c["batch"].as_u64().unwrap() as usize;
        let pclass = c["payload"].as_str().unwrap();
        let level = format!("{}{}", c["level"]["kind"].as_str().unwrap(), c["level"]["n"]);
        let n = if batch == 0 { 1 } else { batch };
        let history = c["history"].as_str().unwrap_or("fresh");
        // 40 KiB, half repetitive and half random: a damaged copy yields output before it fails
        let prior: Vec<u8> = {
            let mut v = b"selium ".repeat(3000);
            let mut r = vec![0u8; 20_000];
            rng.fill_bytes(&mut r);
            v.extend(r);
            v
        };
        let raw: Vec<Vec<u8>> = (0..n)
            .map(|i| {
                if pclass == "own_frame" {
                    // a payload that is itself a frame of the algorithm in use
                    let inner = payload("text_8k", &mut rng, seed.wrapping_add(k * 7 + i as u64));
                    match compressor(algo, &c["level"]) {
                        Some((comp, _)) => comp.compress(Bytes::from(inner.clone())).map(|b| b.to_vec()).unwrap_or(inner),
                        None => inner,
                    }
                } else {
                    payload(pclass, &mut rng, seed.wrapping_add(k * 7 + i as u64))
                }
            })
            .collect();
        let r = catch_unwind(AssertUnwindSafe(|| -> Result<(bool, usize), String> {
            // encode each value with the chosen codec
            let mut encoded: Vec<Bytes> = vec![];
            let mut values: Vec<Value> = vec![];
            for b in &raw {
                match codec {
                    "string" => {
                        // text classes are text: they go through the string codec as they are; other payloads
                        // are arbitrary bytes and are mapped to letters
                        let s: String = match std::str::from_utf8(b) {
                            Ok(t) if pclass == "text_edge" || pclass == "bom_text" || pclass == "text_8k" => t.to_string(),
                            _ => b.iter().map(|x| (b'a' + (x % 26)) as char).collect::<String>() + "é✓",
                        };
                        encoded.push(StringCodec.encode(s.clone()).map_err(|e| e.to_string())?);
                        values.push(json!(s));
                    }
                    "bincode" => {
                        let s = Sample { name: "n".repeat(b.len() % 50), id: b.len() as u64, tags: vec!["t".into(); b.len() % 5], blob: b.clone() };
                        encoded.push(BincodeCodec::<Sample>::default().encode(s.clone()).map_err(|e| e.to_string())?);
                        values.push(serde_json::to_value(&s).unwrap());
                    }
                    _ => {
                        encoded.push(BytesCodec.encode(b.clone()).map_err(|e| e.to_string())?);
                        values.push(json!(b));
                    }
                }
            }
            let cd = compressor(algo, &c["level"]);
            // the same objects have processed something else before (a subscriber keeps one
            // decompressor for the life of its stream); whatever that was must not matter
            if history != "fresh" {
                if let Some((comp, dec)) = &cd {
                    let mut other = prior.clone();
                    if let Ok(z) = comp.compress(Bytes::from(std::mem::take(&mut other))) {
                        let mut z = z.to_vec();
                        match history {
                            "after_damaged" => {
                                let n = z.len();
                                z[n / 2] ^= 0x55;
                                z[n - 1] ^= 0xff;
                            }
                            "after_truncated" => z.truncate(z.len().saturating_sub(6)),
                            "after_foreign" => z = prior.iter().rev().cloned().collect(),
                            _ => {}
                        }
                        let _ = catch_unwind(AssertUnwindSafe(|| dec.decompress(Bytes::from(z))));
                    }
                }
                // the codecs are unit-like values; a failed decode before the real one
                let _ = StringCodec.decode(&mut BytesMut::from(&b"\xff\xfe"[..]));
                let _ = BincodeCodec::<Sample>::default().decode(&mut BytesMut::from(&b"\x01"[..]));
            }
            // wire: [batch] -> [compress]
            let mut wire = if batch == 0 { encoded[0].clone() } else { encode_message_batch(encoded.clone()) };
            if let Some((comp, _)) = &cd {
                wire = comp.compress(wire).map_err(|e| format!("compress: {e}"))?;
            }
            // back: [decompress] -> [unbatch] -> decode
            let mut back = wire;
            if let Some((_, dec)) = &cd {
                back = dec.decompress(back).map_err(|e| format!("decompress: {e}"))?;
            }
            let parts = if batch == 0 { vec![back] } else { decode_message_batch(back).into_res()? };
            let mut out: Vec<Value> = vec![];
            for p in &parts {
                let mut m = BytesMut::from(&p[..]);
                out.push(match codec {
                    "string" => json!(StringCodec.decode(&mut m).map_err(|e| e.to_string())?),
                    "bincode" => serde_json::to_value(BincodeCodec::<Sample>::default().decode(&mut m).map_err(|e| e.to_string())?).unwrap(),
                    _ => json!(BytesCodec.decode(&mut m).map_err(|e| e.to_string())?),
                });
            }
            Ok((out == values, out.len()))
        }));
        let (res, nout, why) = match r {
            Ok(Ok((true, n))) => ("eq", n, String::new()),
            Ok(Ok((false, n))) => ("neq", n, String::new()),
            Ok(Err(e)) => ("err", 0, e),
            Err(e) => ("panic", 0, panic_message(&e)),
        };
        log.emit("roundtrip", json!({"case": k, "algo": algo, "level": level, "payload": pclass, "codec": codec, "batch": batch, "history": history,
            "res": res, "n": nout, "why": why.chars().take(120).collect::<String>()}));
    }
    // bytes that are not valid for a codec / decompressor must be errors, never values
    let invalid_utf8: [&[u8]; 4] = [b"\xff\xfe", b"ok\xc3", b"\xed\xa0\x80", b"a\x80b"];
    for (i, b) in invalid_utf8.iter().enumerate() {
        k += 1;
        let r = catch_unwind(AssertUnwindSafe(|| StringCodec.decode(&mut BytesMut::from(*b))));
        let res = match r {
            Ok(Ok(_)) => "value",
            Ok(Err(_)) => "err",
            Err(_) => "panic",
        };
        log.emit("invalid", json!({"case": k, "what": format!("string_codec_invalid_utf8_{i}"), "res": res, "must_err": true}));
    }
    for algo in ["gzip", "zlib", "zstd", "lz4", "brotli_generic"] {
        let (comp, _) = compressor(algo, &json!({"kind": "default", "n": 0})).unwrap();
        let good = comp.compress(Bytes::from(payload("text_8k", &mut rng, 1))).unwrap();
        for other in ["gzip", "zlib", "zstd", "lz4", "brotli_generic"] {
            if other == algo {
                continue;
            }
            k += 1;
            let (_, dec) = compressor(other, &json!({"kind": "default", "n": 0})).unwrap();
            let g = good.clone();
            let r = catch_unwind(AssertUnwindSafe(|| dec.decompress(g)));
            let res = match r {
                Ok(Ok(_)) => "value",
                Ok(Err(_)) => "err",
                Err(_) => "panic",
            };
            // brotli has no magic number: decoding foreign bytes may "succeed"; everything else must fail
            log.emit("invalid", json!({"case": k, "what": format!("{algo}_bytes_into_{other}"), "res": res, "must_err": other != "brotli_generic"}));
        }
    }
    log.flush();
    println!("{}", json!({"runs": k, "events": log.lines()}));
}

fn main() {
    quiet_panics();
    let args: Vec<String> = std::env::args().collect();
    match args.get(1).map(|s| s.as_str()) {
        Some("backoff") => cmd_backoff(&args),
        Some("topic") => cmd_topic(&args),
        Some("framing") => cmd_framing(&args),
        Some("decode") => cmd_decode(&args),
        Some("decode-child") => cmd_decode_child(&args),
        Some("pipeline") => cmd_pipeline(&args),
        _ => {
            eprintln!("usage: pure backoff|topic|framing|decode|pipeline --cases F --out T");
            std::process::exit(2);
        }
    }
    let _ = Buf::remaining(&Bytes::new());
}
