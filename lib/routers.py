"""Router-level pipelines (pub/sub and request/reply topic routers).

  1. TLC model-checks the implementation-shaped module (Layer A) against the property-level
     module (Layer B): invariants, refinement, liveness -- exhaustive for the configured bound.
  2. TLC generates schedules from the Layer A module (exhaustively for a small bound and in
     simulation mode for a larger one); the harness adds seeded random schedules.
  3. The harness replays every schedule on the real router future with mock children under a
     wake-driven executor and records an ndjson trace.
  4. TLC validates the traces against the Layer B trace specification (verdict) and against the
     Layer A trace specification (drift, never a verdict).
"""
import json
import os
import random
import time

from common import (cap_diverse, BIN, ToolError, Work, build_harness, cache_get, cache_put, cfg_with, log, seed,
                    sh, tlc, tree_key)

BIG_BUDGET_S = 1500     # per large configuration (thorough tier)

KINDS = {
    "pubsub": {
        "model": "PubSubRouter",
        "model_cfg": {"quick": ["MC_PubSub_quick.cfg"], "thorough": ["MC_PubSub_quick.cfg", "MC_PubSub_thorough.cfg"]},
        "gen": "PubSubGen", "gen_cfg": "MC_PubSubGen.cfg", "gen_sim_cfg": "MC_PubSubGen_sim.cfg",
        "bin": "router_pubsub",
        "trace_b": ("Trace_PubSubIface", "Trace_PubSubIface.cfg"),
        "trace_a": ("Trace_PubSubRouter", "Trace_PubSubRouter.cfg"),
        "devs": ["FixD1", "FixD2", "FixD6"],
        "tiers": {
            "quick": {"gen_env": 4, "gen_cap": 4000, "sim": 1500, "random": 3000, "rand_args": []},
            "thorough": {"gen_env": 6, "gen_cap": 200000, "sim": 20000, "random": 20000,
                         "rand_args": ["--max-pubs", "4", "--max-subs", "5", "--max-items", "8", "--len", "60"]},
        },
    },
    "reqrep": {
        "model": "ReqRepRouter",
        "model_cfg": {"quick": ["MC_ReqRep_routing.cfg", "MC_ReqRep_repliers.cfg", "MC_ReqRep_live.cfg", "MC_ReqRep_faults.cfg"],
                      "thorough": ["MC_ReqRep_routing.cfg", "MC_ReqRep_repliers.cfg", "MC_ReqRep_live.cfg", "MC_ReqRep_faults.cfg",
                                   "MC_ReqRep_thorough.cfg", "MC_ReqRep_thorough2.cfg"]},
        "gen": "ReqRepGen", "gen_cfg": "MC_ReqRepGen.cfg", "gen_sim_cfg": "MC_ReqRepGen_sim.cfg",
        "bin": "router_reqrep",
        "trace_b": ("Trace_ReqRepIface", "Trace_ReqRepIface.cfg"),
        "trace_a": ("Trace_ReqRepRouter", "Trace_ReqRepRouter.cfg"),
        "devs": ["FixD3", "FixD4", "FixD5", "FixD6", "FixD9", "FixD16"],
        "tiers": {
            "quick": {"gen_env": 4, "gen_cap": 4000, "sim": 1500, "random": 4000, "rand_args": []},
            "thorough": {"gen_env": 5, "gen_cap": 150000, "sim": 20000, "random": 20000,
                         "rand_args": ["--len", "60"]},
        },
    },
}


def _write_schedules(path, scheds, prefix):
    with open(path, "w") as f:
        for i, s in enumerate(scheds):
            f.write(json.dumps({"id": "%s-%d" % (prefix, i), "steps": s}) + "\n")


def _run_lines(trace_path, runs):
    """Return {run: [lines]} for the given run ids."""
    want = set(runs)
    out = {r: [] for r in want}
    if not want:
        return out
    with open(trace_path) as f:
        for line in f:
            # cheap parse: "run":N
            i = line.find('"run":')
            if i < 0:
                continue
            j = i + 6
            k = j
            while k < len(line) and line[k].isdigit():
                k += 1
            r = int(line[j:k])
            if r in want:
                out[r].append(json.loads(line))
    return out


def replay_and_validate(kind, work, sched_file, tag, extra_args=None):
    """Run the harness on a schedule file (or random args) and validate the trace with TLC."""
    K = KINDS[kind]
    trace = work.path("trace-%s.ndjson" % tag)
    cmd = [os.path.join(BIN, K["bin"]), "--out", trace]
    if sched_file:
        cmd += ["--schedules", sched_file]
    if extra_args:
        cmd += extra_args
    p = sh(cmd, timeout=1800, check=False)
    if p.returncode == 3 and '"watchdog"' in (p.stdout or ""):
        # one poll of the router ran for five seconds without returning: recorded as a spin, the rest is not run
        log("[%s] the harness watchdog ended the run (%s): a poll did not return" % (kind, tag))
    elif p.returncode != 0:
        from common import HarnessDied
        if p.returncode in (-6, -11, -7, -4):
            raise HarnessDied(p.returncode, cmd, (p.stdout or "")[-3000:])
        raise ToolError("command failed (%d): %s\n%s" % (p.returncode, cmd, (p.stdout or "")[-4000:]))
    summ = json.loads(p.stdout.strip().splitlines()[-1])
    mod, cfg = K["trace_b"]
    rb = tlc(mod, cfg, work, workers=1, trace=trace, timeout=3600, xmx="12g")
    if not rb.ok:
        raise ToolError("trace validation (Layer B) did not complete for %s:\n%s" % (tag, rb.out[-3000:]))
    drift = []
    ra_wall = 0.0
    if K["trace_a"] and os.path.exists(os.path.join(os.path.dirname(os.path.abspath(__file__)), "..", "spec", K["trace_a"][0] + ".tla")):
        ra = tlc(K["trace_a"][0], K["trace_a"][1], work, workers=1, trace=trace, timeout=3600, xmx="12g")
        if not ra.ok:
            raise ToolError("trace validation (Layer A) did not complete for %s:\n%s" % (tag, ra.out[-3000:]))
        drift = ra.notes
        ra_wall = ra.wall
    return {"trace": trace, "summary": summ, "viol": rb.viol, "drift": drift,
            "wall_b": rb.wall, "wall_a": ra_wall, "states_b": rb.distinct}


def pipeline(kind, tier):
    K = KINDS[kind]
    T = K["tiers"][tier]
    key = "%s-%s-%s-%d" % (kind, tier, tree_key(), seed())
    c = cache_get(key)
    if c is not None:
        log("[%s] reusing pipeline result computed %.0fs ago for the same tree/seed" % (kind, time.time() - c["at"]))
        c["cached"] = True
        return c
    build_harness()
    work = Work("%s-%s" % (kind, tier))
    t0 = time.time()
    res = {"kind": kind, "tier": tier, "at": time.time(), "cached": False}
    try:
        # 1. exhaustive model checking of Layer A against Layer B (configs run concurrently)
        cfgs = K["model_cfg"][tier]
        small = [c for c in cfgs if "thorough" not in c]
        big = [c for c in cfgs if "thorough" in c]
        nw = max(2, 16 // max(1, min(len(small), 4)))
        from concurrent.futures import ThreadPoolExecutor
        with ThreadPoolExecutor(max_workers=4) as ex_:
            rs = list(ex_.map(lambda c: tlc(K["model"], c, work, workers=nw, timeout=7200, xmx="8g", coverage=True), small))
        # the large configurations run one at a time, each within a time budget: what was visited counts
        for c in big:
            rs.append(tlc(K["model"], c, work, workers=12, xmx="20g", coverage=False, budget=BIG_BUDGET_S))
        cfgs = small + big
        models = []
        for c, r in zip(cfgs, rs):
            log("[%s] TLC %s/%s: %d distinct states, %d generated, depth %d, %.0fs, ok=%s%s" % (
                kind, K["model"], c, r.distinct, r.generated, r.depth, r.wall, r.ok,
                " (stopped at the time budget: states visited so far)" if getattr(r, "partial", False) else ""))
            cov = r.coverage()
            m = {"module": K["model"], "cfg": c, "states": r.distinct,
                 "transitions": r.generated, "depth": r.depth, "wall_s": round(r.wall, 1),
                 "ok": r.ok, "errors": r.errors[:5], "violated": r.violated,
                 "complete": not getattr(r, "partial", False),
                 "action_coverage": {a: v[1] for a, v in sorted(cov.items())},
                 "actions_never_taken": sorted(a for a, v in cov.items() if v[1] == 0)}
            if not r.ok:
                m["tail"] = r.out[-6000:]
            models.append(m)
        res["models"] = models
        res["model"] = {"ok": all(m["ok"] for m in models),
                        "states": sum(m["states"] for m in models),
                        "transitions": sum(m["transitions"] for m in models),
                        "violated": [v for m in models for v in m["violated"]],
                        "errors": [e for m in models for e in m["errors"]],
                        "tail": "\n".join(m.get("tail", "") for m in models)}

        # 2. schedules from the model
        scheds = []
        gcfg = cfg_with(K["gen_cfg"], work, "gen.cfg", {"MaxEnv": T["gen_env"]})
        g = tlc(K["gen"], gcfg, work, workers=8, timeout=3600, xmx="16g")
        ex = g.sched_lines()
        n_ex_total = len(ex)
        rnd = random.Random(seed())
        if len(ex) > T["gen_cap"]:
            ex = rnd.sample(ex, T["gen_cap"])
        sim = []
        if T["sim"]:
            s = tlc(K["gen"], K["gen_sim_cfg"], work, workers=1, timeout=3600,
                    extra=["-seed", str(seed()), "-simulate", "num=%d" % T["sim"], "-depth", "600"])
            sim = s.sched_lines()
        log("[%s] schedules: %d exhaustive (of %d, MaxEnv=%d), %d simulated, %d random" % (
            kind, len(ex), n_ex_total, T["gen_env"], len(sim), T["random"]))
        res["schedules"] = {"exhaustive_total": n_ex_total, "exhaustive_used": len(ex),
                            "gen_states": g.distinct, "simulated": len(sim), "random": T["random"]}

        # 3+4. replay and validate
        viol, drift = [], []
        runs = events = 0
        samples = []
        wall_b = wall_a = 0.0
        parts = []
        if ex:
            p = work.path("sched-ex.jsonl")
            _write_schedules(p, ex, "ex")
            parts.append(("ex", p, None))
        if sim:
            p = work.path("sched-sim.jsonl")
            _write_schedules(p, sim, "sim")
            parts.append(("sim", p, None))
        if T["random"]:
            p = work.path("sched-rnd.jsonl")
            parts.append(("rnd", None, ["--random", str(T["random"]), "--seed", str(seed()),
                                        "--save-schedules", p] + T["rand_args"]))
        for tag, sf, extra in parts:
            rv = replay_and_validate(kind, work, sf, tag, extra)
            runs += rv["summary"]["runs"]
            if rv["summary"].get("of", rv["summary"]["runs"]) != rv["summary"]["runs"]:
                log("[%s] harness stopped after %d of %d schedules (%s): %d runs ended in a spin or a panic" % (
                    kind, rv["summary"]["runs"], rv["summary"]["of"], tag, rv["summary"].get("dead", 0)))
            events += rv["summary"]["events"]
            wall_b += rv["wall_b"]
            wall_a += rv["wall_a"]
            sfile = sf or work.path("sched-rnd.jsonl")
            sl = open(sfile).read().splitlines()
            need = sorted({v["run"] for v in rv["viol"]} | {d["run"] for d in rv["drift"][:3]} | {1})
            lines = _run_lines(rv["trace"], need[:40])
            for v in rv["viol"]:
                v = dict(v)
                v["part"] = tag
                v["schedule"] = json.loads(sl[v["run"] - 1]) if v["run"] - 1 < len(sl) else None
                v["trace"] = lines.get(v["run"], [])[:400]
                viol.append(v)
            for d in rv["drift"]:
                d = dict(d)
                d["part"] = tag
                d["schedule"] = json.loads(sl[d["run"] - 1]) if d["run"] - 1 < len(sl) else None
                drift.append(d)
            if 1 in lines and sl:
                samples.append({"schedule": json.loads(sl[0]),
                                "trace_excerpt": [json.dumps(x, sort_keys=True) for x in lines[1][:25]]})
            os.remove(rv["trace"])
        res.update({"runs": runs, "events": events, "viol": cap_diverse(viol), "n_viol": len(viol),
                    "drift": drift[:20], "n_drift": len(drift), "samples": samples,
                    "wall_trace_b": round(wall_b, 1), "wall_trace_a": round(wall_a, 1),
                    "wall_s": round(time.time() - t0, 1)})
        log("[%s] replayed %d runs / %d events on the real router; Layer B flagged %d runs; Layer A drift notes %d" % (
            kind, runs, events, len(viol), len(drift)))
        for d in drift[:5]:
            log("NOTE spec-drift %s run=%s line=%s %s" % (kind, d["run"], d["line"], d["what"]))
    finally:
        work.cleanup()
    cache_put(key, res)
    return res


def sensitivity(kind, work):
    """Flip each named deviation constant of the Layer A module and show that TLC then finds a
    counterexample (the invariants are not vacuous)."""
    K = KINDS[kind]
    out = []
    for d in K["devs"]:
        found = None
        for base in K["model_cfg"]["quick"]:
            cfg = cfg_with(base, work, "dev-%s-%s" % (d, base), {d: "FALSE"})
            r = tlc(K["model"], cfg, work, workers=8, timeout=1800, xmx="8g")
            if not r.ok:
                found = {"constant": d, "cfg": base, "counterexample_found": True,
                         "violated": r.violated or r.errors[:1], "states": r.distinct, "wall_s": round(r.wall, 1)}
                break
        out.append(found or {"constant": d, "counterexample_found": False})
        log("[%s] deviation %s=FALSE -> %s" % (kind, d, found if found else "NO counterexample"))
    return out
