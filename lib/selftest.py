"""./check --selftest : demonstrates that the specifications are bound to the code and not vacuous.

 1. Deviation constants: for every named deviation of a Layer A / model module, flipping the constant
    makes TLC produce a counterexample (the invariants can fail).
 2. Trace binding: a recorded real trace is accepted; the same trace with one field corrupted or one
    event removed is flagged by the trace specification (VIOL for Layer B, DRIFT for Layer A).
Results are written to /verif/selftest_results.json.
"""
import json
import os

import routers
from common import BIN, VERIF, Work, build_harness, cfg_with, log, sh, tlc

DEVIATIONS = [
    # module, base cfg, constants
    ("ClientPubSub", "MC_ClientPubSub.cfg", ["FixD7", "FixD8"]),
    ("ServerReg", "MC_ServerReg.cfg", ["FixD10", "FixD18", "AtomicCreate"]),
    ("ServerReg", "MC_ServerReg_live.cfg", ["FixD15"]),
    ("KeepAlive", "MC_KeepAlive.cfg", ["FixD11", "FixD17"]),
    ("Requestor", "MC_Requestor.cfg", ["RouteByCid"]),
    ("ServerLife", "MC_ServerLife.cfg", ["LockOrderAsCode", "CloseChannels", "CloseForAllHandles"]),
    ("RequestorLife", "MC_RequestorLife.cfg", ["CidNeverReused", "ReconnectKeepsPending"]),
    ("ReplierLife", "MC_ReplierLife.cfg", ["BindErrorRecoverable"]),
]


def deviations(work):
    out = []
    for kind in ("pubsub", "reqrep"):
        for r in routers.sensitivity(kind, work):
            r["module"] = routers.KINDS[kind]["model"]
            out.append(r)
    for mod, cfg, consts in DEVIATIONS:
        for c in consts:
            p = cfg_with(cfg, work, "dev-%s-%s.cfg" % (mod, c), {c: "FALSE"})
            r = tlc(mod, p, work, workers=8, timeout=1800)
            out.append({"module": mod, "cfg": cfg, "constant": c, "counterexample_found": not r.ok,
                        "violated": r.violated or r.errors[:1], "states": r.distinct})
            log("[selftest] %s %s=FALSE -> %s %s" % (mod, c, "counterexample" if not r.ok else "NO counterexample", r.violated))
    return out


def _validate(work, mod, cfg, lines, tag):
    p = work.path("st-%s.ndjson" % tag)
    with open(p, "w") as f:
        f.write("\n".join(lines) + "\n")
    r = tlc(mod, cfg, work, workers=1, trace=p, timeout=600)
    return {"accepted_fully": r.ok, "flags": [v["kind"] for v in r.viol], "drift": [n["what"] for n in r.notes]}


def trace_binding(work):
    out = []
    # a small deterministic pub/sub run
    sched = {"id": "selftest", "steps": [
        {"op": "reg_sub", "id": 1}, {"op": "reg_pub", "id": 1}, {"op": "poll"},
        {"op": "publish", "id": 1}, {"op": "block", "id": 1, "which": "flush"}, {"op": "poll"},
        {"op": "publish", "id": 1}, {"op": "unblock", "id": 1, "which": "flush"}, {"op": "poll"},
        {"op": "end", "id": 1}, {"op": "poll"}, {"op": "close"}, {"op": "poll"}]}
    sf = work.path("st-sched.jsonl")
    open(sf, "w").write(json.dumps(sched) + "\n")
    tr = work.path("st-pubsub.ndjson")
    sh([os.path.join(BIN, "router_pubsub"), "--schedules", sf, "--out", tr])
    lines = [x for x in open(tr).read().split("\n") if x]
    evs = [json.loads(x) for x in lines]

    def mutate(fn):
        res = []
        done = False
        for e in evs:
            e2 = dict(e)
            if not done:
                r = fn(e2)
                if r == "drop":
                    done = True
                    continue
                if r:
                    done = True
            res.append(json.dumps(e2))
        return res

    def corrupt_item(e):
        if e["ev"] == "si_send":
            e["item"] = [1, 2] if e["item"] == [1, 1] else [1, 1]
            return True

    def drop_adopt(e):
        if e["ev"] == "adopt" and e["kind"] == "sub":
            return "drop"

    def drop_flush(e):
        if e["ev"] == "si_flush" and e["res"] == "ok":
            return "drop"

    def drop_second_send(e):
        if e["ev"] == "si_send" and e["item"] == [1, 2]:
            return "drop"

    for name, mod, cfg, fn, expect in [
        ("pubsub Layer B: unmodified trace", "Trace_PubSubIface", "Trace_PubSubIface.cfg", None, "accept"),
        ("pubsub Layer B: one delivered item corrupted", "Trace_PubSubIface", "Trace_PubSubIface.cfg", corrupt_item, "flag"),
        ("pubsub Layer B: subscriber adoption event removed", "Trace_PubSubIface", "Trace_PubSubIface.cfg", drop_adopt, "flag"),
        ("pubsub Layer B: one delivery removed (loss)", "Trace_PubSubIface", "Trace_PubSubIface.cfg", drop_second_send, "flag"),
        ("pubsub Layer A: unmodified trace", "Trace_PubSubRouter", "Trace_PubSubRouter.cfg", None, "accept"),
        ("pubsub Layer A: one flush poll removed", "Trace_PubSubRouter", "Trace_PubSubRouter.cfg", drop_flush, "drift"),
    ]:
        r = _validate(work, mod, cfg, lines if fn is None else mutate(fn), name.split(":")[0].replace(" ", ""))
        ok = (expect == "accept" and not r["flags"] and not r["drift"]) or (expect == "flag" and r["flags"]) or (expect == "drift" and r["drift"])
        out.append({"case": name, "expected": expect, "result": r, "as_expected": bool(ok)})
        log("[selftest] %-60s -> %s %s" % (name, "OK" if ok else "UNEXPECTED", r["flags"] or r["drift"]))
    return out


def e2e_binding(work):
    """For each system-level monitor: a recorded real trace is accepted; with one field corrupted or one
    event removed it is flagged."""
    out = []
    e2e = os.path.join(BIN, "e2e")

    def record(sub, cases, extra=None):
        cf = work.path("st-%s-cases.jsonl" % sub)
        with open(cf, "w") as f:
            for c in cases:
                f.write(json.dumps(c) + "\n")
        tr = work.path("st-%s.ndjson" % sub)
        sh([e2e, sub, "--cases", cf, "--out", tr] + (extra or []), timeout=900)
        return [json.loads(x) for x in open(tr).read().split("\n") if x]

    def verdicts(mod, evs, tag):
        p = work.path("st-%s.ndjson" % tag)
        with open(p, "w") as f:
            f.write("\n".join(json.dumps(e) for e in evs) + "\n")
        r = tlc(mod, mod + ".cfg", work, workers=1, trace=p, timeout=600)
        return {"accepted_fully": r.ok, "flags": [v["kind"] for v in r.viol], "notes": [n["what"] for n in r.notes]}

    def change_first(evs, pred, fn):
        res, done = [], False
        for e in evs:
            e = dict(e)
            if not done and pred(e):
                done = True
                e = fn(e)
                if e is None:
                    continue
            res.append(e)
        return res

    # RequestorLife
    sched = {"id": "st", "steps": [{"op": "open", "f": 1, "c": "", "k": 0}, {"op": "req", "f": 1, "c": "a", "k": 1},
                                   {"op": "req", "f": 1, "c": "b", "k": 2}, {"op": "answer", "f": 0, "c": "", "k": 2},
                                   {"op": "answer", "f": 0, "c": "", "k": 1}]}
    evs = record("reqlife", [sched], ["--par", "1"])
    tests = [("RequestorLife: unmodified trace", "Trace_RequestorLife", evs, "accept"),
             ("RequestorLife: one call's returned value replaced by another call's", "Trace_RequestorLife",
              change_first(evs, lambda e: e["ev"] == "call_ret" and e["k"] == 1, lambda e: dict(e, val=2)), "flag"),
             ("RequestorLife: an answered call reported as timed out", "Trace_RequestorLife",
              change_first(evs, lambda e: e["ev"] == "call_ret" and e["k"] == 2, lambda e: dict(e, res="timeout", val=0)), "flag"),
             ("RequestorLife: the answer step removed from the trace", "Trace_RequestorLife",
              change_first(evs, lambda e: e["ev"] == "op" and e["op"] == "answer" and e["k"] == 1, lambda e: None), "note_or_flag")]
    # ReplierLife
    sched = {"id": "st", "steps": [{"op": "start", "r": 1}, {"op": "start", "r": 2}, {"op": "request", "r": 0}, {"op": "stop", "r": 1}, {"op": "request", "r": 0}]}
    evs = record("replife", [sched], ["--par", "1"])
    tests += [("ReplierLife: unmodified trace", "Trace_ReplierLife", evs, "accept"),
              ("ReplierLife: an answer attributed to the standby while the first replier is bound", "Trace_ReplierLife",
               change_first(evs, lambda e: e["ev"] == "result" and e["by"] == 1, lambda e: dict(e, by=2)), "flag"),
              ("ReplierLife: no answer after the bound replier left although a standby listens", "Trace_ReplierLife",
               [dict(e, by=0) if (e["ev"] == "result" and e["by"] == 2) else e for e in evs], "flag")]
    # PubSubLife
    sched = {"id": "st", "origins": 2, "steps": [{"op": "open_sub", "id": 1}, {"op": "open_pub", "id": 1}, {"op": "publish", "id": 1},
                                                  {"op": "cut_sub", "id": 1}, {"op": "publish", "id": 1}, {"op": "finish", "id": 1}]}
    evs = record("publife", [sched], ["--par", "1"])
    tests += [("PubSubLife: unmodified trace", "Trace_PubSubLife", evs, "accept"),
              ("PubSubLife: one delivery removed", "Trace_PubSubLife",
               change_first(evs, lambda e: e["ev"] == "recv" and e["n"] == 2, lambda e: None), "flag"),
              ("PubSubLife: one delivery duplicated", "Trace_PubSubLife",
               [x for e in evs for x in ([e, e] if (e["ev"] == "recv" and e["n"] == 1) else [e])], "flag"),
              ("PubSubLife: the subscriber reported as not recovered", "Trace_PubSubLife",
               change_first(evs, lambda e: e["ev"] == "op" and e.get("op") == "cut_sub", lambda e: dict(e, recovered=False)), "flag")]
    # ServerLife (real interrupt signal)
    case = {"topics": [{"kind": "pubsub", "subs": 1, "pubs": 1, "traffic": "finished", "stall": False, "big": False, "replier": False, "requestors": 0}],
            "leaver": False, "late_regs": 0, "settle_ms": 0}
    evs = record("shutdown", [case])
    tests += [("ServerLife: unmodified trace", "Trace_ServerLife", evs, "accept"),
              ("ServerLife: the 'channels closed' hook event removed", "Trace_ServerLife",
               change_first(evs, lambda e: e["ev"] == "sd_channels_closed", lambda e: None), "flag"),
              ("ServerLife: listen() reported as hung", "Trace_ServerLife",
               change_first(evs, lambda e: e["ev"] == "listen_returned", lambda e: {"ev": "listen_hung", "after_ms": 30000, "stalled": False, "run": 0, "seq": e["seq"]}), "flag")]
    # Fanout
    sched = {"id": "st", "steps": [{"op": "reg_sub", "id": 1}, {"op": "reg_pub", "id": 1}, {"op": "publish", "id": 1}, {"op": "publish", "id": 1}, {"op": "end", "id": 1}]}
    evs = record("fanout", [sched], ["--par", "1"])
    tests += [("Fanout: unmodified trace", "Trace_Fanout", evs, "accept"),
              ("Fanout: one delivery removed", "Trace_Fanout",
               change_first(evs, lambda e: e["ev"] == "sub_item" and e["pub"] == 1 and e["n"] == 1, lambda e: None), "flag")]
    # Backoff (pure module): the iterator's items and what it announces through size_hint
    cf = work.path("st-backoff-cases.jsonl")
    open(cf, "w").write(json.dumps({"strat": "linear", "step": 5, "factor": 0, "att": 3, "capped": False, "cap": 0}) + "\n")
    tr = work.path("st-backoff.ndjson")
    sh([os.path.join(BIN, "pure"), "backoff", "--cases", cf, "--out", tr])
    evs = [json.loads(x) for x in open(tr).read().split("\n") if x]
    tests += [("Backoff: unmodified trace", "Trace_Backoff", evs, "accept"),
              ("Backoff: one delay replaced", "Trace_Backoff",
               change_first(evs, lambda e: e["ev"] == "next" and e["num"] == 2, lambda e: dict(e, delay=11)), "flag"),
              ("Backoff: one item removed", "Trace_Backoff",
               change_first(evs, lambda e: e["ev"] == "next" and e["num"] == 3, lambda e: None), "flag"),
              ("Backoff: size_hint announces more than the schedule holds", "Trace_Backoff",
               change_first(evs, lambda e: e["ev"] == "hint", lambda e: dict(e, lo=4)), "flag"),
              ("Backoff: size_hint's upper bound below what is left", "Trace_Backoff",
               change_first(evs, lambda e: e["ev"] == "hint", lambda e: dict(e, bounded=True, hi=2)), "flag")]
    for i, (name, mod, ev2, expect) in enumerate(tests):
        r = verdicts(mod, ev2, "b%d" % i)
        ok = (expect == "accept" and not r["flags"] and not r["notes"]) or (expect == "flag" and r["flags"]) or \
             (expect == "note_or_flag" and (r["flags"] or r["notes"]))
        out.append({"case": name, "expected": expect, "result": r, "as_expected": bool(ok)})
        log("[selftest] %-80s -> %s %s" % (name, "OK" if ok else "UNEXPECTED", r["flags"] or r["notes"]))
    return out


def proofs():
    """TLAPS: the parametric (any number of peers) proofs under spec/proofs are re-checked."""
    import re
    import shutil
    out = []
    pdir = os.path.join(VERIF, "spec", "proofs")
    for mod in sorted(f[:-4] for f in os.listdir(pdir) if f.endswith("Proof.tla")):
        shutil.rmtree(os.path.join(pdir, ".tlacache"), ignore_errors=True)
        p = sh(["tlapm", "--threads", "6", "-I", "..", mod + ".tla"], cwd=pdir, timeout=900, check=False)
        m = re.search(r"All (\d+) obligations proved", p.stdout or "")
        out.append({"module": mod, "all_proved": bool(m), "obligations": int(m.group(1)) if m else None,
                    "tail": "" if m else (p.stdout or "")[-800:]})
        log("[selftest] TLAPS %s: %s" % (mod, ("all %s obligations proved" % m.group(1)) if m else "NOT proved"))
        shutil.rmtree(os.path.join(pdir, ".tlacache"), ignore_errors=True)
    return out


def run():
    build_harness()
    work = Work("selftest")
    try:
        dev = deviations(work)
        tb = trace_binding(work) + e2e_binding(work)
        pr = proofs()
    finally:
        work.cleanup()
    res = {"deviation_constants": dev, "trace_binding": tb, "tlaps_proofs": pr}
    with open(os.path.join(VERIF, "selftest_results.json"), "w") as f:
        json.dump(res, f, indent=1)
    bad = [d for d in dev if not d.get("counterexample_found")] + [t for t in tb if not t["as_expected"]] + \
        [x for x in pr if not x["all_proved"]]
    print("selftest: %d deviation constants, %d trace-binding cases, %d unexpected" % (len(dev), len(tb), len(bad)))
    for b in bad:
        print("UNEXPECTED:", json.dumps(b)[:300])
    return 0 if not bad else 1
