"""./check --selftest : demonstrates that the specifications are bound to the code and not vacuous.

 1. Deviation constants: for every named deviation of a Layer A / model module, flipping the constant
    makes TLC produce a counterexample (the invariants can fail).
 2. Trace binding: a recorded real trace is accepted; the same trace with one field corrupted or one
    event removed is flagged by the trace specification (VIOL for Layer B, DRIFT for Layer A).
Results are written to /verif/selftest_results.json.
"""
import json
import os

import routers
from common import BIN, VERIF, Work, build_harness, cfg_with, log, sh, tlc

DEVIATIONS = [
    # module, base cfg, constants
    ("ClientPubSub", "MC_ClientPubSub.cfg", ["FixD7", "FixD8"]),
    ("ServerReg", "MC_ServerReg.cfg", ["FixD10", "FixD18", "AtomicCreate"]),
    ("ServerReg", "MC_ServerReg_live.cfg", ["FixD15"]),
    ("KeepAlive", "MC_KeepAlive.cfg", ["FixD11", "FixD17"]),
    ("Requestor", "MC_Requestor.cfg", ["RouteByCid"]),
    ("ServerLife", "MC_ServerLife.cfg", ["LockOrderAsCode", "CloseChannels"]),
    ("RequestorLife", "MC_RequestorLife.cfg", ["CidNeverReused", "ReconnectKeepsPending"]),
    ("ReplierLife", "MC_ReplierLife.cfg", ["BindErrorRecoverable"]),
]


def deviations(work):
    out = []
    for kind in ("pubsub", "reqrep"):
        for r in routers.sensitivity(kind, work):
            r["module"] = routers.KINDS[kind]["model"]
            out.append(r)
    for mod, cfg, consts in DEVIATIONS:
        for c in consts:
            p = cfg_with(cfg, work, "dev-%s-%s.cfg" % (mod, c), {c: "FALSE"})
            r = tlc(mod, p, work, workers=8, timeout=1800)
            out.append({"module": mod, "cfg": cfg, "constant": c, "counterexample_found": not r.ok,
                        "violated": r.violated or r.errors[:1], "states": r.distinct})
            log("[selftest] %s %s=FALSE -> %s %s" % (mod, c, "counterexample" if not r.ok else "NO counterexample", r.violated))
    return out


def _validate(work, mod, cfg, lines, tag):
    p = work.path("st-%s.ndjson" % tag)
    with open(p, "w") as f:
        f.write("\n".join(lines) + "\n")
    r = tlc(mod, cfg, work, workers=1, trace=p, timeout=600)
    return {"accepted_fully": r.ok, "flags": [v["kind"] for v in r.viol], "drift": [n["what"] for n in r.notes]}


def trace_binding(work):
    out = []
    # a small deterministic pub/sub run
    sched = {"id": "selftest", "steps": [
        {"op": "reg_sub", "id": 1}, {"op": "reg_pub", "id": 1}, {"op": "poll"},
        {"op": "publish", "id": 1}, {"op": "block", "id": 1, "which": "flush"}, {"op": "poll"},
        {"op": "publish", "id": 1}, {"op": "unblock", "id": 1, "which": "flush"}, {"op": "poll"},
        {"op": "end", "id": 1}, {"op": "poll"}, {"op": "close"}, {"op": "poll"}]}
    sf = work.path("st-sched.jsonl")
    open(sf, "w").write(json.dumps(sched) + "\n")
    tr = work.path("st-pubsub.ndjson")
    sh([os.path.join(BIN, "router_pubsub"), "--schedules", sf, "--out", tr])
    lines = [x for x in open(tr).read().split("\n") if x]
    evs = [json.loads(x) for x in lines]

    def mutate(fn):
        res = []
        done = False
        for e in evs:
            e2 = dict(e)
            if not done:
                r = fn(e2)
                if r == "drop":
                    done = True
                    continue
                if r:
                    done = True
            res.append(json.dumps(e2))
        return res

    def corrupt_item(e):
        if e["ev"] == "si_send":
            e["item"] = [1, 2] if e["item"] == [1, 1] else [1, 1]
            return True

    def drop_adopt(e):
        if e["ev"] == "adopt" and e["kind"] == "sub":
            return "drop"

    def drop_flush(e):
        if e["ev"] == "si_flush" and e["res"] == "ok":
            return "drop"

    def drop_second_send(e):
        if e["ev"] == "si_send" and e["item"] == [1, 2]:
            return "drop"

    for name, mod, cfg, fn, expect in [
        ("pubsub Layer B: unmodified trace", "Trace_PubSubIface", "Trace_PubSubIface.cfg", None, "accept"),
        ("pubsub Layer B: one delivered item corrupted", "Trace_PubSubIface", "Trace_PubSubIface.cfg", corrupt_item, "flag"),
        ("pubsub Layer B: subscriber adoption event removed", "Trace_PubSubIface", "Trace_PubSubIface.cfg", drop_adopt, "flag"),
        ("pubsub Layer B: one delivery removed (loss)", "Trace_PubSubIface", "Trace_PubSubIface.cfg", drop_second_send, "flag"),
        ("pubsub Layer A: unmodified trace", "Trace_PubSubRouter", "Trace_PubSubRouter.cfg", None, "accept"),
        ("pubsub Layer A: one flush poll removed", "Trace_PubSubRouter", "Trace_PubSubRouter.cfg", drop_flush, "drift"),
    ]:
        r = _validate(work, mod, cfg, lines if fn is None else mutate(fn), name.split(":")[0].replace(" ", ""))
        ok = (expect == "accept" and not r["flags"] and not r["drift"]) or (expect == "flag" and r["flags"]) or (expect == "drift" and r["drift"])
        out.append({"case": name, "expected": expect, "result": r, "as_expected": bool(ok)})
        log("[selftest] %-60s -> %s %s" % (name, "OK" if ok else "UNEXPECTED", r["flags"] or r["drift"]))
    return out


def run():
    build_harness()
    work = Work("selftest")
    try:
        dev = deviations(work)
        tb = trace_binding(work)
    finally:
        work.cleanup()
    res = {"deviation_constants": dev, "trace_binding": tb}
    with open(os.path.join(VERIF, "selftest_results.json"), "w") as f:
        json.dump(res, f, indent=1)
    bad = [d for d in dev if not d.get("counterexample_found")] + [t for t in tb if not t["as_expected"]]
    print("selftest: %d deviation constants, %d trace-binding cases, %d unexpected" % (len(dev), len(tb), len(bad)))
    for b in bad:
        print("UNEXPECTED:", json.dumps(b)[:300])
    return 0 if not bad else 1
