"""Per-property checks. Each returns the exit code and writes evidence/<id>.json."""
import json
import os
import time

import routers
from common import (ToolError, Work, build_harness, log, seed, verdict, write_evidence, write_replay)

ROUTER_PROPS = {
    # pid: (router kinds, level, what this run decides)
    "C01": (["pubsub"], "model_checking"),
    "C08": (["pubsub", "reqrep"], "model_checking"),
    "C09": (["pubsub", "reqrep"], "model_checking"),
    "C16": (["pubsub", "reqrep"], "model_checking"),
    "C02": (["reqrep"], "model_checking"),
    "C10": (["reqrep"], "model_checking"),
}

ROUTER_ASSUME = [
    "TLC results are exhaustive only for the constants of the configuration named in coverage.model_cfg",
    "mock sinks/streams answer according to a mode the driver sets between outer polls; a poll runs on one thread",
    "futures-mpsc registration channel and tokio-stream StreamMap are the real ones in the replay, and modelled from their source in the specification",
    "QUIC transport is replaced by mocks at router level (reliable ordered delivery per stream is assumed)",
]


def _available(kinds):
    out = []
    for k in kinds:
        K = routers.KINDS[k]
        if os.path.exists(os.path.join(routers.__file__.rsplit("/lib/", 1)[0], "spec", K["model"] + ".tla")) and \
                os.path.exists(os.path.join(routers.__file__.rsplit("/lib/", 1)[0], "harness", "src", "bin", K["bin"] + ".rs")):
            out.append(k)
    return out


def router_check(pid, tier):
    kinds, level = ROUTER_PROPS[pid]
    kinds = _available(kinds)
    t0 = time.time()
    results = [routers.pipeline(k, tier) for k in kinds]
    for r in results:
        if not r["model"]["ok"]:
            raise ToolError("TLC reports the %s model violates %s -- the specification of the current code is "
                            "inconsistent with the property; see DESIGN.md 2.2\n%s" % (
                                r["kind"], r["model"]["violated"] or r["model"]["errors"], r["model"].get("tail", "")[-3000:]))
    viols = []
    for r in results:
        for v in r["viol"]:
            if pid in v["props"]:
                v = dict(v)
                v["router"] = r["kind"]
                v["kind"] = "%s:%s" % (r["kind"], v["kind"])
                viols.append(v)

    server_part = fan_part = None
    if pid in ("C01", "C02"):
        # "... and to no subscriber of any other topic" / "the" router of a topic: the per-topic routers are
        # selected (and created, once) by the server's topic map; isolation of names and concurrent first
        # registrations are exercised over loopback QUIC (raw-peer e2e pipeline, ServerReg model)
        import e2e_checks
        server_part = e2e_checks.server_pipeline(tier)
        if not server_part["model_ok"]:
            raise ToolError("TLC reports ServerReg violates its properties:\n" + server_part["model_tail"])
        for v in server_part["viol"]:
            if pid in v["props"]:
                viols.append(dict(v, router="server", kind="server:" + v["kind"], schedule=None, trace=v.get("context", [])))
    pl_part = None
    if pid == "C10":
        # the client library's side (rejected repliers keep re-registering) together with the server
        import e2e_checks
        pl_part = e2e_checks.replife_pipeline(tier)
        if not pl_part["model_ok"]:
            raise ToolError("TLC reports ReplierLife violates its properties:\n" + pl_part["model_tail"])
        for v in pl_part["viol"]:
            if pid in v["props"]:
                viols.append(dict(v, router="replife", kind="replife:" + v["kind"]))
    sd_part = None
    if pid == "C16":
        # Server::shutdown itself (lock order, close-then-join) and the real signal path
        import e2e_checks
        sd_part = e2e_checks.shutdown_pipeline(tier)
        if not sd_part["model_ok"]:
            raise ToolError("TLC reports ServerLife violates its properties:\n" + sd_part["model_tail"])
        for v in sd_part["viol"]:
            if pid in v["props"]:
                viols.append(dict(v, router="server", kind="shutdown:" + v["kind"], schedule=None, trace=v.get("context", [])))
        for n in sd_part["inconclusive"][:5]:
            log("NOTE shutdown run=%s line=%s inconclusive: %s" % (n["run"], n["line"], n["what"]))
    if pid == "C01":
        # the same schedules at system level: real publishers and subscribers on one topic
        fan_part = e2e_checks.fanout_pipeline(tier)
        for v in fan_part["viol"]:
            viols.append(dict(v, router="system", kind="fanout:" + v["kind"]))
        for n in fan_part["inconclusive"][:5]:
            log("NOTE fanout run=%s line=%s inconclusive: %s" % (n["run"], n["line"], n["what"]))

    def mk(v):
        return write_replay(pid, v["kind"], {
            "property": pid, "router": v["router"], "signature": v["kind"], "line": v["line"],
            "schedule": v["schedule"], "trace": v["trace"],
            "how": "./check %s --replay <this file>" % pid})

    rc, n_new, hit = verdict(pid, viols, mk)
    cov = {
        "states": sum(r["model"]["states"] for r in results),
        "transitions": sum(r["model"]["transitions"] for r in results),
        "traces_validated_against_impl": sum(r["runs"] for r in results) + (fan_part["runs"] if fan_part else 0) + (sd_part["runs"] if sd_part else 0) + (pl_part["runs"] if pl_part else 0),
        "events_validated": sum(r["events"] for r in results) + (fan_part["events"] if fan_part else 0) + (sd_part["events"] if sd_part else 0) + (pl_part["events"] if pl_part else 0),
        "exhaustive": all(m.get("complete", True) for r in results for m in r["models"]),
        "configurations_stopped_at_time_budget": [m["cfg"] for r in results for m in r["models"] if not m.get("complete", True)],
        "models": [{k: m.get(k) for k in ("module", "cfg", "states", "transitions", "depth", "wall_s", "complete",
                                           "action_coverage", "actions_never_taken")} for r in results for m in r["models"]],
        "schedules": {r["kind"]: r["schedules"] for r in results},
        "runs_flagged_for_this_property": len(viols),
        "runs_flagged_any_property": sum(r["n_viol"] for r in results),
        "spec_drift_notes": sum(r["n_drift"] for r in results),
        "spec_drift_samples": [d for r in results for d in r["drift"][:3]],
        "known_findings_hit": hit,
        "pipeline_reused_from_cache": [r["kind"] for r in results if r.get("cached")],
        "samples": [s for r in results for s in r["samples"]][:4],
        "server_level": ({"name_isolation_pairs": 13, "concurrent_first_registration_rounds": e2e_checks.TIERS[tier]["race"],
                          "events_validated": server_part["events"], "models": server_part["models"]} if server_part else None),
        "system_level_repliers": ({k: pl_part[k] for k in ("models", "schedules_distinct", "schedules_used", "events", "answers_checked",
                                                            "probes_after_changes", "n_viol", "n_inconclusive", "sample", "wall_s")} if pl_part else None),
        "system_level_shutdown": ({k: sd_part[k] for k in ("models", "cases_total", "cases_used", "stalled_cases", "events", "listen_returned",
                                                            "listen_hung_with_a_peer_that_does_not_read", "n_viol", "n_inconclusive", "sample", "wall_s")}
                                  if sd_part else None),
        "system_level_fanout": ({k: fan_part[k] for k in ("schedules_from_model", "distinct_after_projection", "model_schedules_used",
                                                           "random_schedules", "runs", "events", "deliveries_checked", "n_viol",
                                                           "n_inconclusive", "sample", "wall_s")} if fan_part else None),
        "explanation": "TLC exhaustively checks the implementation-shaped router module(s) against the "
                       "property-level module(s) for the configured bound (states/transitions above), then "
                       "every generated and random schedule is replayed on the real router future and TLC "
                       "validates each recorded trace against the property-level trace specification.",
    }
    write_evidence(pid, tier, level, cov, time.time() - t0, n_new, ROUTER_ASSUME)
    return rc


SERVER_ASSUME = [
    "loopback QUIC with certificates generated in the run; raw peers bypass the client library",
    "stream opens inside one case are sequential; concurrency of the registration path is covered by the ServerReg model and the stall scenario",
    "'never' is concluded from a 30 s bound (stall scenario) / 10 s bounds (probes); normal completion takes milliseconds",
]


def server_check(pid, tier):
    """C11 / C17: ServerReg.tla model + raw-peer e2e + (C11) the router-level frame-sequence runs."""
    import e2e_checks
    t0 = time.time()
    sp = e2e_checks.server_pipeline(tier)
    if not sp["model_ok"]:
        raise ToolError("TLC reports ServerReg violates its properties on the repaired flow:\n" + sp["model_tail"])
    viols = [dict(v, kind="server:" + v["kind"]) for v in sp["viol"] if pid in v["props"]]
    models = list(sp["models"])
    extra = {}
    if pid == "C11":
        rr = routers.pipeline("reqrep", tier)
        ps = routers.pipeline("pubsub", tier)
        for r in (rr, ps):
            if not r["model"]["ok"]:
                raise ToolError("router model violated: %s" % r["model"]["violated"])
            for v in r["viol"]:
                if pid in v["props"]:
                    viols.append(dict(v, kind="%s:%s" % (r["kind"], v["kind"]), event={}, context=v.get("trace", [])[-25:]))
            models += [{k: m[k] for k in ("module", "cfg", "states", "transitions", "wall_s")} for m in r["models"]]
        extra = {"router_runs": rr["runs"] + ps["runs"], "router_events": rr["events"] + ps["events"]}

    def mk(v):
        return write_replay(pid, v["kind"], {"property": pid, "signature": v["kind"], "event": v.get("event"),
                                             "context": v.get("context"), "schedule": v.get("schedule"),
                                             "router": v.get("router"), "how": "./check %s (deterministic for VERIF_SEED)" % pid})
    rc, n_new, hit = verdict(pid, viols, mk)
    cov = {
        "states": sum(m["states"] for m in models), "transitions": sum(m["transitions"] for m in models),
        "traces_validated_against_impl": sp["runs"] + extra.get("router_runs", 0),
        "events_validated": sp["events"] + extra.get("router_events", 0),
        "models": models, "cases_enumerated_by_tlc": sp["cases_total"], "cases_used": sp["cases_used"],
        "known_findings_hit": hit, "samples": sp["samples"][:12],
        "pipeline_reused_from_cache": bool(sp.get("cached")),
        "explanation": "TLC checks ServerReg.tla (answered truthfully, refusal creates no topic, no channel send under the global lock; "
                       "liveness: a registration on another topic is served although one topic is stalled) and enumerates the first-frame/"
                       "topic assignments; raw QUIC peers replay them against the real server, hook events from handle_stream and the "
                       "peers' observations are validated by TLC against the specification; a stalled topic with an over-full "
                       "registration queue is built for real and another topic is probed.",
    }
    write_evidence(pid, tier, "model_checking", cov, time.time() - t0, n_new, SERVER_ASSUME + (ROUTER_ASSUME if pid == "C11" else []))
    return rc


def replay(pid, path):
    payload = json.load(open(path))
    if payload.get("harness_died"):
        print(json.dumps(payload, indent=1)[:4000])
        return CHECKS[pid](pid, payload.get("tier", "quick"))
    if payload.get("publife_schedule"):
        from common import BIN, sh, tlc
        build_harness()
        work = Work("replay")
        try:
            sf = work.path("sched.jsonl")
            with open(sf, "w") as f:
                f.write(json.dumps(payload["publife_schedule"]) + "\n")
            tr = work.path("trace.ndjson")
            sh([os.path.join(BIN, "e2e"), "publife", "--cases", sf, "--out", tr, "--par", "1"], timeout=600)
            print(open(tr).read())
            r = tlc("Trace_PubSubLife", "Trace_PubSubLife.cfg", work, workers=1, trace=tr, timeout=600)
            for v in r.viol:
                print("flagged:", v)
            if [v for v in r.viol if pid in v["props"]]:
                print("VIOLATION property=%s replay=%s" % (pid, path))
                return 1
            print("replay: no violation of %s" % pid)
            return 0
        finally:
            work.cleanup()
    if payload.get("reqlife_schedule"):
        from common import BIN, sh, tlc
        build_harness()
        work = Work("replay")
        try:
            sf = work.path("sched.jsonl")
            with open(sf, "w") as f:
                f.write(json.dumps(payload["reqlife_schedule"]) + "\n")
            tr = work.path("trace.ndjson")
            sh([os.path.join(BIN, "e2e"), "reqlife", "--cases", sf, "--out", tr, "--par", "1"], timeout=600)
            print(open(tr).read())
            r = tlc("Trace_RequestorLife", "Trace_RequestorLife.cfg", work, workers=1, trace=tr, timeout=600)
            for v in r.viol:
                print("flagged:", v)
            if [v for v in r.viol if pid in v["props"]]:
                print("VIOLATION property=%s replay=%s" % (pid, path))
                return 1
            print("replay: no violation of %s" % pid)
            return 0
        finally:
            work.cleanup()
    if payload.get("router") == "server":
        print("server-level case: re-run ./check %s (deterministic for VERIF_SEED); recorded context:" % pid)
        print(json.dumps(payload.get("trace"), indent=1)[:6000])
        return 0
    if payload.get("router") == "replife":
        from common import BIN, sh, tlc
        build_harness()
        work = Work("replay")
        try:
            sf = work.path("sched.jsonl")
            with open(sf, "w") as f:
                f.write(json.dumps(payload["schedule"]) + "\n")
            tr = work.path("trace.ndjson")
            sh([os.path.join(BIN, "e2e"), "replife", "--cases", sf, "--out", tr, "--par", "1"], timeout=600)
            print(open(tr).read())
            r = tlc("Trace_ReplierLife", "Trace_ReplierLife.cfg", work, workers=1, trace=tr, timeout=600)
            for v in r.viol:
                print("flagged:", v)
            if [v for v in r.viol if pid in v["props"]]:
                print("VIOLATION property=%s replay=%s" % (pid, path))
                return 1
            print("replay: no violation of %s" % pid)
            return 0
        finally:
            work.cleanup()
    if payload.get("router") == "system":
        import e2e_checks
        from common import BIN, sh, tlc
        build_harness()
        work = Work("replay")
        try:
            sf = work.path("sched.jsonl")
            with open(sf, "w") as f:
                f.write(json.dumps(payload["schedule"]) + "\n")
            tr = work.path("trace.ndjson")
            sh([os.path.join(BIN, "e2e"), "fanout", "--cases", sf, "--out", tr, "--par", "1"], timeout=600)
            print(open(tr).read())
            r = tlc("Trace_Fanout", "Trace_Fanout.cfg", work, workers=1, trace=tr, timeout=600)
            for v in r.viol:
                print("flagged:", v)
            if r.viol:
                print("VIOLATION property=%s replay=%s" % (pid, path))
                return 1
            print("replay: no violation of %s" % pid)
            return 0
        finally:
            work.cleanup()
    if "router" in payload:
        build_harness()
        work = Work("replay")
        try:
            sf = work.path("sched.jsonl")
            with open(sf, "w") as f:
                f.write(json.dumps(payload["schedule"]) + "\n")
            rv = routers.replay_and_validate(payload["router"], work, sf, "replay")
            print(open(rv["trace"]).read())
            bad = [v for v in rv["viol"] if pid in v["props"]]
            for v in rv["viol"]:
                print("flagged:", v)
            if bad:
                print("VIOLATION property=%s replay=%s" % (pid, path))
                return 1
            print("replay: no violation of %s" % pid)
            return 0
        finally:
            work.cleanup()
    import pure
    return pure.replay(pid, payload, path)


def selftest():
    import selftest as st
    return st.run()


CHECKS = {p: router_check for p in ROUTER_PROPS}


def _pure(pid, tier):
    import pure
    rc = pure.check(pid, tier)
    if pid == "C07":
        # server-side enforcement and isolation: the raw-peer e2e run
        import e2e_checks
        sp = e2e_checks.server_pipeline(tier)
        viols = [dict(v, kind="server:" + v["kind"]) for v in sp["viol"] if "C07" in v["props"]]
        rc2, n_new, hit = verdict(pid, viols, lambda v: write_replay(pid, v["kind"], {"property": pid, "signature": v["kind"], "event": v.get("event"), "context": v.get("context")}))
        ev_path = os.path.join(os.path.dirname(os.path.dirname(os.path.abspath(__file__))), "evidence", "C07.json")
        ev = json.load(open(ev_path))
        ev["coverage"]["server_side"] = {"raw_peer_cases": sp["cases_used"], "events_validated": sp["events"],
                                         "runs_flagged": len(viols), "isolation_pairs": 13}
        ev["violations"] = ev.get("violations", 0) + n_new
        json.dump(ev, open(ev_path, "w"), indent=1, sort_keys=True)
        rc = max(rc, rc2)
    if pid == "C06":
        # the consuming client itself: a real Subscriber process under long runs of message-less frames
        from common import BIN, sh, tlc
        work = Work("subflood")
        try:
            tr = work.path("trace-subflood.ndjson")
            p = sh([os.path.join(BIN, "e2e"), "subflood", "--out", tr, "--frames", "60000" if tier == "quick" else "70000"], timeout=1200)
            r = tlc("Trace_SubFlood", "Trace_SubFlood.cfg", work, workers=1, trace=tr, timeout=600)
            if not r.ok:
                raise ToolError("trace validation (Trace_SubFlood) did not complete:\n" + r.out[-2000:])
            evs = [json.loads(x) for x in open(tr).read().split("\n") if x]
        finally:
            work.cleanup()
        viols = [dict(v, kind="subflood:" + v["kind"]) for v in r.viol if pid in v["props"]]
        rc2, n_new, hit = verdict(pid, viols, lambda v: write_replay(pid, v["kind"], {
            "property": pid, "signature": v["kind"], "events": evs, "how": "harness/target/debug/e2e subflood --out <file> --frames 60000"}))
        ev_path = os.path.join(os.path.dirname(os.path.dirname(os.path.abspath(__file__))), "evidence", pid + ".json")
        ev = json.load(open(ev_path))
        ev["coverage"]["consuming_client"] = {"runs": [e for e in evs if e["ev"] == "subflood"], "known_findings_hit": hit,
                                              "what": "a real Subscriber in a child process, 60 000 buffered frames of each kind (empty batches, control frames, a mix), then a valid message"}
        ev["coverage"]["traces_validated_against_impl"] = ev["coverage"].get("traces_validated_against_impl", 0) + 3
        ev["violations"] = ev.get("violations", 0) + n_new
        json.dump(ev, open(ev_path, "w"), indent=1, sort_keys=True)
        rc = max(rc, rc2)
    if pid in ("C04", "C12"):
        # requestor handles across clones, connection losses and successors (RequestorLife.tla)
        import e2e_checks
        rl = e2e_checks.reqlife_pipeline(tier)
        if not rl["model_ok"]:
            raise ToolError("TLC reports RequestorLife violates its invariants:\n" + rl["model_tail"])
        viols = [dict(v, kind="reqlife:" + v["kind"]) for v in rl["viol"] if pid in v["props"]]
        rc2, n_new, hit = verdict(pid, viols, lambda v: write_replay(pid, v["kind"], {
            "property": pid, "signature": v["kind"], "reqlife_schedule": v.get("schedule"), "event": v.get("event"), "context": v.get("context"),
            "how": "./check %s --replay <this file>" % pid}))
        ev_path = os.path.join(os.path.dirname(os.path.dirname(os.path.abspath(__file__))), "evidence", pid + ".json")
        ev = json.load(open(ev_path))
        ev["coverage"]["requestor_life"] = {k: rl[k] for k in ("models", "schedules", "runs", "events", "calls_compared", "n_viol", "n_inconclusive", "sample", "wall_s")}
        ev["coverage"]["states"] = ev["coverage"].get("states", 0) + sum(m["states"] for m in rl["models"])
        ev["coverage"]["traces_validated_against_impl"] = ev["coverage"].get("traces_validated_against_impl", 0) + rl["runs"]
        ev["violations"] = ev.get("violations", 0) + n_new
        json.dump(ev, open(ev_path, "w"), indent=1, sort_keys=True)
        rc = max(rc, rc2)
    if pid == "C12":
        # publisher / subscriber handles across connection losses, with traffic (PubSubLife.tla)
        import e2e_checks
        pl = e2e_checks.publife_pipeline(tier)
        if not pl["model_ok"]:
            raise ToolError("TLC reports PubSubLife violates its invariants:\n" + pl["model_tail"])
        viols = [dict(v, kind="publife:" + v["kind"]) for v in pl["viol"] if pid in v["props"]]
        rc3, n_new, hit = verdict(pid, viols, lambda v: write_replay(pid, v["kind"], {
            "property": pid, "signature": v["kind"], "publife_schedule": v.get("schedule"), "event": v.get("event"), "context": v.get("context"),
            "how": "./check %s --replay <this file>" % pid}))
        ev_path = os.path.join(os.path.dirname(os.path.dirname(os.path.abspath(__file__))), "evidence", pid + ".json")
        ev = json.load(open(ev_path))
        ev["coverage"]["pubsub_life"] = {k: pl[k] for k in ("models", "schedules", "runs", "events", "deliveries_checked", "n_viol", "n_inconclusive", "sample", "wall_s")}
        ev["coverage"]["states"] = ev["coverage"].get("states", 0) + sum(m["states"] for m in pl["models"])
        ev["coverage"]["traces_validated_against_impl"] = ev["coverage"].get("traces_validated_against_impl", 0) + pl["runs"]
        ev["violations"] = ev.get("violations", 0) + n_new
        json.dump(ev, open(ev_path, "w"), indent=1, sort_keys=True)
        rc = max(rc, rc3)
    return rc


CHECKS["C11"] = server_check
CHECKS["C17"] = server_check
for _p in ("C12", "C15", "C03", "C04", "C05", "C06", "C07", "C13", "C14"):
    CHECKS[_p] = _pure
