"""Per-property checks. Each returns the exit code and writes evidence/<id>.json."""
import json
import os
import time

import routers
from common import (ToolError, Work, build_harness, log, seed, verdict, write_evidence, write_replay)

ROUTER_PROPS = {
    # pid: (router kinds, level, what this run decides)
    "C01": (["pubsub"], "model_checking"),
    "C08": (["pubsub", "reqrep"], "model_checking"),
    "C09": (["pubsub", "reqrep"], "model_checking"),
    "C16": (["pubsub", "reqrep"], "model_checking"),
    "C02": (["reqrep"], "model_checking"),
    "C10": (["reqrep"], "model_checking"),
}

ROUTER_ASSUME = [
    "TLC results are exhaustive only for the constants of the configuration named in coverage.model_cfg",
    "mock sinks/streams answer according to a mode the driver sets between outer polls; a poll runs on one thread",
    "futures-mpsc registration channel and tokio-stream StreamMap are the real ones in the replay, and modelled from their source in the specification",
    "QUIC transport is replaced by mocks at router level (reliable ordered delivery per stream is assumed)",
]


def _available(kinds):
    out = []
    for k in kinds:
        K = routers.KINDS[k]
        if os.path.exists(os.path.join(routers.__file__.rsplit("/lib/", 1)[0], "spec", K["model"] + ".tla")) and \
                os.path.exists(os.path.join(routers.__file__.rsplit("/lib/", 1)[0], "harness", "src", "bin", K["bin"] + ".rs")):
            out.append(k)
    return out


def router_check(pid, tier):
    kinds, level = ROUTER_PROPS[pid]
    kinds = _available(kinds)
    t0 = time.time()
    results = [routers.pipeline(k, tier) for k in kinds]
    for r in results:
        if not r["model"]["ok"]:
            raise ToolError("TLC reports the %s model violates %s -- the specification of the current code is "
                            "inconsistent with the property; see DESIGN.md 2.2\n%s" % (
                                r["kind"], r["model"]["violated"] or r["model"]["errors"], r["model"].get("tail", "")[-3000:]))
    viols = []
    for r in results:
        for v in r["viol"]:
            if pid in v["props"]:
                v = dict(v)
                v["router"] = r["kind"]
                v["kind"] = "%s:%s" % (r["kind"], v["kind"])
                viols.append(v)

    def mk(v):
        return write_replay(pid, v["kind"], {
            "property": pid, "router": v["router"], "signature": v["kind"], "line": v["line"],
            "schedule": v["schedule"], "trace": v["trace"],
            "how": "./check %s --replay <this file>" % pid})

    rc, n_new, hit = verdict(pid, viols, mk)
    cov = {
        "states": sum(r["model"]["states"] for r in results),
        "transitions": sum(r["model"]["transitions"] for r in results),
        "traces_validated_against_impl": sum(r["runs"] for r in results),
        "events_validated": sum(r["events"] for r in results),
        "exhaustive": True,
        "models": [{k: m[k] for k in ("module", "cfg", "states", "transitions", "depth", "wall_s",
                                       "action_coverage", "actions_never_taken")} for r in results for m in r["models"]],
        "schedules": {r["kind"]: r["schedules"] for r in results},
        "runs_flagged_for_this_property": len(viols),
        "runs_flagged_any_property": sum(r["n_viol"] for r in results),
        "spec_drift_notes": sum(r["n_drift"] for r in results),
        "spec_drift_samples": [d for r in results for d in r["drift"][:3]],
        "known_findings_hit": hit,
        "pipeline_reused_from_cache": [r["kind"] for r in results if r.get("cached")],
        "samples": [s for r in results for s in r["samples"]][:4],
        "explanation": "TLC exhaustively checks the implementation-shaped router module(s) against the "
                       "property-level module(s) for the configured bound (states/transitions above), then "
                       "every generated and random schedule is replayed on the real router future and TLC "
                       "validates each recorded trace against the property-level trace specification.",
    }
    write_evidence(pid, tier, level, cov, time.time() - t0, n_new, ROUTER_ASSUME)
    return rc


def replay(pid, path):
    payload = json.load(open(path))
    if "router" in payload:
        build_harness()
        work = Work("replay")
        try:
            sf = work.path("sched.jsonl")
            with open(sf, "w") as f:
                f.write(json.dumps(payload["schedule"]) + "\n")
            rv = routers.replay_and_validate(payload["router"], work, sf, "replay")
            print(open(rv["trace"]).read())
            bad = [v for v in rv["viol"] if pid in v["props"]]
            for v in rv["viol"]:
                print("flagged:", v)
            if bad:
                print("VIOLATION property=%s replay=%s" % (pid, path))
                return 1
            print("replay: no violation of %s" % pid)
            return 0
        finally:
            work.cleanup()
    import pure
    return pure.replay(pid, payload, path)


def selftest():
    import selftest as st
    return st.run()


CHECKS = {p: router_check for p in ROUTER_PROPS}


def _pure(pid, tier):
    import pure
    return pure.check(pid, tier)


for _p in ("C03", "C05", "C06", "C07", "C13", "C14"):
    CHECKS[_p] = _pure
