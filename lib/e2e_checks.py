"""Server-level checks over loopback QUIC (C11, C17, the server half of C07)."""
import json
import os
import random
import time

from common import (cap_diverse, BIN, ToolError, Work, build_harness, cache_get, cache_put, log, seed, sh, tlc, tree_key)

TIERS = {"quick": {"cases": 60, "regs": 150, "race": 90}, "thorough": {"cases": 900, "regs": 400, "race": 1500}}


def server_pipeline(tier):
    key = "server-%s-%s-%d" % (tier, tree_key(), seed())
    c = cache_get(key)
    if c is not None:
        log("[server] reusing pipeline result computed %.0fs ago for the same tree/seed" % (time.time() - c["at"]))
        c["cached"] = True
        return c
    build_harness()
    T = TIERS[tier]
    work = Work("server-%s" % tier)
    t0 = time.time()
    res = {"at": time.time(), "cached": False}
    try:
        m1 = tlc("ServerReg", "MC_ServerReg.cfg", work, workers=8, timeout=1800, coverage=False)
        m2 = tlc("ServerReg", "MC_ServerReg_live.cfg", work, workers=8, timeout=1800)
        res["models"] = [{"module": "ServerReg", "cfg": c_, "states": m.distinct, "transitions": m.generated, "ok": m.ok,
                          "violated": m.violated or m.errors[:2], "wall_s": round(m.wall, 1)}
                         for c_, m in (("MC_ServerReg.cfg", m1), ("MC_ServerReg_live.cfg", m2))]
        res["model_ok"] = m1.ok and m2.ok
        res["model_tail"] = "" if res["model_ok"] else (m1.out[-2000:] + m2.out[-2000:])
        cases = m1.case_lines()
        total = len(cases)
        rnd = random.Random(seed())
        if len(cases) > T["cases"]:
            cases = rnd.sample(cases, T["cases"])
        log("[server] TLC ServerReg: %d + %d distinct states; %d cases enumerated, %d used" % (m1.distinct, m2.distinct, total, len(cases)))
        cf = work.path("cases.jsonl")
        with open(cf, "w") as f:
            for c_ in cases:
                f.write(json.dumps(c_) + "\n")
        viols = []
        events = runs = 0
        samples = []
        for tag, cmd in (("server", ["server", "--cases", cf, "--race", str(T["race"])]), ("stall", ["stall", "--regs", str(T["regs"])])):
            trace = work.path("trace-%s.ndjson" % tag)
            p = sh([os.path.join(BIN, "e2e")] + cmd + ["--out", trace, "--seed", str(seed())], timeout=3600)
            summ = json.loads(p.stdout.strip().splitlines()[-1])
            r = tlc("Trace_ServerReg", "Trace_ServerReg.cfg", work, workers=1, trace=trace, timeout=3600, xmx="8g")
            if not r.ok:
                raise ToolError("trace validation did not complete for %s:\n%s" % (tag, r.out[-3000:]))
            lines = [x for x in open(trace).read().split("\n") if x]
            events += summ["events"]
            runs += summ["runs"]
            if tag == "server":
                samples = [json.loads(x) for x in lines[:10]]
            else:
                samples += [json.loads(x) for x in lines if '"other_topic_roundtrip"' in x or '"queued_registrations"' in x or '"flood"' in x][:6]
            for v in r.viol:
                v = dict(v)
                v["part"] = tag
                v["event"] = json.loads(lines[v["line"] - 1]) if v["line"] - 1 < len(lines) else {}
                v["context"] = [json.loads(x) for x in lines[max(0, v["line"] - 25):v["line"]]]
                viols.append(v)
        res.update({"cases_total": total, "cases_used": len(cases), "events": events, "runs": runs, "viol": cap_diverse(viols),
                    "n_viol": len(viols), "samples": samples, "wall_s": round(time.time() - t0, 1)})
    finally:
        work.cleanup()
    cache_put(key, res)
    return res


# ------------------------------------------------------------------ system-level fan-out (C01)
FAN_TIERS = {"quick": {"gen_env": 5, "sim": 2000, "random": 600, "cap": 6000},
             "thorough": {"gen_env": 6, "sim": 20000, "random": 6000, "cap": 60000}}


def _random_fanout_schedule(rnd):
    npubs, nsubs = rnd.randint(1, 4), rnd.randint(1, 5)
    steps = []
    for _ in range(rnd.randint(5, 60)):
        x = rnd.random()
        if x < 0.12:
            steps.append({"op": "reg_pub", "id": rnd.randint(1, npubs)})
        elif x < 0.27:
            steps.append({"op": "reg_sub", "id": rnd.randint(1, nsubs)})
        elif x < 0.75:
            steps.append({"op": "publish", "id": rnd.randint(1, npubs), "count": rnd.choice([1, 1, 1, 2, 3, 7, 40])})
        elif x < 0.80:
            steps.append({"op": "end", "id": rnd.randint(1, npubs)})
        elif x < 0.88:
            steps.append({"op": "block", "id": rnd.randint(1, nsubs)})
        elif x < 0.96:
            steps.append({"op": "unblock", "id": rnd.randint(1, nsubs)})
        else:
            steps.append({"op": "break", "id": rnd.randint(1, nsubs)})
    return steps


def fanout_pipeline(tier):
    """Real publishers/subscribers on one topic of the real server replay PubSubGen schedules (joins, ends,
    paused and departing subscribers); Trace_Fanout validates what every subscriber received."""
    key = "fanout-%s-%s-%d" % (tier, tree_key(), seed())
    c = cache_get(key)
    if c is not None:
        log("[fanout] reusing pipeline result computed %.0fs ago for the same tree/seed" % (time.time() - c["at"]))
        c["cached"] = True
        return c
    build_harness()
    T = FAN_TIERS[tier]
    work = Work("fanout-%s" % tier)
    t0 = time.time()
    res = {"at": time.time(), "cached": False}
    try:
        from common import cfg_with
        g = tlc("PubSubGen", cfg_with("MC_PubSubGen.cfg", work, "fgen.cfg", {"MaxEnv": T["gen_env"]}), work, workers=8, timeout=3600, xmx="16g")
        s = tlc("PubSubGen", "MC_PubSubGen_sim.cfg", work, workers=1, timeout=3600,
                extra=["-seed", str(seed() + 17), "-simulate", "num=%d" % T["sim"], "-depth", "600"])
        seen, scheds = set(), []
        n_model = 0
        for sc in g.sched_lines() + s.sched_lines():
            n_model += 1
            st = [x for x in sc if x["op"] not in ("poll", "close", "perr")]
            k = json.dumps(st)
            if st and k not in seen:
                seen.add(k)
                scheds.append(st)
        rnd = random.Random(seed())
        n_distinct = len(scheds)
        if len(scheds) > T["cap"]:
            scheds = rnd.sample(scheds, T["cap"])
        n_used_model = len(scheds)
        scheds += [_random_fanout_schedule(rnd) for _ in range(T["random"])]
        sf = work.path("fan-sched.jsonl")
        with open(sf, "w") as f:
            for i, st in enumerate(scheds):
                f.write(json.dumps({"id": "fan-%d" % i, "steps": st}) + "\n")
        trace = work.path("trace-fanout.ndjson")
        p = sh([os.path.join(BIN, "e2e"), "fanout", "--cases", sf, "--out", trace, "--seed", str(seed()), "--par", "8"], timeout=3600)
        summ = json.loads(p.stdout.strip().splitlines()[-1])
        r = tlc("Trace_Fanout", "Trace_Fanout.cfg", work, workers=1, trace=trace, timeout=3600, xmx="8g")
        if not r.ok:
            raise ToolError("trace validation (Trace_Fanout) did not complete:\n%s" % r.out[-3000:])
        lines = [x for x in open(trace).read().split("\n") if x]
        starts = {}
        for i, x in enumerate(lines):
            if x.startswith('{"ev":"case"'):
                starts[json.loads(x)["run"]] = i
        viols = []
        for v in r.viol:
            v = dict(v)
            b = starts.get(v["run"], max(0, v["line"] - 60))
            v["schedule"] = {"id": "fan-%d" % (v["run"] - 1), "steps": scheds[v["run"] - 1]} if 0 < v["run"] <= len(scheds) else None
            v["trace"] = [json.loads(x) for x in lines[b:v["line"]]][-300:]
            viols.append(v)
        inconclusive = [n for n in r.notes]
        items = sum(1 for x in lines if '"ev":"sub_item"' in x)
        if summ.get("of", summ["runs"]) != summ["runs"]:
            log("[fanout] stopped after %d of %d schedules: %d of them ran into their time limits" % (summ["runs"], summ["of"], summ.get("slow_cases", 0)))
            if not viols:
                raise ToolError("fan-out harness stopped early (%d slow schedules) without a verdict" % summ.get("slow_cases", 0))
        res.update({"schedules_from_model": n_model, "distinct_after_projection": n_distinct, "model_schedules_used": n_used_model,
                    "random_schedules": T["random"], "runs": summ["runs"], "events": summ["events"], "deliveries_checked": items,
                    "viol": cap_diverse(viols), "n_viol": len(viols), "inconclusive": inconclusive[:20], "n_inconclusive": len(inconclusive),
                    "sample": [json.loads(x) for x in lines[:14]], "wall_s": round(time.time() - t0, 1)})
        log("[fanout] %d schedules (%d from PubSubGen, %d random) on the real server: %d events, %d deliveries; flagged %d, inconclusive %d" % (
            summ["runs"], n_used_model, T["random"], summ["events"], items, len(viols), len(inconclusive)))
    finally:
        work.cleanup()
    cache_put(key, res)
    return res


# ------------------------------------------------------------------ graceful shutdown at system level (C16)
SD_TIERS = {"quick": {"cases": 30, "stalled": 3}, "thorough": {"cases": 500, "stalled": 40}}


def shutdown_pipeline(tier):
    """ServerLife.tla (registrations racing with Server::shutdown, two locks, close-then-join) model-checked;
    TLC enumerates the situations (ServerLifeCases); each is built for real, the server gets the interrupt
    signal and Trace_ServerLife validates hook events and observations."""
    key = "shutdown-%s-%s-%d" % (tier, tree_key(), seed())
    c = cache_get(key)
    if c is not None:
        log("[shutdown] reusing pipeline result computed %.0fs ago for the same tree/seed" % (time.time() - c["at"]))
        c["cached"] = True
        return c
    build_harness()
    T = SD_TIERS[tier]
    work = Work("shutdown-%s" % tier)
    t0 = time.time()
    res = {"at": time.time(), "cached": False}
    try:
        m = tlc("ServerLife", "MC_ServerLife.cfg", work, workers=8, timeout=1800, coverage=True)
        cov = m.coverage()
        res["models"] = [{"module": "ServerLife", "cfg": "MC_ServerLife.cfg", "states": m.distinct, "transitions": m.generated,
                          "ok": m.ok, "violated": m.violated or m.errors[:2], "wall_s": round(m.wall, 1),
                          "actions_never_taken": sorted(a for a, v in cov.items() if v[1] == 0)}]
        res["model_ok"] = m.ok
        res["model_tail"] = "" if m.ok else m.out[-3000:]
        g = tlc("ServerLifeCases", "MC_ServerLifeCases.cfg", work, workers=4, timeout=1800)
        cases = g.case_lines()
        total = len(cases)
        rnd = random.Random(seed())
        rnd.shuffle(cases)
        st = [c_ for c_ in cases if any(t["stall"] for t in c_["topics"])][:T["stalled"]]
        ok = [c_ for c_ in cases if not any(t["stall"] for t in c_["topics"])][:T["cases"] - len(st)]
        cases = ok + st
        rnd.shuffle(cases)
        cf = work.path("sd-cases.jsonl")
        with open(cf, "w") as f:
            for c_ in cases:
                f.write(json.dumps(c_) + "\n")
        trace = work.path("trace-shutdown.ndjson")
        p = sh([os.path.join(BIN, "e2e"), "shutdown", "--cases", cf, "--out", trace], timeout=7200)
        summ = json.loads(p.stdout.strip().splitlines()[-1])
        r = tlc("Trace_ServerLife", "Trace_ServerLife.cfg", work, workers=1, trace=trace, timeout=3600, xmx="8g")
        if not r.ok:
            raise ToolError("trace validation (Trace_ServerLife) did not complete:\n%s" % r.out[-3000:])
        lines = [x for x in open(trace).read().split("\n") if x]
        starts = [i for i, x in enumerate(lines) if x.startswith('{"case"') or '"ev":"case"' in x[:200]]
        viols = []
        for v in r.viol:
            v = dict(v)
            b = max([i for i in starts if i < v["line"]] or [0])
            v["event"] = json.loads(lines[v["line"] - 1]) if v["line"] - 1 < len(lines) else {}
            v["context"] = [json.loads(x) for x in lines[b:v["line"]]][-80:]
            viols.append(v)
        returned = sum(1 for x in lines if '"ev":"listen_returned"' in x)
        hung_ok = sum(1 for x in lines if '"ev":"listen_hung"' in x and '"stalled":true' in x)
        res.update({"cases_total": total, "cases_used": len(cases), "stalled_cases": len(st), "events": summ["events"], "runs": summ["runs"],
                    "listen_returned": returned, "listen_hung_with_a_peer_that_does_not_read": hung_ok,
                    "viol": cap_diverse(viols), "n_viol": len(viols), "inconclusive": r.notes[:10], "n_inconclusive": len(r.notes),
                    "sample": [json.loads(x) for x in lines[:30] if '"ev":"sub_summary"' not in x][:18], "wall_s": round(time.time() - t0, 1)})
        log("[shutdown] ServerLife %d states ok=%s; %d of %d situations built for real (%d with a peer that does not read): listen() returned %d times; flagged %d, inconclusive %d" % (
            m.distinct, m.ok, len(cases), total, len(st), returned, len(viols), len(r.notes)))
    finally:
        work.cleanup()
    cache_put(key, res)
    return res


# ------------------------------------------------------------------ requestor handles: clones, outages, successors (C04, C12)
RL_TIERS = {"quick": {"ex": 60, "succ": 70, "sim": 40, "simn": 400}, "thorough": {"ex": 700, "succ": 442, "sim": 1500, "simn": 3000}}


def reqlife_pipeline(tier):
    """RequestorLife.tla model-checked; RequestorLifeGen schedules (those that exercise a late reply meeting a
    waiting call first) replayed with the real client library, real server and a scripted wire-level replier;
    Trace_RequestorLife takes every step through the specification's own action and compares every outcome."""
    key = "reqlife-%s-%s-%d" % (tier, tree_key(), seed())
    c = cache_get(key)
    if c is not None:
        log("[reqlife] reusing pipeline result computed %.0fs ago for the same tree/seed" % (time.time() - c["at"]))
        c["cached"] = True
        return c
    build_harness()
    T = RL_TIERS[tier]
    work = Work("reqlife-%s" % tier)
    t0 = time.time()
    res = {"at": time.time(), "cached": False}
    try:
        m = tlc("RequestorLife", "MC_RequestorLife.cfg", work, workers=8, timeout=1800, coverage=True)
        cov = m.coverage()
        res["models"] = [{"module": "RequestorLife", "cfg": "MC_RequestorLife.cfg", "states": m.distinct, "transitions": m.generated,
                          "ok": m.ok, "violated": m.violated or m.errors[:2], "wall_s": round(m.wall, 1),
                          "actions_never_taken": sorted(a for a, v in cov.items() if v[1] == 0)}]
        res["model_ok"] = m.ok
        res["model_tail"] = "" if m.ok else m.out[-3000:]
        rnd = random.Random(seed())

        def pick(scheds, n):
            tagged = [s for s in scheds if s and s[-1].get("op") == "tag" and s[-1].get("f", 0) > 0]
            plain = [s for s in scheds if not (s and s[-1].get("op") == "tag" and s[-1].get("f", 0) > 0)]
            rnd.shuffle(tagged)
            rnd.shuffle(plain)
            sel = tagged[:max(n * 2 // 3, 1)]
            sel += plain[:n - len(sel)]
            return [[x for x in s if x.get("op") != "tag"] for s in sel], len(tagged)

        g1 = tlc("RequestorLifeGen", "MC_RequestorLifeGen.cfg", work, workers=8, timeout=1800)
        g2 = tlc("RequestorLifeGen", "MC_RequestorLifeGen_succ.cfg", work, workers=8, timeout=1800)
        g3 = tlc("RequestorLifeGen", "MC_RequestorLifeGen_sim.cfg", work, workers=1, timeout=1800,
                 extra=["-seed", str(seed() + 5), "-simulate", "num=%d" % T["simn"], "-depth", "100"])
        s1, t1 = pick(g1.sched_lines(), T["ex"])
        s2, t2 = pick(g2.sched_lines(), T["succ"])
        s3, t3 = pick(g3.sched_lines(), T["sim"])
        scheds = s1 + s2 + s3
        sf = work.path("rl-sched.jsonl")
        with open(sf, "w") as f:
            for i, st in enumerate(scheds):
                f.write(json.dumps({"id": "rl-%d" % i, "steps": st}) + "\n")
        trace = work.path("trace-reqlife.ndjson")
        p = sh([os.path.join(BIN, "e2e"), "reqlife", "--cases", sf, "--out", trace, "--seed", str(seed()), "--par", "16"], timeout=7200)
        summ = json.loads(p.stdout.strip().splitlines()[-1])
        r = tlc("Trace_RequestorLife", "Trace_RequestorLife.cfg", work, workers=1, trace=trace, timeout=3600, xmx="8g")
        if not r.ok:
            raise ToolError("trace validation (Trace_RequestorLife) did not complete:\n%s" % r.out[-3000:])
        lines = [x for x in open(trace).read().split("\n") if x]
        starts = {}
        for i, x in enumerate(lines):
            if x.startswith('{"ev":"case"'):
                starts[json.loads(x)["run"]] = i
        viols = []
        for v in r.viol:
            v = dict(v)
            b = starts.get(v["run"], max(0, v["line"] - 40))
            v["schedule"] = {"id": "rl-%d" % (v["run"] - 1), "steps": scheds[v["run"] - 1]} if 0 < v["run"] <= len(scheds) else None
            v["context"] = [json.loads(x) for x in lines[b:v["line"]]][-80:]
            v["event"] = json.loads(lines[v["line"] - 1]) if v["line"] - 1 < len(lines) else {}
            viols.append(v)
        res.update({"schedules": {"exhaustive_2x2": [len(g1.sched_lines()), len(s1), t1], "exhaustive_successors": [len(g2.sched_lines()), len(s2), t2],
                                  "simulated": [len(g3.sched_lines()), len(s3), t3], "legend": "[generated, used, tagged 'late reply meets a waiting call']"},
                    "runs": summ["runs"], "events": summ["events"], "calls_compared": sum(1 for x in lines if '"ev":"call_ret"' in x),
                    "viol": cap_diverse(viols), "n_viol": len(viols), "inconclusive": r.notes[:20], "n_inconclusive": len(r.notes),
                    "sample": [json.loads(x) for x in lines[:16]], "wall_s": round(time.time() - t0, 1)})
        log("[reqlife] RequestorLife %d states ok=%s; %d schedules on the real client/server: %d events, %d call outcomes compared; flagged %d, notes %d" % (
            m.distinct, m.ok, summ["runs"], summ["events"], res["calls_compared"], len(viols), len(r.notes)))
        for n in r.notes[:4]:
            log("NOTE reqlife run=%s line=%s %s" % (n["run"], n["line"], n["what"]))
    finally:
        work.cleanup()
    cache_put(key, res)
    return res


# ------------------------------------------------------------------ repliers over time, client + server (C10)
PL_TIERS = {"quick": {"cases": 120}, "thorough": {"cases": 4000}}


def replife_pipeline(tier):
    """ReplierLife.tla (bound / standby / take-over; liveness) model-checked; its start/stop/request schedules
    replayed with real repliers (client keep-alive included) against the real server; Trace_ReplierLife validates."""
    key = "replife-%s-%s-%d" % (tier, tree_key(), seed())
    c = cache_get(key)
    if c is not None:
        log("[replife] reusing pipeline result computed %.0fs ago for the same tree/seed" % (time.time() - c["at"]))
        c["cached"] = True
        return c
    build_harness()
    T = PL_TIERS[tier]
    work = Work("replife-%s" % tier)
    t0 = time.time()
    res = {"at": time.time(), "cached": False}
    try:
        m = tlc("ReplierLife", "MC_ReplierLife.cfg", work, workers=4, timeout=1800, coverage=True)
        res["models"] = [{"module": "ReplierLife", "cfg": "MC_ReplierLife.cfg", "states": m.distinct, "transitions": m.generated,
                          "ok": m.ok, "violated": m.violated or m.errors[:2], "wall_s": round(m.wall, 1)}]
        res["model_ok"] = m.ok
        res["model_tail"] = "" if m.ok else m.out[-3000:]
        g = tlc("ReplierLifeGen", "MC_ReplierLifeGen.cfg", work, workers=8, timeout=1800)
        seen, scheds = set(), []
        for s in g.sched_lines():
            k = json.dumps(s)
            if k not in seen:
                seen.add(k)
                scheds.append(s)
        total = len(scheds)
        rnd = random.Random(seed())
        rnd.shuffle(scheds)
        scheds = scheds[:T["cases"]]
        sf = work.path("pl-sched.jsonl")
        with open(sf, "w") as f:
            for i, st in enumerate(scheds):
                f.write(json.dumps({"id": "pl-%d" % i, "steps": st}) + "\n")
        trace = work.path("trace-replife.ndjson")
        p = sh([os.path.join(BIN, "e2e"), "replife", "--cases", sf, "--out", trace, "--seed", str(seed()), "--par", "16"], timeout=7200)
        summ = json.loads(p.stdout.strip().splitlines()[-1])
        r = tlc("Trace_ReplierLife", "Trace_ReplierLife.cfg", work, workers=1, trace=trace, timeout=3600, xmx="8g")
        if not r.ok:
            raise ToolError("trace validation (Trace_ReplierLife) did not complete:\n%s" % r.out[-3000:])
        lines = [x for x in open(trace).read().split("\n") if x]
        starts = {}
        for i, x in enumerate(lines):
            if x.startswith('{"ev":"case"'):
                starts[json.loads(x)["run"]] = i
        viols = []
        for v in r.viol:
            v = dict(v)
            b = starts.get(v["run"], max(0, v["line"] - 40))
            v["schedule"] = {"id": "pl-%d" % (v["run"] - 1), "steps": scheds[v["run"] - 1]} if 0 < v["run"] <= len(scheds) else None
            v["trace"] = [json.loads(x) for x in lines[b:v["line"]]][-60:]
            viols.append(v)
        takeovers = sum(1 for x in lines if '"ev":"result"' in x and '"probe":true' in x)
        res.update({"schedules_distinct": total, "schedules_used": len(scheds), "runs": summ["runs"], "events": summ["events"],
                    "answers_checked": sum(1 for x in lines if '"ev":"result"' in x), "probes_after_changes": takeovers,
                    "viol": cap_diverse(viols), "n_viol": len(viols), "inconclusive": r.notes[:10], "n_inconclusive": len(r.notes),
                    "sample": [json.loads(x) for x in lines[:14]], "wall_s": round(time.time() - t0, 1)})
        log("[replife] ReplierLife %d states ok=%s; %d of %d schedules with real repliers: %d events, %d answers attributed; flagged %d, notes %d" % (
            m.distinct, m.ok, len(scheds), total, summ["events"], res["answers_checked"], len(viols), len(r.notes)))
    finally:
        work.cleanup()
    cache_put(key, res)
    return res


# ------------------------------------------------------------------ publisher / subscriber handles over time (C12, C01)
PSL_TIERS = {"quick": {"ex": 100, "sim": 50, "simn": 250}, "thorough": {"ex": 3000, "sim": 1500, "simn": 2000}}


def publife_pipeline(tier):
    """PubSubLife.tla model-checked; PubSubLifeGen schedules (publishers incl. duplicate(), subscribers, connection
    losses on either side, finish) replayed with the real client library and server; Trace_PubSubLife takes every
    step and every delivery through the specification's actions."""
    key = "publife-%s-%s-%d" % (tier, tree_key(), seed())
    c = cache_get(key)
    if c is not None:
        log("[publife] reusing pipeline result computed %.0fs ago for the same tree/seed" % (time.time() - c["at"]))
        c["cached"] = True
        return c
    build_harness()
    T = PSL_TIERS[tier]
    work = Work("publife-%s" % tier)
    t0 = time.time()
    res = {"at": time.time(), "cached": False}
    try:
        from concurrent.futures import ThreadPoolExecutor
        with ThreadPoolExecutor(max_workers=3) as ex_:
            fm = ex_.submit(tlc, "PubSubLife", "MC_PubSubLife.cfg", work, 6, None, None, 1800)
            fg = ex_.submit(tlc, "PubSubLifeGen", "MC_PubSubLifeGen.cfg", work, 6, None, None, 1800)
            fs = ex_.submit(tlc, "PubSubLifeGen", "MC_PubSubLifeGen_sim.cfg", work, 1,
                            ["-seed", str(seed() + 9), "-simulate", "num=%d" % T["simn"], "-depth", "200"], None, 1800)
            m, g, s = fm.result(), fg.result(), fs.result()
        res["models"] = [{"module": "PubSubLife", "cfg": "MC_PubSubLife.cfg", "states": m.distinct, "transitions": m.generated,
                          "ok": m.ok, "violated": m.violated or m.errors[:2], "wall_s": round(m.wall, 1)}]
        res["model_ok"] = m.ok
        res["model_tail"] = "" if m.ok else m.out[-3000:]
        rnd = random.Random(seed())
        ex = g.sched_lines()
        sim = s.sched_lines()
        n_ex, n_sim = len(ex), len(sim)
        # schedules with a connection loss first
        cuts = [x for x in ex if any(st["op"].startswith("cut") for st in x)]
        rest = [x for x in ex if not any(st["op"].startswith("cut") for st in x)]
        rnd.shuffle(cuts)
        rnd.shuffle(rest)
        ex = cuts[:T["ex"] * 3 // 4]
        ex += rest[:T["ex"] - len(ex)]
        rnd.shuffle(sim)
        sim = sim[:T["sim"]]
        # variants in which a publisher's connection is lost in mid-write (CutPubMid) instead of between messages:
        # the first such loss of a schedule whose handle is open and has not met an outage yet
        mids = []
        for x in ex + sim:
            state = {}
            for k, st in enumerate(x):
                if st["op"] == "open_pub":
                    state[st["id"]] = "up"
                elif st["op"] in ("finish",):
                    state[st["id"]] = "finished"
                elif st["op"] == "cut_pub":
                    if st["id"] <= 2 and state.get(st["id"]) == "up":
                        y = [dict(z) for z in x]
                        y[k] = {"op": "cut_pub_mid", "id": st["id"], "m": 2 + (len(mids) % 2)}
                        mids.append(y)
                    break
            if len(mids) >= T.get("mid", 24):
                break
        sf = work.path("psl-sched.jsonl")
        scheds = ex + sim + mids
        with open(sf, "w") as f:
            for i, st in enumerate(scheds):
                f.write(json.dumps({"id": "psl-%d" % i, "origins": 2, "steps": st}) + "\n")
        trace = work.path("trace-publife.ndjson")
        p = sh([os.path.join(BIN, "e2e"), "publife", "--cases", sf, "--out", trace, "--seed", str(seed()), "--par", "16"], timeout=7200)
        summ = json.loads(p.stdout.strip().splitlines()[-1])
        r = tlc("Trace_PubSubLife", "Trace_PubSubLife.cfg", work, workers=1, trace=trace, timeout=3600, xmx="8g")
        if not r.ok:
            raise ToolError("trace validation (Trace_PubSubLife) did not complete:\n%s" % r.out[-3000:])
        lines = [x for x in open(trace).read().split("\n") if x]
        starts = {}
        for i, x in enumerate(lines):
            if x.startswith('{"ev":"case"'):
                starts[json.loads(x)["run"]] = i
        viols = []
        for v in r.viol:
            v = dict(v)
            b = starts.get(v["run"], max(0, v["line"] - 40))
            v["schedule"] = {"id": "psl-%d" % (v["run"] - 1), "origins": 2, "steps": scheds[v["run"] - 1]} if 0 < v["run"] <= len(scheds) else None
            v["context"] = [json.loads(x) for x in lines[b:v["line"]]][-80:]
            v["event"] = json.loads(lines[v["line"] - 1]) if v["line"] - 1 < len(lines) else {}
            viols.append(v)
        res.update({"schedules": {"exhaustive": [n_ex, len(ex)], "simulated": [n_sim, len(sim)], "legend": "[generated, used]",
                                  "with_connection_loss": sum(1 for x in scheds if any(st["op"].startswith("cut") for st in x)),
                                  "with_a_loss_in_mid_write": len(mids)},
                    "runs": summ["runs"], "events": summ["events"], "deliveries_checked": sum(1 for x in lines if '"ev":"recv"' in x),
                    "viol": cap_diverse(viols), "n_viol": len(viols), "inconclusive": r.notes[:20], "n_inconclusive": len(r.notes),
                    "sample": [json.loads(x) for x in lines[:16]], "wall_s": round(time.time() - t0, 1)})
        log("[publife] PubSubLife %d states ok=%s; %d schedules on the real client/server: %d events, %d deliveries; flagged %d, notes %d" % (
            m.distinct, m.ok, summ["runs"], summ["events"], res["deliveries_checked"], len(viols), len(r.notes)))
        for n in r.notes[:4]:
            log("NOTE publife run=%s line=%s %s" % (n["run"], n["line"], n["what"]))
    finally:
        work.cleanup()
    cache_put(key, res)
    return res
