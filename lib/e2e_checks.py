"""Server-level checks over loopback QUIC (C11, C17, the server half of C07)."""
import json
import os
import random
import time

from common import (BIN, ToolError, Work, build_harness, cache_get, cache_put, log, seed, sh, tlc, tree_key)

TIERS = {"quick": {"cases": 60, "regs": 150}, "thorough": {"cases": 900, "regs": 400}}


def server_pipeline(tier):
    key = "server-%s-%s-%d" % (tier, tree_key(), seed())
    c = cache_get(key)
    if c is not None:
        log("[server] reusing pipeline result computed %.0fs ago for the same tree/seed" % (time.time() - c["at"]))
        c["cached"] = True
        return c
    build_harness()
    T = TIERS[tier]
    work = Work("server-%s" % tier)
    t0 = time.time()
    res = {"at": time.time(), "cached": False}
    try:
        m1 = tlc("ServerReg", "MC_ServerReg.cfg", work, workers=8, timeout=1800, coverage=False)
        m2 = tlc("ServerReg", "MC_ServerReg_live.cfg", work, workers=8, timeout=1800)
        res["models"] = [{"module": "ServerReg", "cfg": c_, "states": m.distinct, "transitions": m.generated, "ok": m.ok,
                          "violated": m.violated or m.errors[:2], "wall_s": round(m.wall, 1)}
                         for c_, m in (("MC_ServerReg.cfg", m1), ("MC_ServerReg_live.cfg", m2))]
        res["model_ok"] = m1.ok and m2.ok
        res["model_tail"] = "" if res["model_ok"] else (m1.out[-2000:] + m2.out[-2000:])
        cases = m1.case_lines()
        total = len(cases)
        rnd = random.Random(seed())
        if len(cases) > T["cases"]:
            cases = rnd.sample(cases, T["cases"])
        log("[server] TLC ServerReg: %d + %d distinct states; %d cases enumerated, %d used" % (m1.distinct, m2.distinct, total, len(cases)))
        cf = work.path("cases.jsonl")
        with open(cf, "w") as f:
            for c_ in cases:
                f.write(json.dumps(c_) + "\n")
        viols = []
        events = runs = 0
        samples = []
        for tag, cmd in (("server", ["server", "--cases", cf]), ("stall", ["stall", "--regs", str(T["regs"])])):
            trace = work.path("trace-%s.ndjson" % tag)
            p = sh([os.path.join(BIN, "e2e")] + cmd + ["--out", trace, "--seed", str(seed())], timeout=3600)
            summ = json.loads(p.stdout.strip().splitlines()[-1])
            r = tlc("Trace_ServerReg", "Trace_ServerReg.cfg", work, workers=1, trace=trace, timeout=3600, xmx="8g")
            if not r.ok:
                raise ToolError("trace validation did not complete for %s:\n%s" % (tag, r.out[-3000:]))
            lines = [x for x in open(trace).read().split("\n") if x]
            events += summ["events"]
            runs += summ["runs"]
            if tag == "server":
                samples = [json.loads(x) for x in lines[:10]]
            else:
                samples += [json.loads(x) for x in lines if '"other_topic_roundtrip"' in x or '"queued_registrations"' in x or '"flood"' in x][:6]
            for v in r.viol:
                v = dict(v)
                v["part"] = tag
                v["event"] = json.loads(lines[v["line"] - 1]) if v["line"] - 1 < len(lines) else {}
                v["context"] = [json.loads(x) for x in lines[max(0, v["line"] - 25):v["line"]]]
                viols.append(v)
        res.update({"cases_total": total, "cases_used": len(cases), "events": events, "runs": runs, "viol": viols[:100],
                    "n_viol": len(viols), "samples": samples, "wall_s": round(time.time() - t0, 1)})
    finally:
        work.cleanup()
    cache_put(key, res)
    return res
