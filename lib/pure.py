"""Checks for the pure-function shaped code (C05 C06 C07 C13 C14): TLC enumerates the case space of
the TLA+ module (and checks the module's own invariants over it), the harness binary `pure` runs
every case on the real functions, TLC validates the recorded ndjson trace against the module."""
import json
import os
import random
import time

from common import (BIN, ToolError, Work, build_harness, log, seed, sh, tlc, verdict, write_evidence,
                    write_replay, cfg_with)

SPECS = {
    "C13": dict(module="Backoff", cfg="MC_Backoff.cfg", sub="backoff", trace=("Trace_Backoff", "Trace_Backoff.cfg"),
                level="model_checking",
                quick=dict(cap=None, extra=["--large", "340"]),
                thorough=dict(cap=None, extra=["--large", "6000"], cfg_subst={"Steps": "{0, 1, 2, 3, 5, 7, 11}", "Factors": "{0, 1, 2, 3, 7, 10}",
                                                                               "Attempts": "{0, 1, 2, 3, 6, 9}", "Caps": "{0, 1, 5, 20, 100000}"}),
                assume=["small domain: nanosecond values within TLC's 32-bit integers, compared with the module's own Delay",
                        "large domain: recomputed exactly in nanoseconds with BigNat.tla (base-10^4 limbs)"]),
    "C07": dict(module="TopicName", cfg="MC_TopicName.cfg", sub="topic", trace=("Trace_TopicName", "Trace_TopicName.cfg"),
                level="model_checking",
                quick=dict(cap=None, extra=["--reps", "2"]),
                thorough=dict(cap=None, extra=["--reps", "40"]),
                assume=["Unicode is sampled per character class (one-byte / multi-byte, word / non-word), not enumerated",
                        "multi-byte word characters count as letters (the code's \\w is Unicode aware)"]),
    "C05": dict(module="Framing", cfg="MC_Framing.cfg", sub="framing", trace=("Trace_Framing", "Trace_Framing.cfg"),
                level="model_checking",
                quick=dict(cap=1500, extra=["--abs-max", "2"]),
                thorough=dict(cap=40000, extra=["--abs-max", "3"], cfg_subst={"MaxLen": "3", "MaxChunks": "4"}),
                assume=["abstract body lengths 0..MaxLen are mapped onto real lengths 0 .. 1 MiB (MaxLen -> exactly 1 MiB) and abstract cut points onto the same structural positions of the real byte stream",
                        "payload contents are seeded random; equality of decoded and encoded frames is computed by the harness"]),
    "C06": dict(module="Decoders", cfg="MC_Decoders.cfg", sub="decode", trace=("Trace_Decoders", "Trace_Decoders.cfg"),
                level="exploration",
                quick=dict(cap=None, extra=[]),
                thorough=dict(cap=None, extra=[], repeat=12),
                assume=["the input space is unbounded: the specification contributes the structured malformed-input case space and the outcome/allocation oracle, not exhaustiveness",
                        "each case runs in a child process under a counting allocator; an abnormal exit of the child is the `abort` outcome"]),
    "C03": dict(module="ClientPubSub", cfg="MC_ClientPubSub.cfg", sub="pubsub", bin="e2e",
                trace=("Trace_ClientPubSub", "Trace_ClientPubSub.cfg"), level="model_checking",
                quick=dict(cap=150, extra=[]),
                thorough=dict(cap=None, extra=[], repeat=3),
                assume=["loopback QUIC with certificates generated in the run; reliable ordered delivery per QUIC stream",
                        "batch interval is either far shorter (1 ms, with 4 ms between operations) or far longer (1 h) than the run",
                        "a sentinel publisher establishes that the subscription took effect before the first send",
                        "codec / compression / payload size rotate over the enumerated cases (seeded); 'lost' = not delivered within 4 s on loopback"]),
    "C04": dict(module="Requestor", cfg="MC_Requestor.cfg", sub="reqrep", bin="e2e",
                trace=("Trace_Requestor", "Trace_Requestor.cfg"), level="model_checking",
                quick=dict(cap=100, extra=[]),
                thorough=dict(cap=None, extra=[], repeat=2),
                assume=["loopback QUIC; the scripted replier speaks the wire protocol directly and echoes request headers like the real replier",
                        "request timeout 300 ms; 'now' replies are sent within milliseconds, 'late' replies after at least 600 ms",
                        "calls are issued concurrently on a requestor, its clone and a second requestor stream whose req_ids collide"]),
    "C15": dict(module="Handshake", cfg="MC_Handshake.cfg", sub="tls", bin="e2e",
                trace=("Trace_Handshake", "Trace_Handshake.cfg"), level="model_checking",
                quick=dict(cap=None, extra=[]),
                thorough=dict(cap=None, extra=[], repeat=3),
                assume=["the specification models the trust decision, not TLS; rustls/quinn are trusted to verify chains",
                        "two independent certificate sets from the bundled generator and an rcgen self-signed certificate, fresh keys every run",
                        "the no-certificate client is a raw quinn peer (the client builder cannot omit the certificate)"]),
    "C12": dict(module="KeepAlive", cfg="MC_KeepAlive.cfg", sub="keepalive", bin="e2e",
                trace=("Trace_KeepAlive", "Trace_KeepAlive.cfg"), level="fault_enumeration",
                quick=dict(cap=28, extra=[]),
                thorough=dict(cap=None, extra=[]),
                assume=["the connection is cut with the verification hook Client::verif_close_connection (cfg selium_verif)",
                        "attempt outcomes are scripted by swapping the server listening on the port: same CA = success, other CA = fast recoverable "
                        "failure, fresh server with the topic taken by the other messaging pattern = unrecoverable error",
                        "attempt events come from the client's own tracing output; back-off step 300 ms; a run whose server swap did not take effect in "
                        "time is reported as inconclusive (NOTE), never as a violation"]),
    "C14": dict(module="Pipeline", cfg="MC_Pipeline.cfg", sub="pipeline", trace=("Trace_Pipeline", "Trace_Pipeline.cfg"),
                level="exploration",
                quick=dict(cap=700, extra=[]),
                thorough=dict(cap=None, extra=[], repeat=3),
                assume=["the configuration lattice (algorithm x mode x level x payload class x codec x batching) is enumerated; payload content is seeded random",
                        "third-party compressors are black boxes to the specification"]),
}


def _run_harness(S, T, work, cases, rep_seed, tag):
    """Run the harness on the cases.  Returns (trace path, process, died): `died` when the code under test ended
    the harness process (abort, uncaught panic, fatal signal) -- that is an outcome of the code, not a tool error."""
    cf = work.path("cases-%s.jsonl" % tag)
    with open(cf, "w") as f:
        for c in cases:
            f.write(json.dumps(c) + "\n")
    trace = work.path("trace-%s.ndjson" % tag)
    cmd = [os.path.join(BIN, S.get("bin", "pure")), S["sub"], "--cases", cf, "--out", trace, "--seed", str(rep_seed)] + T["extra"]
    p = sh(cmd, timeout=7200, check=False)
    died = p.returncode < 0 or p.returncode in (101, 134)
    if p.returncode != 0 and not died:
        raise ToolError("command failed (%d): %s\n%s" % (p.returncode, cmd, (p.stdout or "")[-4000:]))
    return trace, p, died


def run_cases(pid, S, T, work, cases, rep_seed, tag):
    trace, p, died = _run_harness(S, T, work, cases, rep_seed, tag)
    killed = None
    if died:
        # Which case ends the process?  Bisect on prefixes of the case list (a prefix keeps the random stream
        # of the cases before it); the prefix that survives is validated as usual.
        rc = p.returncode
        lo, hi = 0, len(cases)          # cases[:lo] survives, cases[:hi] does not
        while hi - lo > 1:
            mid = (lo + hi) // 2
            _, _, d = _run_harness(S, T, work, cases[:mid], rep_seed, tag + "-bisect")
            lo, hi = (lo, mid) if d else (mid, hi)
        killed = {"kind": "%s_process_killed_exit_%d" % (S["sub"], rc), "props": [pid], "run": hi, "line": 10 ** 9,
                  "tail": (p.stdout or "")[-600:]}
        log("[%s] the code under test ended the harness process (exit %d) in case %d of %d" % (pid, rc, hi, len(cases)))
        trace, p, died = _run_harness(S, T, work, cases[:lo], rep_seed, tag)
        if died and lo == 0:
            # it dies without any case: in the part of the harness run that does not depend on the cases
            killed["kind"] = "%s_process_killed_exit_%d_in_fixed_scenario" % (S["sub"], rc)
            open(trace, "w").close()
            p.stdout = json.dumps({"runs": 0, "events": 0})
        elif died:
            raise ToolError("harness process dies irreproducibly (exit %d)" % rc)
    summ = json.loads(p.stdout.strip().splitlines()[-1])
    mod, cfg = S["trace"]
    r = tlc(mod, cfg, work, workers=1, trace=trace, timeout=7200, xmx="12g")
    if not r.ok:
        raise ToolError("trace validation did not complete for %s:\n%s" % (pid, r.out[-3000:]))
    if killed:
        r.viol.append(killed)
    return trace, summ, r


def check(pid, tier):
    S = SPECS[pid]
    T = S[tier]
    t0 = time.time()
    build_harness()
    work = Work("%s-%s" % (pid, tier))
    try:
        cfg = S["cfg"]
        if T.get("cfg_subst"):
            cfg = cfg_with(S["cfg"], work, "mc.cfg", T["cfg_subst"])
        m = tlc(S["module"], cfg, work, workers=8, timeout=3600, xmx="8g")
        if not m.ok:
            raise ToolError("TLC reports %s violates its own invariants: %s\n%s" % (S["module"], m.violated or m.errors, m.out[-3000:]))
        cases = m.case_lines()
        total = len(cases)
        rnd = random.Random(seed())
        if T["cap"] and len(cases) > T["cap"]:
            cases = rnd.sample(cases, T["cap"])
        log("[%s] TLC %s: %d distinct states, %d cases enumerated, %d used" % (pid, S["module"], m.distinct, total, len(cases)))
        viols = []
        events = runs = 0
        samples = []
        wall_trace = 0.0
        for rep in range(T.get("repeat", 1)):
            trace, summ, r = run_cases(pid, S, T, work, cases, seed() + rep * 7919, "r%d" % rep)
            events += summ["events"]
            runs += summ["runs"]
            wall_trace += r.wall
            lines = [x for x in open(trace).read().split("\n") if x]
            if rep == 0:
                samples = [json.loads(x) for x in lines[:6]]
            for v in r.viol:
                ev = json.loads(lines[v["line"] - 1]) if v["line"] - 1 < len(lines) else {}
                ctx = [json.loads(x) for x in lines[max(0, v["line"] - 12):v["line"]]]
                v = dict(v)
                v["event"] = ev
                v["context"] = ctx
                v["seed"] = seed() + rep * 7919
                # the enumerated case this run executed (runs are numbered in case order, per repetition)
                try:
                    v["case"] = cases[(v["run"] - 1) % len(cases)] if cases and v["run"] >= 1 else None
                except Exception:
                    v["case"] = None
                viols.append(v)
            os.remove(trace)
        mine = [v for v in viols if pid in v["props"]]

        def mk(v):
            return write_replay(pid, v["kind"], {"property": pid, "pure": S["sub"], "signature": v["kind"],
                                                 "case": v.get("case"), "event": v["event"], "context": v["context"],
                                                 "seed": v["seed"], "tier": tier,
                                                 "how": "./check %s --replay <this file>  (re-runs the recorded case on the current tree)" % pid})
        rc, n_new, hit = verdict(pid, mine, mk)
        kinds = sorted({v["kind"] for v in mine})
        cov = {
            "states": m.distinct, "transitions": m.generated,
            "traces_validated_against_impl": runs,
            "evaluations": runs, "distinct_nontrivial": len(cases),
            "rule": "cases are the states TLC enumerates for spec/%s.tla (%s); each is concretised (seeded) and executed on the real "
                    "function; distinct = distinct abstract cases; all are non-trivial by construction of the case space" % (S["module"], S["cfg"]),
            "events_validated": events,
            "cases_enumerated_by_tlc": total, "cases_used": len(cases),
            "exhaustive": total == len(cases),
            "violation_signatures": kinds, "known_findings_hit": hit,
            "samples": samples,
            "explanation": "TLC enumerates the case space of the module and checks the module's invariants over it; the harness runs "
                           "every case on the real code; TLC validates every recorded outcome against the module.",
        }
        write_evidence(pid, tier, S["level"], cov, time.time() - t0, n_new, S["assume"])
        return rc
    finally:
        work.cleanup()


def replay(pid, payload, path):
    """Re-run the recorded case (if the check could attribute one) on the current tree."""
    S = SPECS[pid]
    case = payload.get("case")
    if not case:
        print(json.dumps(payload, indent=1)[:3000])
        print("no single case recorded; re-running the quick check (deterministic for VERIF_SEED=%s)" % payload.get("seed"))
        return check(pid, "quick")
    build_harness()
    work = Work("replay-%s" % pid)
    try:
        T = dict(S[payload.get("tier", "quick")])
        T["extra"] = [a for a in T["extra"] if a not in ("--large",) and not a.isdigit()] if S["sub"] == "backoff" else T["extra"]
        trace, summ, r = run_cases(pid, S, T, work, [case], int(payload.get("seed", 1)), "replay")
        print(open(trace).read()[:6000])
        bad = [v for v in r.viol if pid in v["props"]]
        for v in r.viol:
            print("flagged:", v["kind"])
        if bad:
            print("VIOLATION property=%s replay=%s" % (pid, path))
            return 1
        print("replay: the recorded case no longer violates %s (concrete payloads are re-drawn from the seed)" % pid)
        return 0
    finally:
        work.cleanup()
