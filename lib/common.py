"""Shared machinery for the selium TLA+ verification checks.

Exit codes of ./check: 0 property held on everything explored (possibly with KNOWN-FINDING
lines), 1 violation (with a `VIOLATION property=<id> replay=<path>` line), 2 tool error.
"""
import hashlib
import json
import os
import re
import shutil
import subprocess
import sys
import time

VERIF = os.path.dirname(os.path.dirname(os.path.abspath(__file__)))
REPO = os.environ.get("VERIF_REPO", "/repo")   # overridden only by tools/try_mutant_iso.sh (scratch copy)
SPEC = os.path.join(VERIF, "spec")
HARNESS = os.path.join(VERIF, "harness")
BIN = os.path.join(HARNESS, "target", "debug")
EVID = os.path.join(VERIF, "evidence")
REPLAYS = os.path.join(VERIF, "replays")
WORKROOT = os.path.join(VERIF, ".work")
CACHE = os.path.join(VERIF, ".cache")
TLA_JAR = "/opt/veriftools/tla/tla2tools.jar"
TLA_CP = TLA_JAR + ":/opt/veriftools/tla/CommunityModules-deps.jar"


class ToolError(Exception):
    pass


class HarnessDied(ToolError):
    """The code under test ended a harness process with a fatal signal."""

    def __init__(self, returncode, cmd, tail):
        super().__init__("harness process ended by signal %d: %s\n%s" % (-returncode, cmd, tail))
        self.returncode, self.cmd, self.tail = returncode, [str(c) for c in cmd], tail


def seed():
    try:
        return int(os.environ.get("VERIF_SEED", "1"))
    except ValueError:
        return 1


def log(msg):
    print(msg, flush=True)


HARNESS_AS_LIMIT = 24 << 30     # address-space cap for harness processes (code under test may run away)


def _limit_harness():
    import resource
    resource.setrlimit(resource.RLIMIT_AS, (HARNESS_AS_LIMIT, HARNESS_AS_LIMIT))


def sh(cmd, cwd=None, env=None, timeout=None, check=True, capture=True):
    e = dict(os.environ)
    if env:
        e.update(env)
    # the conformance harness runs code under test in-process: a change that makes it allocate without
    # bound must end that process (reported as a tool error), not the machine
    pre = _limit_harness if (not isinstance(cmd, str) and str(cmd[0]).startswith(BIN)) else None
    try:
        p = subprocess.run(cmd, cwd=cwd, env=e, timeout=timeout, shell=isinstance(cmd, str),
                           stdout=subprocess.PIPE if capture else None, preexec_fn=pre,
                           stderr=subprocess.STDOUT if capture else None, text=True)
    except subprocess.TimeoutExpired as ex:
        raise ToolError("timeout after %ss: %s" % (timeout, cmd)) from ex
    if check and p.returncode != 0:
        # the harness binaries run the code under test in-process: when that code ends the process with a fatal
        # signal of its own making (abort: failed allocation, stack overflow, double panic; SIGSEGV/SIGBUS/SIGILL)
        # that is an outcome of the code, reported as a violation of the property being checked.  SIGKILL and
        # other external causes stay tool errors.
        if pre is not None and p.returncode in (-6, -11, -7, -4):
            raise HarnessDied(p.returncode, cmd, (p.stdout or "")[-3000:])
        raise ToolError("command failed (%d): %s\n%s" % (p.returncode, cmd, (p.stdout or "")[-4000:]))
    return p


class Work:
    """Per-run scratch directory under /verif/.work, removed at the end."""

    def __init__(self, name):
        self.dir = os.path.join(WORKROOT, "%s-%d" % (name, os.getpid()))
        shutil.rmtree(self.dir, ignore_errors=True)
        os.makedirs(self.dir, exist_ok=True)

    def path(self, *p):
        return os.path.join(self.dir, *p)

    def cleanup(self):
        shutil.rmtree(self.dir, ignore_errors=True)


_built = False


def build_harness():
    """(Re)build the conformance harness against /repo's current working tree."""
    global _built
    if _built:
        return
    t = time.time()
    env = {"CARGO_NET_OFFLINE": "true"}
    p = sh(["cargo", "build", "--offline"], cwd=HARNESS, env=env, timeout=1800, check=False)
    if p.returncode != 0:
        raise ToolError("harness build failed:\n" + (p.stdout or "")[-6000:])
    _built = True
    log("[build] harness built in %.1fs" % (time.time() - t))


def tree_key():
    """Hash identifying /repo's working tree and /verif's spec+harness+lib sources."""
    h = hashlib.sha256()
    for d, args in ((REPO, ["git", "-C", REPO, "rev-parse", "HEAD"]),):
        h.update(sh(args).stdout.encode())
    h.update(sh(["git", "-C", REPO, "diff", "HEAD"]).stdout.encode())
    h.update(sh(["git", "-C", REPO, "status", "--porcelain"]).stdout.encode())
    for root in (SPEC, os.path.join(HARNESS, "src"), os.path.join(VERIF, "lib")):
        for dp, dn, fn in sorted(os.walk(root)):
            dn.sort()
            for f in sorted(fn):
                if f.endswith((".pyc",)):
                    continue
                p = os.path.join(dp, f)
                h.update(p.encode())
                with open(p, "rb") as fh:
                    h.update(fh.read())
    h.update(open(os.path.join(VERIF, "check"), "rb").read())
    return h.hexdigest()[:24]


# ----------------------------------------------------------------------------- TLC

class TlcResult:
    def __init__(self, out, rc, wall):
        self.out = out
        self.rc = rc
        self.wall = wall
        self.generated = 0
        self.distinct = 0
        self.depth = 0
        m = re.findall(r"(\d[\d,]*) states generated, (\d[\d,]*) distinct states found", out)
        if m:
            self.generated = int(m[-1][0].replace(",", ""))
            self.distinct = int(m[-1][1].replace(",", ""))
        m = re.search(r"The number of states generated: (\d+)", out)
        if m:
            self.generated = int(m.group(1))
            self.distinct = max(self.distinct, 0)
        m = re.search(r"depth of the complete state graph search is (\d+)", out)
        if m:
            self.depth = int(m.group(1))
        self.errors = re.findall(r"^Error: (.*)$", out, re.M)
        self.violated = re.findall(r"Invariant (\S+) is violated", out) + \
            re.findall(r"Temporal properties were violated", out) + \
            re.findall(r"Action property (\S+) is violated", out)
        self.ok = (rc == 0 and not self.errors)
        self.viol = []
        # TLC wraps long tuples over several lines
        for m in re.finditer(r'<<\s*"VIOL",\s*(\d+),\s*(\d+),\s*\{([^}]*)\},\s*"([^"]*)"\s*>>', out):
            props = [x.strip().strip('"') for x in m.group(3).split(",") if x.strip()]
            self.viol.append({"run": int(m.group(1)), "line": int(m.group(2)),
                              "props": props, "kind": m.group(4)})
        self.notes = []
        for m in re.finditer(r'<<\s*"(?:DRIFT|NOTE)",\s*(\d+),\s*(\d+),\s*"([^"]*)"\s*>>', out):
            self.notes.append({"run": int(m.group(1)), "line": int(m.group(2)), "what": m.group(3)})

    def coverage(self):
        """Per-action counts from -coverage output: {action: (distinct, total)}"""
        cov = {}
        for m in re.finditer(r"^<(\w+) line \d+, col \d+ to line \d+, col \d+ of module \w+>: (\d+):(\d+)",
                             self.out, re.M):
            a, d, t = m.group(1), int(m.group(2)), int(m.group(3))
            pd, pt = cov.get(a, (0, 0))
            cov[a] = (pd + d, pt + t)
        return cov

    def case_lines(self):
        res = []
        for m in re.finditer(r'^<<"CASE", "(.*)">>$', self.out, re.M):
            s = m.group(1).replace('\\"', '"').replace("\\\\", "\\")
            try:
                res.append(json.loads(s))
            except json.JSONDecodeError:
                pass
        # TLC's workers print in whatever order they get there: a canonical order makes the seeded samples
        # the tiers draw from these lists the same from run to run
        res.sort(key=lambda c: json.dumps(c, sort_keys=True))
        return res

    def sched_lines(self):
        res = []
        for m in re.finditer(r'^<<"SCHED", "(.*)">>$', self.out, re.M):
            s = m.group(1).replace('\\"', '"').replace("\\\\", "\\")
            try:
                res.append(json.loads(s))
            except json.JSONDecodeError:
                pass
        res.sort(key=lambda c: json.dumps(c, sort_keys=True))
        return res


def tlc(module, cfg, work, workers=8, extra=None, env=None, timeout=1800, xmx="8g", trace=None,
        coverage=False, budget=None):
    """Run TLC on spec/<module>.tla with spec/<cfg>; returns TlcResult. Tool failure -> ToolError.
    budget (seconds): a breadth-first search that is still running then is stopped; invariants and action
    properties are evaluated on the fly, so the result stands for the states visited (r.partial = True)."""
    meta = work.path("tlc-%s-%d" % (os.path.basename(cfg).replace(".cfg", ""), int(time.time() * 1000) % 100000))
    jopts = "-Xss1g"
    e = {}
    if trace:
        jopts += " -Dtlc2.tool.queue.IStateQueue=StateDeque"
        e["TRACE"] = trace
    e["JAVA_TOOL_OPTIONS"] = jopts
    if env:
        e.update(env)
    cmd = ["java", "-XX:+UseParallelGC", "-Xmx" + xmx, "-cp", TLA_CP, "tlc2.TLC",
           "-workers", str(workers), "-metadir", meta, "-cleanup", "-noGenerateSpecTE"]
    if coverage:
        cmd += ["-coverage", "1"]
    if extra:
        cmd += extra
    cfgp = cfg if os.path.isabs(cfg) else os.path.join(SPEC, cfg)
    cmd += ["-config", cfgp, os.path.join(SPEC, module + ".tla")]
    t = time.time()
    if budget:
        ee = dict(os.environ)
        ee.update(e)
        pr = subprocess.Popen(cmd, cwd=work.dir, env=ee, stdout=subprocess.PIPE, stderr=subprocess.STDOUT, text=True)
        try:
            out, _ = pr.communicate(timeout=budget)
            rc, partial = pr.returncode, False
        except subprocess.TimeoutExpired:
            pr.kill()
            out, _ = pr.communicate()
            rc, partial = 0, True
        wall = time.time() - t
        shutil.rmtree(meta, ignore_errors=True)
        r = TlcResult(out or "", rc, wall)
        r.partial = partial
        if partial:
            m = re.findall(r"Progress\(\d+\) at [^:]*:\d+:\d+: ([\d,]+) states generated.*?([\d,]+) distinct states found", out or "")
            if m:
                r.generated = int(m[-1][0].replace(",", ""))
                r.distinct = int(m[-1][1].replace(",", ""))
            d = re.findall(r"Progress\((\d+)\)", out or "")
            r.depth = int(d[-1]) if d else 0
            r.ok = not r.errors and not r.violated
            return r
        p = subprocess.CompletedProcess(cmd, rc, out, None)
    else:
        p = sh(cmd, cwd=work.dir, env=e, timeout=timeout, check=False)
        wall = time.time() - t
        shutil.rmtree(meta, ignore_errors=True)
    out = p.stdout or ""
    r = TlcResult(out, p.returncode, wall)
    r.partial = False
    # rc 0: ok; 12/13: safety/liveness violation; others: tool problems
    if p.returncode not in (0, 10, 11, 12, 13):
        raise ToolError("TLC failed rc=%d on %s/%s\n%s" % (p.returncode, module, cfg, out[-3000:]))
    if "Parsing or semantic analysis failed" in out or "Exception" in out and "TLC" in out and p.returncode != 0 and not r.violated:
        raise ToolError("TLC error on %s/%s\n%s" % (module, cfg, out[-3000:]))
    return r


def cfg_with(base_cfg, work, name, subst):
    """Copy spec/<base_cfg> into the work dir with `NAME = value` constants overridden."""
    text = open(os.path.join(SPEC, base_cfg)).read()
    for k, v in subst.items():
        text, n = re.subn(r"^(\s*%s\s*=\s*).*$" % re.escape(k), lambda m: m.group(1) + str(v), text, flags=re.M)
        if n == 0:
            raise ToolError("constant %s not in %s" % (k, base_cfg))
    p = work.path(name)
    with open(p, "w") as f:
        f.write(text)
    return p


# ----------------------------------------------------------------------------- findings / evidence

def known_findings():
    p = os.path.join(VERIF, "known_findings.json")
    if not os.path.exists(p):
        return []
    return json.load(open(p)).get("findings", [])


def write_evidence(pid, tier, level, coverage, wall, violations, assumptions):
    os.makedirs(EVID, exist_ok=True)
    ev = {
        "property_id": pid,
        "tier": tier,
        "seed": seed(),
        "level": level,
        "coverage": coverage,
        "assumptions": assumptions,
        "wall_s": round(wall, 2),
        "violations": violations,
    }
    with open(os.path.join(EVID, pid + ".json"), "w") as f:
        json.dump(ev, f, indent=1, sort_keys=True)
        f.write("\n")


def write_replay(pid, tag, payload):
    os.makedirs(REPLAYS, exist_ok=True)
    h = hashlib.sha256(json.dumps(payload, sort_keys=True).encode()).hexdigest()[:10]
    p = os.path.join(REPLAYS, "%s-%s-%s.json" % (pid, re.sub(r"[^A-Za-z0-9_]+", "_", tag)[:40], h))
    with open(p, "w") as f:
        json.dump(payload, f, indent=1)
        f.write("\n")
    return p


def verdict(pid, viols, make_replay):
    """viols: list of dicts with at least 'kind' (signature). Prints KNOWN-FINDING / VIOLATION
    lines; returns (exit_code, n_new_violations, known_hit list)."""
    open_findings = [f for f in known_findings() if f.get("property") == pid and f.get("status") == "open"]
    sigs = {f["signature"]: f for f in open_findings}
    new = [v for v in viols if v["kind"] not in sigs]
    hit = sorted({v["kind"] for v in viols if v["kind"] in sigs})
    for f in open_findings:
        rep = "" if f["signature"] in hit else " (not reproduced in this run)"
        print("KNOWN-FINDING: property=%s %s: %s%s" % (pid, f["signature"], f.get("what", ""), rep), flush=True)
    seen = set()
    for v in new:
        if v["kind"] in seen:
            continue
        seen.add(v["kind"])
        path = make_replay(v)
        print("VIOLATION property=%s replay=%s" % (pid, path), flush=True)
        print("  signature: %s" % v["kind"], flush=True)
    return (1 if new else 0), len(new), hit


def cap_diverse(viols, per=4, total=400):
    """A pipeline keeps a bounded list of the violations it found.  The bound must not hide a kind of violation, or
    the violations of one property, behind hundreds of another: the first `per` of every (properties, signature)
    combination are kept, in the order found."""
    seen, out = {}, []
    for v in viols:
        k = (tuple(sorted(v.get("props", []))), v.get("kind"))
        seen[k] = seen.get(k, 0) + 1
        if seen[k] <= per and len(out) < total:
            out.append(v)
    return out


def cache_get(name):
    p = os.path.join(CACHE, name + ".json")
    if os.path.exists(p) and time.time() - os.path.getmtime(p) < 3600:
        try:
            return json.load(open(p))
        except Exception:
            return None
    return None


def cache_put(name, obj):
    os.makedirs(CACHE, exist_ok=True)
    # keep the cache small
    for f in os.listdir(CACHE):
        fp = os.path.join(CACHE, f)
        if time.time() - os.path.getmtime(fp) > 3600:
            try:
                os.remove(fp)
            except OSError:
                pass
    with open(os.path.join(CACHE, name + ".json"), "w") as f:
        json.dump(obj, f)
